#!/usr/bin/env python3
"""merge_seed_report.py <partial report> : merges the report of a partial `selftest/run.py --seeded --only X --report F`
run into selftest/seeded_report.json (entries of the partial run replace older ones)."""
import json
import os
import sys
ROOT = os.path.dirname(os.path.dirname(os.path.abspath(__file__)))
dst = os.path.join(ROOT, "selftest", "seeded_report.json")
full = json.load(open(dst))
part = json.load(open(sys.argv[1]))
full.update(part)
json.dump(full, open(dst, "w"), indent=1, sort_keys=True)
print("merged %d entries, %d in total, not OK: %s" % (len(part), len(full), [k for k, v in full.items() if v["status"] != "OK"]))
