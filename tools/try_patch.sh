#!/bin/bash
# try_patch.sh <patch.diff> <Cxx>... : applies a patch to a scratch copy of /repo's lib and src (under $TMPDIR) and runs the
# named checks against it; prints the violation keys. Used while triaging seeds that are still being validated.
set -u
P=$(readlink -f "$1"); shift
D=$(mktemp -d -t vstat_try_XXXXXX)
mkdir -p $D
rsync -a --exclude SelfTest --exclude '*.so' --exclude __pycache__ /repo/lib $D/ >/dev/null
rsync -a /repo/src $D/ >/dev/null
cp /repo/setup.py /repo/compiler_opt.py $D/
(cd $D && git apply --unsafe-paths "$P") || { echo "patch does not apply"; rm -rf $D; exit 3; }
for C in "$@"; do
  (cd /verif && python3 -m vstat check $C --repo $D --tier quick 2>&1 | grep -E "rule=|extracted|quick:|ANALYSIS" | cut -c1-400 | head -12)
done
rm -rf $D
