#!/bin/bash
# validate_seed.sh <dir with patch.diff demo.py> : confirms in a scratch worktree that the change
# applies, builds, keeps the pinned suite's result, makes demo.py fail, and that demo.py passes without it.
# Writes <dir>/validation.json. Scratch worktree: /tmp/wt/val (created on demand, removed by the caller).
set -u
D=$(readlink -f "$1")
WT=${VAL_WT:-/tmp/wt/val}
TAG=$(basename $WT)
PY=/venv/bin/python
if [ ! -d $WT ]; then
  git -C /repo worktree add --detach $WT HEAD >/dev/null 2>&1
  (cd /repo && find lib -name "*.so") | while read f; do cp /repo/$f $WT/$f; done
fi
cd $WT
git checkout -q -- . 
run_suite() { # $1 = out file of failed ids
  PYTHONPATH=$WT/lib $PY -m pytest -q -p no:cacheprovider -n 16 --timeout=900 --continue-on-collection-errors -rfE 2>&1 | tee /tmp/wt/${TAG}_last.log | grep -E "^(FAILED|ERROR) " | sed 's/ - .*//' | sort -u > $1
  tail -1 /tmp/wt/${TAG}_last.log
}
if [ ! -f /tmp/wt/clean_failed.txt ]; then
  run_suite /tmp/wt/clean_failed.txt > /tmp/wt/clean_summary.txt
fi
CLEAN_SUM=$(cat /tmp/wt/clean_summary.txt)
applies=false; builds=true; demo_mut=-1; demo_clean=-1; suite_same=false
if git apply --check "$D/patch.diff" 2>/dev/null; then applies=true; git apply "$D/patch.diff"; fi
CH_C=$(git status --short | grep -c " src/")
if [ "$CH_C" != "0" ]; then $PY setup.py build_ext --inplace --force -j 16 >/tmp/wt/${TAG}_build.log 2>&1 || builds=false; fi
PYTHONPATH=$WT/lib timeout 300 $PY "$D/demo.py" > "$D/demo_mut.out" 2>&1; demo_mut=$?
MUT_SUM=$(run_suite /tmp/wt/${TAG}_mut_failed.txt)
if diff -q /tmp/wt/clean_failed.txt /tmp/wt/${TAG}_mut_failed.txt >/dev/null && [ "$(echo $MUT_SUM | grep -o '[0-9]* passed')" == "$(echo $CLEAN_SUM | grep -o '[0-9]* passed')" ]; then suite_same=true; fi
git checkout -q -- .
if [ "$CH_C" != "0" ]; then $PY setup.py build_ext --inplace --force -j 16 >/tmp/wt/${TAG}_build.log 2>&1; fi
PYTHONPATH=$WT/lib timeout 300 $PY "$D/demo.py" > "$D/demo_clean.out" 2>&1; demo_clean=$?
cat > "$D/validation.json" <<EOT
{"applies": $applies, "builds": $builds, "demo_exit_with_change": $demo_mut, "demo_exit_without_change": $demo_clean,
 "suite_same_as_clean": $suite_same, "suite_with_change": "$MUT_SUM", "suite_clean": "$CLEAN_SUM"}
EOT
cat "$D/validation.json"
