#!/bin/bash
# seed_round.sh <suffix> <ids...> : prepares scratch worktrees /tmp/wt/<ID><suffix> of /repo's HEAD (built: the .so files of
# /repo are copied), /tmp/wt/out/<ID><suffix>/property.json (the property text only) and used.txt (sites that earlier rounds
# already mutated for this property: file and one-line title, so that a new round goes elsewhere).
set -u
SUF=$1; shift
mkdir -p /tmp/wt/out
for ID in "$@"; do
  W=/tmp/wt/$ID$SUF
  if [ ! -d $W ]; then
    git -C /repo worktree add --detach $W HEAD >/dev/null 2>&1
    (cd /repo && find lib -name "*.so") | while read f; do cp /repo/$f $W/$f; done
  fi
  O=/tmp/wt/out/$ID$SUF
  mkdir -p $O
  python3 - "$ID" "$O" <<'PY'
import json, sys, glob, os
pid, out = sys.argv[1], sys.argv[2]
for l in open('/verif/properties.jsonl'):
    d = json.loads(l)
    if d['id'] == pid:
        json.dump(d, open(os.path.join(out, 'property.json'), 'w'), indent=1)
used = []
for m in sorted(glob.glob('/verif/seeded/%s-*/meta.json' % pid)):
    j = json.load(open(m))
    used.append("%s: %s" % (", ".join(j.get('files', [])), j.get('title', '')[:160]))
open(os.path.join(out, 'used.txt'), 'w').write("\n".join(used) + "\n")
PY
done
echo prepared: "$@"
