#!/usr/bin/env python3
"""Copies validated seeded changes from /tmp/wt/out/<prop>/<n> to /verif/seeded/<prop>-<n>/
(patch.diff, demo.py, meta.json merged with validation.json). Only seeds whose validation confirms:
applies, builds, demo fails with the change, demo passes without, suite result unchanged."""
import glob, json, os, shutil, sys
OUT = "/tmp/wt/out"
DST = "/verif/seeded"
os.makedirs(DST, exist_ok=True)
# confirmed seeds that are not kept, with the reason
EXCLUDE = {
    "C05b/1": "same mechanism as C05-2 (memcmp of a prefix in ed25519_new_point); the fix c17871bb rewrote that comparison, the patch no longer applies",
}
for d in sorted(glob.glob(OUT + "/C*/[0-9]*")):
    if "/".join(d.split("/")[-2:]) in EXCLUDE:
        continue
    v = os.path.join(d, "validation.json")
    if not os.path.exists(v):
        continue
    val = json.load(open(v))
    ok = val["applies"] and val["builds"] and val["demo_exit_with_change"] == 1 and \
        val["demo_exit_without_change"] == 0 and val["suite_same_as_clean"]
    raw = d.split("/")[-2]
    prop = raw[:3]                      # round-2 directories are named C01b, ...
    n = (raw[3:] + d.split("/")[-1])    # C01b/2 -> C01-b2
    dst = os.path.join(DST, "%s-%s" % (prop, n))
    if not ok:
        print("REJECTED", d, val)
        continue
    if os.path.exists(os.path.join(dst, "meta.json")):
        continue
    os.makedirs(dst, exist_ok=True)
    shutil.copy(os.path.join(d, "patch.diff"), dst)
    shutil.copy(os.path.join(d, "demo.py"), dst)
    try:
        meta = json.load(open(os.path.join(d, "meta.json")))
    except Exception:
        meta = {"raw_meta": open(os.path.join(d, "meta.json")).read()}
    meta["property"] = prop
    meta["confirmed_by_me"] = {
        "how": "tools/validate_seed.sh in scratch worktree /tmp/wt/val: git apply, rebuild if src/ changed, demo.py, full pytest suite (-n 16) compared with a clean run (passed count and FAILED/ERROR ids), revert, demo.py again",
        "result": val}
    meta.setdefault("checks", [prop])
    meta.setdefault("expect", "")
    json.dump(meta, open(os.path.join(dst, "meta.json"), "w"), indent=1)
    print("imported", dst)
