#!/usr/bin/env python3
"""Regenerate the generated regions of DESIGN.md (between <!-- X-BEGIN --> / <!-- X-END --> markers) from what the
machinery wrote itself: selftest/seeded_report.json + seeded/*/meta.json (which rule key caught which seeded
change), selftest/mutants_report.json, evidence/*.json (obligation counts), known_findings.json."""
import json
import os
import re
import sys

ROOT = os.path.dirname(os.path.dirname(os.path.abspath(__file__)))


def esc(s):
    return s.replace("|", "\\|").replace("\n", " ")


def seed_table():
    rep = json.load(open(os.path.join(ROOT, "selftest", "seeded_report.json")))
    rows = ["| seed | file | change | caught by (rule key) |", "|---|---|---|---|"]

    def order(k):
        m = re.match(r"C(\d+)-([a-z]?)(\d+)", k)
        return (int(m.group(1)), m.group(2), int(m.group(3))) if m else (99, k, 0)
    for sid in sorted(os.listdir(os.path.join(ROOT, "seeded")), key=order):
        mp = os.path.join(ROOT, "seeded", sid, "meta.json")
        if not os.path.isfile(mp):
            continue
        meta = json.load(open(mp))
        files = ", ".join(os.path.basename(f) for f in meta.get("files", []))
        title = meta.get("title", "")
        if len(title) > 170:
            title = title[:167] + "..."
        if meta.get("obsolete"):
            caught = "*obsolete*: " + meta["obsolete"]
        else:
            r = rep.get(sid)
            if not r:
                caught = "(not in the last report)"
            elif r["status"] != "OK":
                caught = "**MISSED** (%s)" % r["status"]
            else:
                keys = r.get("keys", [])
                caught = "; ".join("`%s`" % esc(k[:110]) for k in keys[:2]) + (" (+%d)" % (len(keys) - 2) if len(keys) > 2 else "")
        rows.append("| %s | %s | %s | %s |" % (sid, esc(files), esc(title), caught))
    return "\n".join(rows)


def counts_table():
    rows = ["| id | obligations | known findings | instances per rule | rows / cases analysed | quick wall time |", "|---|---|---|---|---|---|"]
    for i in range(1, 21):
        pid = "C%02d" % i
        p = os.path.join(ROOT, "evidence", pid + ".json")
        if not os.path.isfile(p):
            continue
        ev = json.load(open(p))
        c = ev["coverage"]
        rules = ", ".join("%s %d" % (esc(k), v["instances"]) for k, v in sorted(c.get("per_rule", {}).items()))
        an = ", ".join("%s %s" % (k, v) for k, v in sorted(c.get("analysed", {}).items()) if isinstance(v, int) and v > 40 and k.endswith(("rows", "_native", "_gmp", "_custom")))
        rows.append("| %s | %s | %s | %s | %s | %.0f s |" % (pid, c.get("obligations"), c.get("known_findings_reported", 0), rules, an, ev.get("wall_s", 0)))
    return "\n".join(rows)


def fixes_table():
    d = json.load(open(os.path.join(ROOT, "known_findings.json")))
    seen = {}
    for f in d["findings"]:
        if f.get("status") != "fixed":
            continue
        what = re.sub(r"^fixed: property=\S+ \S+ ", "", f["what"])
        e = seen.setdefault(f["commit"], {"props": [], "what": what})
        if f["property"] not in e["props"]:
            e["props"].append(f["property"])
    rows = ["| fix commit | property | what failed |", "|---|---|---|"]
    for c, e in seen.items():
        rows.append("| %s | %s | %s |" % (c, ", ".join(sorted(e["props"])), esc(e["what"])))
    return "\n".join(rows)


GEN = {"SEED-TABLE": seed_table, "COUNTS-TABLE": counts_table, "FIXES-TABLE": fixes_table}


def main():
    p = os.path.join(ROOT, "DESIGN.md")
    s = open(p).read()
    for name, fn in GEN.items():
        b, e = "<!-- %s-BEGIN -->" % name, "<!-- %s-END -->" % name
        if b not in s:
            print("marker %s missing" % name, file=sys.stderr)
            continue
        i, j = s.index(b) + len(b), s.index(e)
        s = s[:i] + "\n" + fn() + "\n" + s[j:]
    open(p, "w").write(s)


if __name__ == "__main__":
    main()
