#!/bin/bash
# validates every /tmp/wt/out/C*/[0-9]* that has patch.diff+demo.py and no validation.json; polls for new ones
while true; do
  found=0
  for d in /tmp/wt/out/C*/[0-9]*; do
    if [ -f $d/patch.diff ] && [ -f $d/demo.py ] && [ -f $d/meta.json ] && [ ! -f $d/validation.json ] && [ ! -f $d/.validating ]; then
      found=1
      touch $d/.validating
      /verif/tools/validate_seed.sh $d >> /tmp/wt/validate_loop.log 2>&1
      rm -f $d/.validating
    fi
  done
  if [ -f /tmp/wt/STOP_VALIDATE ]; then exit 0; fi
  if [ $found = 0 ]; then sleep 60; fi
done
