#!/usr/bin/env python3
"""Regenerates /verif/MANIFEST.json from the table below (kept in one place so
that the manifest is always consistent with the checks that exist)."""
import json
import os

VERIF = os.path.dirname(os.path.dirname(os.path.abspath(__file__)))

CLAIMS = {
 "C01": dict(
   technique="AST data-flow of the tag comparison (whole-value paths, wrapper symmetry) + must-pass-through on an abstract-interpretation CFG + guard normalisation by region enumeration",
   text="Decides structurally, on every path, that each AEAD verify() compares the whole received tag with the whole expected tag through the same keyed digest and raises ValueError on mismatch, that no normal exit of verify/hexverify/decrypt_and_verify avoids the match edge, and that tag-length/nonce/key/block-size domains and KW/KWP integrity checks accept exactly the standards' sets. This is the necessary 'only-if' half of the property; equality of the tag function with the specification is arithmetic and is not decided.",
   note="Trusts the checker's own transfer functions for Python operators/builtins and the oracle rows in vstat/props/C01.py (SP 800-38C/D/F, RFC 5297/7253/8439). Does not decide tag values."),
 "C04": dict(
   technique="guard normalisation by region enumeration (seeded conditional constant propagation) + use-before-guard events + decisive-test dominance + syntactic effect rules (P4/P5/P8) + explicit-raise closure",
   text="Decides that every range/length/structure guard on the verify paths of DSS/DSA/ECDSA, EdDSA, PSS and PKCS#1 v1.5 accepts exactly the standard's set, precedes the raw verification, raises ValueError; that every normal exit of verify() follows the passing edge of the final equation test; that hash objects are not consumed and scheme objects not mutated; that deterministic encoders draw no randomness. Necessary conditions of the property; the verification equations themselves are not decided.",
   note="Trusts the oracle rows (FIPS 186-4, RFC 8032, RFC 8017) and the engine's operator models."),
 "C10": dict(
   technique="typestate extraction by abstract interpretation of every method from every reachable `_next` state, compared with the documented automaton",
   text="Extracts the complete transition relation of the eleven `_next` classes (and CCM's four length configurations) from the code and compares it transition by transition with the documented state diagram, including refusal with TypeError before any effect and no-unlock of digest/verify. Covers all call sequences at once (the automaton is finite). Output values along permitted sequences are not decided.",
   note="Documented automata are encoded in vstat/props/C10.py from Doc/src/cipher/modern.rst and the per-mode docstrings."),
}

CLAIMS["C13"] = dict(
   technique="exception-escape analysis over the resolved call graph with handler matching; intrinsic raisers from AST type inference (X2), DER index discipline (X3) and interval facts on len() guards computed by abstract interpretation (X4); DER/unpad strictness by abstract interpretation of the decoders on distinguishing encodings and by region enumeration",
   text="Decides that no exception class outside the documented set can escape any decoder entry point (DER objects, PEM, PKCS#8/PBES, unpad, RFC 1751, OpenSSH, RSA/DSA/ECC import_key) under an explicit exception model, and that the DER and padding decoders accept exactly the strict encodings of a distinguishing table. Totality and strictness are properties of the shape of the decoder code; round-trip identity on values is not decided.",
   note="Exception model = explicit raises along resolved calls inside the decoder layer + X2/X3/X4 intrinsic raisers; reviewed tables X4_REVIEWED/X4_EDGES in vstat/props/C13.py carry one reason per entry. Python may raise more than the model knows.")

CLAIMS["C05"] = dict(
   technique="guard conformance by abstract interpretation of construct()/generate()/import code on distinguishing component tuples and region representatives; closure extraction of RSA prime filters; must-pass-through for Montgomery validation",
   text="Decides that each invariant named in the property has a guard on every consistency-check path of RSA/DSA/ElGamal construct, DSA.generate and the ECC key/point/import code, with the exact comparator and ValueError: every tuple of a distinguishing table violates exactly one invariant, so deleting, weakening or overwriting one guard (e.g. a flag accumulation turned into an assignment) flips its verdict, while re-expressing it does not. Also the FIPS 186-4 B.3.3 prime filters of RSA.generate (including odd modulus sizes) and RFC 7748/8032 clamping. Primality testing and arithmetic are not decided.",
   note="Trusts the checker's own small-number arithmetic for the oracle predicates and the engine's operator models; primality of the small witnesses is computed by the checker's deterministic Miller-Rabin.")
CLAIMS["C11"] = dict(
   technique="guard normalisation by region enumeration on counter-block assembly and CCM length limits; piecewise mapping of native result codes to exceptions; counter-effect analysis of HPKE's sequence number on every exit",
   text="Decides the structural necessary conditions of 'no keystream block or nonce twice': the CTR/Counter set-up refuses nonces, initial values and layouts that do not fit, CCM's q-limit and cumulative declared-length accounting are enforced at every site, the counter-wrap code of the native CTR is mapped to OverflowError and no other native error is dropped, HPKE never reuses a sequence number. Distinctness of counter blocks inside the C increment code is not decided.",
   note="The numeric agreement of 0x60002 with the C macro ERR_CTR_REPEATED_KEY_STREAM is checked by the C-side engine where available.")
CLAIMS["C15"] = dict(
   technique="abstract interpretation of the HPKE key schedule with HKDF replaced by injective symbolic tokens (term comparison with RFC 9180), counter-effect analysis, guard normalisation by region enumeration",
   text="Decides that the terms computed by the key schedule, ExtractAndExpand, Encap/Decap context and per-message nonce are exactly the terms RFC 9180 defines (labels, suite ids, I2OSP framing, context order, lengths) for all 5 KEMs x 3 AEADs x 4 modes; that the sequence number advances by one per successful message, not on a rejected one, and never wraps; that VerifyPSKInputs and the set-up/role/length guards accept exactly the RFC's domain. HKDF/DH/AEAD internals are covered by C12/C06/C01.",
   note="Symbolic tokens are injective encodings built by the checker; the RFC terms are written out in vstat/props/C15.py.")

CLAIMS["C07"] = dict(
   technique="guard normalisation by region enumeration; piecewise observation rows for sentinel selection, EME block assembly and MGF1 with modelled callees",
   text="Decides the Python-visible necessary conditions: message-length limits at encryption, ciphertext length = k and integer < n at decryption, ValueError on an OAEP decode failure, the sentinel returned exactly when the native decoder reports failure (including non-bytes sentinels), the EME-PKCS1-v1_5 block built with non-zero PS of the right length, MGF1's counter/concatenation/truncation. The branch-free accept/reject logic of pkcs1_decode.c is not decided.",
   note="The native decoder's contract (result and output buffer) is taken from the comments of src/pkcs1_decode.c.")
CLAIMS["C08"] = dict(
   technique="abstract interpretation of __eq__ on object pairs differing in exactly one component/privacy/type; writer and reader rows compared with the checker's own DER/mpint encoder at encoding-boundary representatives",
   text="Decides that every key/point __eq__ returns a definite False (never raises) for a foreign type, different privacy or any single differing component and True for equal components; that the OpenSSH (RFC 4251 mpint sign byte for top bytes 7F/80/81/FF), PKCS#1, SPKI and RFC 5915 writers emit exactly the standard's structure at the boundary representatives (including scalars with leading zero bytes) and that the PKCS#1 reader returns the same components. Identity over all keys and protection schemes is not decided.",
   note="The DER/mpint oracle is vstat/spec/der.py, written from X.690/RFC 4251 independently of the repository.")

CLAIMS["C03"] = dict(
   technique="constant/parameter conformance read from class literals and from the FFI call events of an abstract interpretation; piecewise observation rows (HMAC key normalisation, CMAC sub-keys and last block, SP 800-185 encoders) against the checker's own references; tag-comparison data-flow and must-pass-through; guard normalisation",
   text="Decides the Python-visible necessary conditions: every hash module publishes the standard's digest size, block size and OID and passes the standard's capacity, round count and domain byte to the native sponge; HMAC's key preparation (including the exactly-one-block boundary), CMAC's sub-keys/Rb/last-block rule and the SP 800-185 string encoders compute the standard's values at the region representatives; every MAC verify() compares whole tags and raises ValueError; parameter domains are exact. Digest values (C code) are not decided here.",
   note="Reference encoders and the symbolic hash are written in the checker from RFC 2104, SP 800-38B and SP 800-185.")
CLAIMS["C12"] = dict(
   technique="abstract interpretation of the KDFs with PRF/HMAC/hash replaced by an injective symbolic function and comparison of the derived terms with the checker's own RFC 8018 / RFC 5869 / SP 800-108 references; guard normalisation by region enumeration; whole-value comparison data-flow for bcrypt_check",
   text="Decides that PBKDF2 (generic path), HKDF, SP 800-108 counter mode and PBKDF1 build exactly the terms their specifications define (counters, encodings, chaining, concatenation, truncation, consecutive multi-key slices) for output lengths around block boundaries, that HMAC's key preparation is RFC 2104's, and that every documented parameter domain (scrypt N a power of two below 2^32, p*r bound, bcrypt cost/salt/72-byte/NUL rules, HKDF 255*hLen) is enforced exactly. Native fast paths (PBKDF2 assist, ROMix, EKSBlowfish) are not decided.",
   note="The symbolic PRF is SHA-256 over a length-prefixed encoding computed by the checker; references in vstat/props/C12.py.")

CLAIMS["C18"] = dict(
   technique="abstract interpretation of the samplers with the entropy source replaced by boundary tapes, compared with a reference rejection sampler; interval extraction at consumer call sites; call-graph rule for randfunc propagation (P7)",
   text="Decides the shape of every sampler: for tapes at the region boundaries and every residue of bits mod 8, Integer.random/random_range, StrongRandom.getrandbits/randrange (including stepped ranges with a remainder) and the legacy number helpers return exactly what a masking/rejection sampler returns (exact acceptance interval, result = candidate + minimum, no modulo or truncation); each consumer (EC scalar, FIPS nonces, blinding factors) asks for the documented interval; a caller-supplied randfunc reaches every callee that accepts one (reviewed exceptions listed). Statistical quality of the OS source and loop termination are not decided.",
   note="Uniformity follows from the rejection-sampler shape given a uniform tape; the reference samplers are in vstat/props/C18.py.")

CLAIMS["C20"] = dict(
   technique="abstract interpretation of the field operations and of split()/combine() on boundary representatives with the random source replaced by a tape, compared with the checker's own GF(2)[x] arithmetic; irreducibility of the modulus decided by Rabin's test in the checker; syntactic effect rule",
   text="Decides that the modulus literal is the documented irreducible polynomial, that multiplication/inverse/power are reduced field operations at the reduction boundaries (including equal operands with the top bits set and index products of degree >= 128), that split() draws k-1 independent full-field coefficients, places the secret as constant term and evaluates at x = 1..n (both variants), that combine() interpolates over all supplied shares and refuses duplicates, and that no operator mutates an operand. Field laws and reconstruction for all values are not decided.",
   note="Oracle: vstat/spec/gf2.py (carry-less multiplication, polynomial reduction, Rabin irreducibility test, Lagrange interpolation).")

CLAIMS["C09"] = dict(
   technique="abstract interpretation of the Python block caches on a family of partitions with the native sink replaced by a recorder; event-order analysis of MAC vs cipher calls under output=; sibling agreement of the output= idiom; def-use rule for retained mutable inputs",
   text="Decides structurally that the Python-level caches (GCM, CCM, OCB payload and associated data, CMAC) hand the native layer whole blocks whose concatenation plus the cache equals the input for every partition of a representative family (including empty segments while bytes are pending), that every AEAD mode feeds its MAC from the right buffer on the right side of the cipher call so that an aliased output cannot corrupt the MAC input, that the output= contract is identical in all wrappers, and that caller-owned mutable data kept across calls is copied. The C-side alias order of the mode loops is the E-C part. Equality of results for every partition is not decided.",
   note="Partition family and expectations in vstat/props/C09.py; the per-mode table of which text is authenticated is from the mode specifications.")

CLAIMS["C02"] = dict(
   technique="constant/dispatch conformance by abstract interpretation of the numeric dispatch; guard normalisation by region enumeration; piecewise observation rows for formatting code with a normative value; def-use of exposed vs used nonce",
   text="Decides the Python-visible necessary conditions of interoperability: every cipher module's MODE_* numbers and the numeric dispatch agree with the documented table; key/nonce/IV/segment domains are exact (incl. 3DES degenerate keys up to parity); CCM's B0 and associated-data length header (at the 2^16-2^8 and 2^32 thresholds), GCM's J0/inc32/tag-mask counter blocks for every IV length class, SIV's counter mask are the standards' values; the default nonce lengths and the identity of exposed and used nonce. Cipher tables and the C mode loops are the E-C part. Ciphertext equality for all inputs is not decided.",
   note="Formatting references (SP 800-38C A.2, SP 800-38D 7.1, RFC 5297) are written in vstat/props/c02_extra.py.")

CLAIMS["C19"] = dict(
   technique="lock-region analysis of the shared curve registry (lexical `with lock` regions closed under the intra-class call graph); scan of all FFI call sites for class-/module-level buffers; copy-independence decided by abstract interpretation of every copy() (identity of native state, nested objects and mutable containers in the clone); syntactic effect rules for operators",
   text="Decides the structural reasons why distinct objects cannot interfere: the lazily initialised curve registry is read, loaded, updated and decorated only inside one re-entrant critical section; no buffer shared between objects is handed to native code (which runs without the GIL); every copy() yields a new object with its own native state (copied from self in the right direction, result checked), its own nested stateful objects and its own mutable containers; point operators work on copies. The C-side half (no writable statics, read-only contexts, per-object scratch, whole-state *_copy) is the E-C part. Concurrent use of one object is outside the property.",
   note="Reviewed exceptions are listed with a reason in vstat/props/c19_extra.py (CMAC._ecb and _cipher_params are only read).")

CLAIMS["C17"] = dict(
   technique="FFI contract rules over all Python call sites into the native libraries (status tested, size_t wrapping, output buffer length = length argument, raw-pointer lifetime); C rules over LLVM IR and the clang AST: error-discipline reference edges, guard conformance by region enumeration over the guard prefix of C functions, whole-array comparisons, whole-state copies, reviewed inclusive loop bounds",
   text="Decides structural necessary conditions of memory safety at the Python/C boundary and in the length checks that protect the decoders: no native status is dropped (Python or C side), output buffers have the length the native code is told, the OAEP/PKCS#1 decoders refuse exactly the lengths for which their index arithmetic would leave the buffers, raw pointers are not held across the release of their owner, multi-limb values are compared whole, loops over caller-sized objects use exclusive bounds. A whole-program bounds proof of the bignum/EC code is not in reach of this technique and is not claimed.",
   note="Reference edges for the C error discipline are frozen from the pinned tree's IR in vstat/spec/c_checked_calls.json (Engler-style: today's checked call sites are the reference); reviewed inclusive loops in vstat/props/c17_extra.py.")

CLAIMS["C06"] = dict(
   technique="guard conformance by abstract interpretation of the point constructors/decoders and DH entry points on distinguishing coordinates (region enumeration); curve-parameter conformance against the checker's own copies of the standards' constants and algebraic self-consistency (order, cofactor, generator on curve); C rules over the clang AST/IR for the ladder/scalar code (status propagation, whole-state copies, blinding buffers sized from the operand)",
   text="Decides the structural necessary conditions of correct, validated point arithmetic: every public entry that takes a point (construct, import, key agreement, EdDSA/ECDSA verify inputs) refuses coordinates outside the field, points off the curve, the point at infinity and low-order X25519/X448 inputs with ValueError before any scalar multiplication; the curve tables hold the standards' parameters and are self-consistent; scalar clamping and encodings follow RFC 7748/8032; native statuses are propagated. Equality of the native group law with the mathematical one is not decided.",
   note="Curve constants are re-derived/checked by the checker's own modular arithmetic in vstat/props/c06_extra.py.")
CLAIMS["C14"] = dict(
   technique="abstract interpretation (seeded constant propagation) of the Python code of the three Integer back-ends on one operand table, IntegerGMP over a stated model of the libgmp entry points and ctypes' c_ulong wrap-around, IntegerCustom over a model of monty_pow; results compared with the checker's number theory; sibling rules (all abstract operations implemented, range tests before c_ulong, common operand length for monty_pow); decisive-test analysis of test_probable_prime/generate_probable_prime",
   text="Decides, for about 3400 operand rows per back-end placed on both sides of every fast-path limit in the wrappers (16/32/64-bit, 65536-bit shifts, 2^106 / 2^1024 for square roots), that the Python layer of IntegerNative, IntegerGMP and IntegerCustom returns the exact value, result type and documented exception; that test_probable_prime answers PROBABLY_PRIME only if neither Miller-Rabin nor Lucas answered COMPOSITE and generate_probable_prime only returns a candidate that passed. The wrappers touch operands only through these comparisons, so the regions are finite; exactness of libgmp and of the C Montgomery code, and that MR/Lucas as coded are the mathematical tests, are not decided.",
   note="libgmp is outside the repository: vstat/gmpmodel.py states the documented semantics the wrapper relies on, function by function.")
CLAIMS["C16"] = dict(
   technique="sibling cross-checks: exported C entry points and IR prototypes of AES/AESNI and ghash_portable/ghash_clmul vs the Python cdef; abstract interpretation of the Python selection code over all (flag, availability, key length) configurations; key-length guard agreement by region enumeration on the C ASTs; AST rule that caller buffers are only touched with unaligned SIMD loads/stores; the three Integer back-ends interpreted on one operand table (value, result type, exception class) and compared with one reference",
   text="Decides the structural necessary conditions of 'the selected variant never changes the result': both AES libraries and both GHASH libraries export the same entry points with the same prototypes and accept the same key lengths; use_aesni/use_clmul and library availability change neither outcome kind nor exception class and a handle is released by the library that created it; the accelerated code makes no alignment assumption about caller buffers; every Integer back-end matches one reference row by row (so they agree with each other) for value, result type and exception class. Bit-for-bit equality of the AES round functions / GHASH multipliers and of libgmp's arithmetic is not decided.",
   note="One recorded finding: IntegerGMP refuses left shifts >= 65536 bits that the other back-ends compute (known_findings.json).")

# ---------------------------------------------------------------------------------------------------------------
# What the build added on top of the first claim texts (C evaluator tables, newer Python rules).  Kept as additions so
# that each claim still reads "decided slice ... not decided".
CEVAL = "abstract interpretation of the C translation units over clang's JSON AST (vstat/ceval.py: typed wrapping integers, bounds-checked byte memory, XOR-linear symbolic bytes, uninterpreted injective primitives)"
EXTRA = {
 "C01": ("; event-order rule for MAC vs cipher under output=; " + CEVAL + " for Poly1305 on limb-boundary tables",
         " Also decided: the native Poly1305 (src/poly1305.c) equals RFC 8439 on a table of accumulators/blocks at every limb and 2^130-5 boundary; OCB's pending associated data is authenticated; CMAC's last-block rule."),
 "C02": ("; " + CEVAL + ": raw_ctr/cfb/ofb/cbc/ecb.c compared as symbolic terms with SP 800-38A under an uninterpreted block cipher, chacha20.c on seek/encrypt histories, published vectors for the block primitives (K-kat)",
         " Also decided: the five native mode loops compute SP 800-38A for every key and data value on 1000+ (length, segment, counter layout, chunking) geometries and refuse partial blocks; chacha20.c releases exactly the RFC 8439 key stream of the caller's position on histories around the ends of the counter; AES/DES/3DES/CAST/Blowfish/ARC2/ARC4 reproduce their published vectors (this last part is a vector check, named K-kat, not a proof)."),
 "C03": ("; " + CEVAL + ": Keccak sponge bookkeeping (absorb/pad/squeeze, rate boundaries) and Merkle-Damgard padding/length counters/IVs with the permutation / compression function uninterpreted; KangarooTwelve tree bookkeeping rows",
         " Also decided: src/keccak.c pads, absorbs and squeezes at every rate boundary as FIPS 202 (permutation uninterpreted); MD5/SHA-1/SHA-2/RIPEMD-160 pad and count bits as their standards at the block boundaries, with IVs recomputed from the primes; KangarooTwelve's chunking/length_encode/domain bytes on both sides of the 8192-byte limit."),
 "C04": ("; DER signature reader/writer rows against the checker's encoder; PSS EM-length rows; " + CEVAL + " for the Ed25519/Ed448 point layer",
         " Also decided: DER-encoded (r, s) are written and read strictly at the sign-byte boundaries; the PSS emLen/salt inequalities of RFC 8017 9.1; ed25519.c / ed448.c point decoding and group law on the case table incl. torsion points."),
 "C06": ("; " + CEVAL + ": ec_ws.c (group-law case table for P-224/256/384/521, scalar dispatch incl. generator tables, blinded scalars), ed25519.c / ed448.c (field layer, addition/doubling/scalar on case tables incl. torsion points), curve25519.c / curve448.c (Montgomery ladders on all adjacent-bit patterns incl. low-order points) against the checker's affine group law / RFC 7748 ladder",
         " Also decided: on the enumerated case tables the native Weierstrass, Edwards and Montgomery code returns the mathematical result, including neutral-element, doubling, inverse, torsion and over-long-scalar cases."),
 "C07": ("; " + CEVAL + ": constant-time helpers on their whole byte domain, pkcs1_decode/oaep_decode on every single defect of an encoded message",
         " Also decided: the branch-free accept/reject logic of src/pkcs1_decode.c rejects every single-defect encoded message of RFC 8017 7.1.2/7.2.2 and accepts the well-formed ones, for several geometries; several simultaneous defects are not enumerated."),
 "C08": ("; fixed-width encoders and PEM/passphrase siblings", " Also decided: fixed-width public encodings (RFC 7748/8032, SEC 1) keep leading zero bytes; PEM line/padding rows; every import_key passes the passphrase encoded the same way."),
 "C09": ("; " + CEVAL + ": every chunking / in-place variant of the native mode loops, the Keccak sponge and the Merkle-Damgard buffers equals the one-shot result (SEG-c)",
         " Also decided (C side): for the five mode loops, keccak_absorb/squeeze and the MD update functions, every partition of the input of a representative family, in place or not, gives the one-shot result as symbolic terms."),
 "C10": ("; OCB segment rule; copy() keeps every typestate flag (T-copy, reviewed table); a failing verify() leaves the object in the state of a successful one; " + CEVAL + " for the keccak state machine",
         " Also decided: keccak.c refuses absorb after squeeze and copies whole states; copy() of SHAKE/cSHAKE/TupleHash/KMAC/K12 preserves the squeezing flag."),
 "C11": ("; " + CEVAL + ": counter block i = base + i mod 256^len for 700+ layouts with wrap refused (raw_ctr.c), chacha20.c counter carry / end of key stream / refused seeks",
         " Also decided (C side): the native CTR counter blocks are pairwise distinct up to the wrap, which is refused; ChaCha20 never releases key stream after its counter ran out until a successful seek, and seek() refuses positions outside the stream (Python and C)."),
 "C12": ("; " + CEVAL + ": the six native pbkdf2_hmac_assist loops = RFC 8018 F() with an uninterpreted hash",
         " Also decided: the native PBKDF2 fast paths (all six hash templates) build F() exactly, for every password/salt value; the EKSBlowfish key-length domain."),
 "C13": ("; OID/OpenSSH value tables; PBES2 structure rows", " Also decided: OID first-octet arithmetic, OpenSSH string/mpint readers and PBES2 parameter structures accept exactly the well-formed encodings of a value table."),
 "C14": ("; " + CEVAL + ": bignum.c on all small vectors, mont.c on boundary operands, modexp_utils.c windows and scatter/gather, monty_pow end to end on small moduli; Crypto.Util.number helpers on operands up to 2^521",
         " Also decided (C side): addition/subtraction/comparison/multiplication words of bignum.c on all vectors of 1..3 words over {0,1,2^64-1,...}, Montgomery multiplication/inversion on boundary operands for 7 moduli, the bit-window and scatter/gather helpers, and monty_pow against pow() on small moduli. Python side: _mult_modulo_bytes, ceil_div, size, inverse, long_to_bytes/bytes_to_long rows; Integer-typed operands."),
 "C16": ("", ""),
 "C17": ("; foreign-handle rule (a native handle only reaches the library that made it); buffer-request flags; " + CEVAL + " bounds-checks every load/store of the rows it interprets (guard rows of the mode loops, EC scratch/tables sized from the curve)",
         " Also decided: no point/key handle of one native library is passed to another; c_uint8_ptr/c_size_t usage flags; the interpreted C rows (modes, EC work space, generator tables) perform no out-of-bounds, use-after-free or uninitialised access."),
 "C18": ("; selection helpers", " Also decided: sample/shuffle/choice and the DSA private-key draw on boundary tapes."),
 "C19": ("; argument-mutation rule (no public entry writes through a caller's bytearray); " + CEVAL + ": keccak_copy and Edwards getters leave their source untouched",
         " Also decided: no entry point mutates a caller-supplied mutable buffer or Integer; native copy/getter routines do not write to their source object."),
}
for _pid, (_t, _x) in EXTRA.items():
    CLAIMS[_pid]["technique"] += _t
    CLAIMS[_pid]["text"] += _x

# statements of the first claim texts that the additions supersede
for _pid, _old, _new in (
    ("C07", " The branch-free accept/reject logic of pkcs1_decode.c is not decided.", ""),
    ("C12", " Native fast paths (PBKDF2 assist, ROMix, EKSBlowfish) are not decided.", " scrypt's ROMix and the EKSBlowfish rounds (native) are not decided."),
    ("C11", " Distinctness of counter blocks inside the C increment code is not decided.", ""),
    ("C06", " Equality of the native group law with the mathematical one is not decided.", " Equality of the native group law with the mathematical one outside the case tables (full-length scalars, windowed ladders as a whole) is not decided."),
    ("C03", " Digest values (C code) are not decided here.", " Digest values (compression functions, the Keccak permutation, BLAKE2, MD2/MD4) are not decided."),
    ("C02", " Cipher tables and the C mode loops are the E-C part.", ""),
    ("C09", " The C-side alias order of the mode loops is the E-C part.", ""),
    ("C19", " The C-side half (no writable statics, read-only contexts, per-object scratch, whole-state *_copy) is the E-C part.", " C side: no writable statics, whole-state *_copy."),
):
    assert _old in CLAIMS[_pid]["text"], (_pid, _old)
    CLAIMS[_pid]["text"] = CLAIMS[_pid]["text"].replace(_old, _new)

# third layer: complete small domains, stand-in compositions, more C tables
TOY = "interpretation over complete toy instances of the algebraic structure (a real curve over F_17, a subgroup of (Z/23)*, RSA moduli 11*23) and over stand-in primitives (fixed hash/MGF functions, a Feistel bijection) with byte-exact comparison against the standard"
EXTRA2 = {
 "C01": ("; raw_ocb.c over a concrete bijection and both GHASH implementations on a basis per hash key (C evaluator, CLMUL/SSE intrinsics modelled)",
         " Also decided on tables: the native OCB tag and plaintext (RFC 7253, all length classes, block counters up to 2^63) and GHASH in ghash_portable.c / ghash_clmul.c (zero block and all 128 one-bit blocks per key, chained messages, the 4-block path)."),
 "C02": ("; " + TOY + " for KW/KWP; raw_ocb.c, GHASH, Salsa20 and AES.c vs AESNI.c (AES-NI instructions modelled) on the C evaluator",
         " Also decided: AES key wrap and KWP byte for byte (RFC 3394 / 5649) for every length class with every unwrap check violated alone; Salsa20 key stream incl. counter carry; OCB and GHASH natively; AES.c and AESNI.c agree on every code path for all key sizes (table)."),
 "C03": ("; fresh-instance rule (h.new() builds the algorithm variant of h, compared through native construction calls); digest values of every native hash on the C evaluator against independent implementations (K-kat)",
         " Also decided: the object-level new() of 33 hash configurations keeps capacity, rate, prefix, truncation and oid; digest values of MD2/4/5, SHA-1/2, RIPEMD-160, SHA-3/SHAKE/TurboSHAKE/Keccak, BLAKE2b/s (keyed, every digest-size class) on a message table around the padding boundaries equal hashlib / the checker's own MD4 and Keccak-p."),
 "C04": ("; " + TOY + ": ECDSA/DSA sign and verify for every key, nonce, digest and (r, s) of the toy group, RSA primitives on every residue, RFC 6979 conversions, EMSA-PSS/EMSA-PKCS1-v1_5 byte for byte",
         " Also decided: EccKey/DsaKey _sign and _verify equal FIPS 186-4 on complete toy groups (including x(kG) >= n), every produced signature verifies, RsaKey._decrypt_to_bytes (CRT, blinding) equals c^d mod n on every residue; RFC 6979 bits2int/int2octets/bits2octets; EMSA encodings for every emBits residue with every single-byte modification refused. One recorded finding: sign() does not retry on r = 0 or s = 0."),
 "C06": ("; neutral-element predicate rows", " Also decided: is_point_at_infinity() is true for the neutral element only (Edwards: (0, 1), not the order-2 point)."),
 "C07": ("; " + TOY + ": EME-OAEP byte for byte and round trip, RSA primitives on complete toy moduli over the native and custom Integer back-ends",
         " Also decided: encrypt() hands exactly EM = 00 || maskedSeed || maskedDB of RFC 8017 7.1.1 to the primitive for every modulus size mod 8 and message length, decrypt() inverts it and refuses another label; the blinded CRT decryption equals c^d mod n on every residue of two toy moduli."),
 "C12": ("; bcrypt radix-64 / assembly / round-trip rows with the core uninterpreted; scryptROMix and Salsa20/8 on the C evaluator against RFC 7914",
         " Also decided: bcrypt's radix-64 codec on every length, the $2a$ string assembly, key preparation and bcrypt_check round trip; scrypt's (N, r, p) and PBKDF1's count domains refuse non-positive values; the native ROMix for several (r, N), in place and not."),
 "C13": ("; X6 (non-INTEGER SEQUENCE members used as numbers), calls through function-valued locals, KDF gate rows",
         " Also decided: no decoder reaches a key-derivation function (whose cost comes from the file) when no passphrase was given; members of a SEQUENCE decoded without only_ints_expected never reach arithmetic."),
 "C14": ("; primality tables: Miller-Rabin with injected bases, Lucas and the combined test on every candidate of a range and on the pseudoprime families (eagerly interpreted generators), legacy number.isPrime likewise",
         " Also decided: miller_rabin_test, lucas_test, test_probable_prime, number._rabinMillerTest and number.isPrime equal the checker's FIPS 186-4 C.3.1 / C.3.3 / trial division on every candidate 2..1300 and on Carmichael numbers, strong pseudoprimes and Lucas pseudoprimes."),
 "C16": ("; AES.c and AESNI.c interpreted side by side on the C evaluator with the AES-NI instructions modelled from the Intel SDM; both GHASH implementations against one reference",
         " Also decided (tables): AES.c and AESNI.c give the same bytes for all key sizes on every code path and reproduce FIPS 197; ghash_portable.c and ghash_clmul.c both equal SP 800-38D on a basis of blocks per key."),
 "C17": ("; OCB guard rows", ""),
 "C09": ("; raw_ocb.c in block-aligned pieces", " Also: the native OCB loop gives the one-shot result for block-aligned pieces."),
}
for _pid, (_t, _x) in EXTRA2.items():
    CLAIMS[_pid]["technique"] += _t
    CLAIMS[_pid]["text"] += _x
COMPOSE = "whole-construction composition (the real Python objects interpreted over stand-in primitives of the checker, bytes compared with the standard written independently)"
EXTRA3 = {
 "C01": ("; " + COMPOSE + " for EAX, SIV, CCM, GCM, OCB and (X)ChaCha20-Poly1305",
         " Also decided on tables: for every length class of message and header, nonce and tag length, one-shot and in pieces, the six AEAD constructions produce the ciphertext and tag of their standard, a receiver object accepts the genuine tuple and refuses every single-byte modification of ciphertext, tag or header and a truncated tag; CCM's header-length encoding at the 2^16 - 2^8 threshold."),
 "C02": ("; " + COMPOSE + " for the AEAD modes and OpenPGP-CFB; streaming-length rule on the clang AST (no 32-bit counter meets a size_t length in an exported streaming function)",
         " Also decided: OpenPGP CFB (RFC 4880 13.9) byte for byte; no exported native streaming function counts a caller-sized length in a narrower variable."),
 "C03": ("; streaming-length rule on the clang AST", " Also decided: no native hash update loop counts the caller's length in a variable narrower than size_t."),
 "C04": ("; RFC 6979 nonce generation incl. the retry branch over hashlib's HMAC; EdDSA sign/verify as a composition against RFC 8032; ec_ws_new_point validation rows on the C evaluator",
         " Also decided: _compute_nonce equals RFC 6979 3.2 for orders where zero, one and several candidates are out of range; Ed25519 / Ed25519ph / Ed25519ctx / Ed448 signatures equal RFC 8032 over stand-in points and every range / length variant of a signature is refused."),
 "C05": ("; ec_ws_new_point validation rows on the C evaluator", " Also decided: the native constructor refuses off-curve points and accepts exactly the encodings the Python layer relies on."),
 "C06": ("; operation sequences of the real EccPoint / EccXPoint classes over a complete toy native library (driver functions interpreted, every observation compared with the group law); Montgomery field layer incl. carry-chain operands and look-alike moduli on the C evaluator; generator-table coverage",
         " Also decided on the toy curve y^2 = x^3 - 3x + 8 over F_23: the Python point objects always show the current native value, in-place operators change exactly their left operand, copy(), set() and value operators give independent objects, comparison and the neutral element behave as the group law says (EccXPoint: the x-only analogue)."),
 "C08": ("; export -> import round trips through the real writers and readers (interpreted end to end) on boundary keys found by search; SEC 1 decoding on a complete toy curve; identifier tables against the standards",
         " Also decided: RSA and DSA keys whose components sit on encoding boundaries survive export and import in every unencrypted format with all components equal and the key unmodified; every point of a toy curve decodes to itself from compressed and uncompressed SEC 1 form; every algorithm identifier (RSA, DSA, PBES, hash -> HMAC one-to-one, 9 curves) is the assigned one."),
 "C09": ("; the AEAD compositions fed in pieces (rule SEG)", " Also: the AEAD compositions give the one-shot result when fed in pieces."),
 "C10": ("; CCM cumulative declared-length rows; KangarooTwelve squeezing life cycle on every branch (tree hashing included)",
         " Also decided: CCM's assoc_len / msg_len bound the cumulative input over all calls; after the first read() of a K12 object a further read() absorbs nothing and update() raises TypeError, for single-chunk, tree and long-customization inputs."),
 "C11": ("; value rows of the first CTR counter block (Counter.new + factory interpreted together) and of the counter width XChaCha20 hands to chacha20_init; Salsa20 counter carry on the C evaluator",
         " Also decided: the initial counter block is prefix || value on counter_len bytes in the declared byte order || suffix for widths 1..16; a 24-byte nonce reaches the native layer as a 12-byte nonce (32-bit block counter, overflow reported)."),
 "C12": ("; S2V update/derive histories over a stand-in CMAC; native hash padding and digests",
         " Also decided: _S2V.derive() is an observer (calling it again, or continuing with update(), gives S2V of the components so far)."),
 "C13": ("; DER writer rows incl. the length-form boundaries; PEM round trip with and without the legacy encryption over stand-in DES3 / hashlib MD5; X7 (dictionary look-ups keyed by decoded input), X3 for variable indexes",
         " Also decided: the DER writers produce X.690 DER at 127/128/255/256 content octets; PEM.decode(PEM.encode(x)) == x for lengths around the cipher block and the base64 line, a wrong passphrase never returns the data."),
 "C14": ("; look-alike moduli for the specialised Montgomery reductions; getStrongPrime interval rule",
         " Also decided: moduli that share length and leading or trailing words with P-256/P-384/P-521/Ed448 primes get generic arithmetic; getStrongPrime(N) draws from [sqrt(2) 2^(N-1), 2^N - 1]."),
 "C15": ("; unseal failure rows from every starting sequence number; ECDH neutral-element rule",
         " Also decided: a rejected message leaves the sequence number unchanged from sequence 0 as well."),
 "C16": ("; streaming-length rule on the clang AST; Jacobi symbol rows for a < -n", ""),
 "C17": ("; constructor/destructor pairing at every SmartPointer site (resolved through branch-local names, class attributes, imports; one library and one translation unit per feasible pair); lifetime of every c_uint8_ptr argument; bounds-checked native mode loops",
         " Also decided: every native handle is released by the destructor of the library and translation unit that created it on every path; no native call receives the address of a temporary that may be a bytearray."),
 "C18": ("; consumer intervals of ElGamal.generate and the RSA.generate prime filters", ""),
 "C19": ("; point-object independence over the toy native library (rule P6); class-level shared objects (rule P2)",
         " Also decided: copy(), set() and the value operators of EccPoint / EccXPoint never share a native cell; no per-object state (hash, cipher, native handle, written container) is created at class level outside the reviewed table."),
}
for _pid, (_t, _x) in EXTRA3.items():
    CLAIMS[_pid]["technique"] += _t
    CLAIMS[_pid]["text"] += _x
EXTRA4 = {
 "C01": ("; in-place, bytearray, associated-data-only and extra-cipher-parameter variants of the compositions", ""),
 "C02": ("; extra cipher parameters reach every underlying cipher instance (composition rows)", ""),
 "C03": ("; HMAC object histories over a functional stand-in hash; Poly1305-ChaCha20 key derivation rows; SHA-3 / SHAKE / cSHAKE / KMAC / TupleHash / TurboSHAKE / KangarooTwelve as whole Python stacks over an exact model of the native sponge",
         " Also decided: HMAC digest() is an observer and copies continue independently (histories against Python's hmac); the one-time Poly1305 key uses 00000000 || nonce for 64-bit nonces."),
 "C04": ("; EdDSA point decoding composition against RFC 8032; long-form length rows for DER signatures", ""),
 "C05": ("; RSA.construct from (n, e, d) on moduli that are not products of two primes; ElGamal.generate intervals", ""),
 "C06": ("; ec_ws_cmp pair rows; Edwards negation/compare on special points; ECDH with x = 0 of a finite point", ""),
 "C07": ("; label retention rule", ""),
 "C08": ("; ECC export/import round trips on P-256 and P-521 (real EccKey, writers, readers, decompression over a stand-in point class); PBES2 encrypt/decrypt and PKCS#8 wrap/unwrap round trips for every protection string over tagged KDFs and keyed stand-in ciphers; ec_ws_cmp pair rows on the C evaluator",
         " Also decided: every protection string the PBES2 writer offers is read back by the reader with the same derived key, and another passphrase never returns the data."),
 "C09": ("; retention rule treats memoryview slices as views", ""),
 "C10": ("; AEAD compositions as permitted-sequence rows (pieces, in place, declared zero lengths)", ""),
 "C11": ("; counter wrap with small pieces on the C evaluator", ""),
 "C12": ("; scrypt composition rows (RFC 7914 6), HKDF-Expand at 255*HashLen, bytearray arguments unchanged", ""),
 "C13": ("; X.509 shape rows, strict SEQUENCE member rows, PBES2 round trips incl. the empty plaintext", ""),
 "C14": ("; prime generation over scripted draw / verdict tapes", " Also decided: generate_probable_prime returns the first drawn candidate that passed, of exactly the requested size."),
 "C15": ("; decoder-length and point-constructor refusal rows; sender / receiver message histories over a keyed stand-in AEAD",
         " Also decided: for a history of five sealed messages the receiver opens them in order and refuses reordered, replayed, modified, truncated or extended messages and other associated data, staying able to open the next genuine message; nonces are base_nonce xor seq."),
 "C16": ("; result types in the Integer table; Montgomery tables of the custom-C back-end", ""),
 "C17": ("; prototype arity of every (point class, curve) pair against the C prototypes; strxor buffer-length rows; bounds-checked big-number rows on the C evaluator",
         " Also decided: every native call of the point layer has the argument count of the prototype bound by the object's curve, or the curve is refused before any native call."),
 "C18": ("; prime generation over scripted draw / verdict tapes", ""),
 "C19": ("; ownership-based read-only-operand rule on the C evaluator; shared curve / Montgomery contexts read-only after construction (clang AST with callee write analysis); container arguments never modified (rule P4)",
         " Also decided (necessary conditions for thread independence, not an interleaving analysis): native observers and read-only operands write nothing into the points they read; no function writes through a shared curve context after its construction; no public function modifies a list / dict argument."),
 "C20": ("; powers of degree exactly 128 before reduction; zero coefficients / zero secrets / draw counts in split tapes", ""),
}
for _pid, (_t, _x) in EXTRA4.items():
    CLAIMS[_pid]["technique"] += _t
    CLAIMS[_pid]["text"] += _x
EXTRA5 = {
 "C03": ("; BLAKE2 offset-counter carry rows on the C evaluator (states set just below 2^32 / 2^64 bytes)", ""),
 "C08": ("; EccKey.__eq__ interpreted on pairs over a stand-in point class carrying (curve, x, y)", ""),
 "C10": ("; ChaCha20 seek() as a labelled transition; structural rule: the state variable is written only by __init__ and the methods of the documented diagram", ""),
 "C11": ("; counter wrap with a suffix after the counter", ""),
 "C12": ("; the native EksBlowfishSetup on the C evaluator against an independent reference whose tables are computed as the digits of pi",
         " Also decided: P-array, S-boxes and ECB output of the bcrypt key schedule for key lengths 1..72 around the word boundaries, costs 0..1 (0..3 thorough), both loop orders."),
 "C13": ("; X6 follows a SEQUENCE member one call into same-module helpers (type test precedes numeric use)", ""),
 "C17": ("; bounds-checked row tables of every other native kernel (OCB, Keccak, MD padding, ChaCha20, Salsa20, Poly1305, GHASH, block ciphers, PKCS#1/OAEP decoders) with exactly sized buffers; EKSBlowfish length guards",
         " Also decided: an empty key or salt is refused by the bcrypt key schedule before any access (a repaired defect)."),
}
for _pid, (_t, _x) in EXTRA5.items():
    CLAIMS[_pid]["technique"] += _t
    CLAIMS[_pid]["text"] += _x
CLAIMS["C12"]["text"] = CLAIMS["C12"]["text"].replace(" scrypt's ROMix and the EKSBlowfish rounds (native) are not decided.", " EKSBlowfish outside its row table is not decided.")
CLAIMS["C16"]["text"] = CLAIMS["C16"]["text"].replace(" Bit-for-bit equality of the AES round functions / GHASH multipliers and of libgmp's arithmetic is not decided.", " Equality of the AES round functions / GHASH multipliers beyond the tables, and libgmp's arithmetic, are not decided.")
CLAIMS["C04"]["note"] += " Two recorded findings are in known_findings.json (status known): C04 sign() without retry on a zero component."

NOT_YET = {}

ALL = ["C%02d" % i for i in range(1, 21)]


def main():
    checks = []
    for pid in ALL:
        if pid not in CLAIMS:
            continue
        c = CLAIMS[pid]
        checks.append({
            "property_id": pid,
            "quick_cmd": "python3 -m vstat check %s --tier quick" % pid,
            "thorough_cmd": "python3 -m vstat check %s --tier thorough" % pid,
            "evidence_file": "evidence/%s.json" % pid,
            "replay_cmd_template": "python3 -m vstat replay {path}",
            "engine": "vstat",
            "technique": c["technique"],
            "level_claimed": {"category": "other", "text": c["text"],
                              "design_ref": "DESIGN.md section 5, " + pid},
            "level_note": c["note"],
        })
    na = []
    for pid in ALL:
        if pid not in CLAIMS:
            na.append({"property_id": pid,
                       "reason": NOT_YET.get(pid, "no static check registered yet in this round (see DESIGN.md section 5 for the planned structural slice)")})
    man = {
        "version": 1,
        "setup_cmd": "python3 -m compileall -q vstat >/dev/null 2>&1; true",
        "hooks": {"guard": "LEGRANDIN_PYCRYPTODOME_VERIF",
                  "enable": "none needed: static analysis reads /repo's sources, it does not instrument them",
                  "baseline_off_cmd": "cd /repo && /venv/bin/python -m pytest -ra -q -p no:cacheprovider --timeout=900 --continue-on-collection-errors",
                  "source_commits": [], "add_only": True},
        "engines": [{"name": "vstat", "path": "vstat/",
                     "serves_properties": sorted(CLAIMS),
                     "kind_free_text": "repository-specific static analyser: ast-based program database, seeded conditional constant propagation (abstract interpretation), typestate extraction, data-flow slices, clang AST/IR readers; pure stdlib + clang 14"}],
        "checks": checks,
        "not_applicable": na,
        "notes": "All checks are static: nothing under /repo is imported or executed. Exit 2 + ANALYSIS-ERROR means the analysis could not run (vanished anchor), never a violation.",
    }
    with open(os.path.join(VERIF, "MANIFEST.json"), "w") as f:
        json.dump(man, f, indent=1)
        f.write("\n")


if __name__ == "__main__":
    main()
