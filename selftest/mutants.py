"""Self-test corpus: single-site mutants the checkers must catch, and
behaviour-preserving twins they must ignore (see selftest/run.py)."""
import glob
import json
import os

MUTANTS = []


def M(id, prop, file, old, new, expect="", twin=False, tier="quick"):
    MUTANTS.append(dict(id=id, prop=prop, file=file, old=old, new=new,
                        expect=expect, twin=twin, tier=tier))


def M2(id, prop, edits, expect="", twin=False, tier="quick"):
    MUTANTS.append(dict(id=id, prop=prop, edits=edits, expect=expect,
                        twin=twin, tier=tier))


def seeded():
    """Seeded changes kept under /verif/seeded/<id>/ (patch.diff + meta.json)."""
    out = []
    base = os.path.join(os.path.dirname(os.path.dirname(os.path.abspath(__file__))), "seeded")
    for d in sorted(glob.glob(os.path.join(base, "*"))):
        meta = os.path.join(d, "meta.json")
        if not os.path.exists(meta):
            continue
        mj = json.load(open(meta))
        out.append(dict(id=os.path.basename(d), prop=mj.get("checks") or mj["property"],
                        patch=os.path.join(d, "patch.diff"),
                        expect=mj.get("expect", ""), tier=mj.get("tier", "quick")))
    return out


GCM = "lib/Crypto/Cipher/_mode_gcm.py"
CCM = "lib/Crypto/Cipher/_mode_ccm.py"
EAX = "lib/Crypto/Cipher/_mode_eax.py"
OCB = "lib/Crypto/Cipher/_mode_ocb.py"
SIV = "lib/Crypto/Cipher/_mode_siv.py"
CCP = "lib/Crypto/Cipher/ChaCha20_Poly1305.py"

# ---------------------------------------------------------------- C01
M("c01.gcm.verify.noraise", "C01", GCM,
  '''        if mac1.digest() != mac2.digest():
            raise ValueError("MAC check failed")

    def hexverify''', '''        if mac1.digest() != mac2.digest():
            pass

    def hexverify''', "V|_mode_gcm.GcmMode.verify")
M("c01.gcm.verify.prefix", "C01", GCM,
  "data=received_mac_tag)", "data=received_mac_tag[:self._mac_len])",
  "V|_mode_gcm.GcmMode.verify|received")
M("c01.gcm.verify.cmp4", "C01", GCM,
  "if mac1.digest() != mac2.digest():\n            raise ValueError(\"MAC check failed\")\n\n    def hexverify",
  "if mac1.digest()[:4] != mac2.digest()[:4]:\n            raise ValueError(\"MAC check failed\")\n\n    def hexverify",
  "V|_mode_gcm.GcmMode.verify")
M("c01.gcm.verify.otherkey", "C01", GCM,
  "mac2 = BLAKE2s.new(digest_bits=160, key=secret,\n                           data=received_mac_tag)",
  "mac2 = BLAKE2s.new(digest_bits=160, key=get_random_bytes(16),\n                           data=received_mac_tag)",
  "V|_mode_gcm.GcmMode.verify|symmetry")
M("c01.ccm.dav.noverify", "C01", CCM,
  "        plaintext = self.decrypt(ciphertext, output=output)\n        self.verify(received_mac_tag)\n",
  "        plaintext = self.decrypt(ciphertext, output=output)\n",
  "D|_mode_ccm.CcmMode.decrypt_and_verify")
M("c01.eax.dav.swallow", "C01", EAX,
  "        pt = self.decrypt(ciphertext, output=output)\n        self.verify(received_mac_tag)\n",
  "        pt = self.decrypt(ciphertext, output=output)\n        try:\n            self.verify(received_mac_tag)\n        except ValueError:\n            pass\n",
  "D|_mode_eax.EaxMode.decrypt_and_verify")
M("c01.ocb.maclen.32", "C01", OCB, "if not 8 <= mac_len <= 16:", "if not 8 <= mac_len <= 32:", "G|ocb.maclen")
M("c01.gcm.maclen.0", "C01", GCM, "if not (4 <= mac_len <= 16):", "if not (0 <= mac_len <= 16):", "G|gcm.maclen")
M("c01.verify.early.return", "C01", GCM,
  "        secret = get_random_bytes(16)\n\n        mac1 = BLAKE2s.new(digest_bits=160, key=secret,\n                           data=self._compute_mac())",
  "        if not received_mac_tag:\n            return\n        secret = get_random_bytes(16)\n\n        mac1 = BLAKE2s.new(digest_bits=160, key=secret,\n                           data=self._compute_mac())",
  "D|_mode_gcm.GcmMode.verify")
# twins
M("c01.twin.gcm.maclen.reexpr", "C01", GCM, "if not (4 <= mac_len <= 16):", "if mac_len < 4 or mac_len > 16:", twin=True)
M("c01.twin.ocb.nonce.reexpr", "C01", OCB, "if len(nonce) not in range(1, 16):", "if not (0 < len(nonce) <= 15):", twin=True)
M("c01.twin.verify.eq", "C01", GCM,
  "        if mac1.digest() != mac2.digest():\n            raise ValueError(\"MAC check failed\")\n\n    def hexverify",
  "        if mac1.digest() == mac2.digest():\n            return\n        raise ValueError(\"MAC check failed\")\n\n    def hexverify", twin=True)

# ---------------------------------------------------------------- C10
M("c10.gcm.digest.unlock", "C10", GCM, 'self._next = ["digest"]\n\n        return self._compute_mac()', 'self._next = ["digest", "encrypt"]\n\n        return self._compute_mac()', "T|_mode_gcm.GcmMode")
M("c10.gcm.encrypt.noguard", "C10", GCM,
  '        if "encrypt" not in self._next:\n            raise TypeError("encrypt() can only be called after"\n                            " initialization or an update()")\n',
  '', "T|_mode_gcm.GcmMode")
M("c10.ccm.guard.after.store", "C10", CCM,
  '        if "update" not in self._next:\n            raise TypeError("update() can only be called"\n                            " immediately after initialization")\n\n        self._next = ["update", "encrypt", "decrypt",\n                      "digest", "verify"]\n\n        self._cumul_assoc_len += len(assoc_data)',
  '        self._cumul_assoc_len += len(assoc_data)\n        if "update" not in self._next:\n            raise TypeError("update() can only be called"\n                            " immediately after initialization")\n\n        self._next = ["update", "encrypt", "decrypt",\n                      "digest", "verify"]\n',
  "T|_mode_ccm.CcmMode")
M("c10.siv.verify.valueerror", "C10", SIV,
  '        if "verify" not in self._next:\n            raise TypeError(', '        if "verify" not in self._next:\n            raise ValueError(', "T|_mode_siv.SivMode")
M("c10.cbc.decrypt.wrongname", "C10", "lib/Crypto/Cipher/_mode_cbc.py",
  'if "decrypt" not in self._next:', 'if "encrypt" not in self._next:', "T|_mode_cbc.CbcMode")
M("c10.ocb.encrypt.final", "C10", OCB,
  '        if plaintext is None:\n            self._next = ["digest"]', '        if plaintext is None:\n            self._next = ["digest", "encrypt"]', "T|_mode_ocb.OcbMode")
M("c10.twin.tuple", "C10", GCM, 'self._next = ["digest"]\n\n        return self._compute_mac()', 'self._next = ("digest",)\n\n        return self._compute_mac()', twin=True)
