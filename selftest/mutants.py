"""Self-test corpus: single-site mutants the checkers must catch, and
behaviour-preserving twins they must ignore (see selftest/run.py)."""
import glob
import json
import os

MUTANTS = []


def M(id, prop, file, old, new, expect="", twin=False, tier="quick"):
    MUTANTS.append(dict(id=id, prop=prop, file=file, old=old, new=new,
                        expect=expect, twin=twin, tier=tier))


def M2(id, prop, edits, expect="", twin=False, tier="quick"):
    MUTANTS.append(dict(id=id, prop=prop, edits=edits, expect=expect,
                        twin=twin, tier=tier))


def seeded():
    """Seeded changes kept under /verif/seeded/<id>/ (patch.diff + meta.json)."""
    out = []
    base = os.path.join(os.path.dirname(os.path.dirname(os.path.abspath(__file__))), "seeded")
    for d in sorted(glob.glob(os.path.join(base, "*"))):
        meta = os.path.join(d, "meta.json")
        if not os.path.exists(meta):
            continue
        mj = json.load(open(meta))
        if mj.get("obsolete"):
            continue
        out.append(dict(id=os.path.basename(d), prop=mj.get("checks") or mj["property"],
                        patch=os.path.join(d, "patch.diff"),
                        expect=mj.get("expect", ""), tier=mj.get("tier", "quick")))
    return out


GCM = "lib/Crypto/Cipher/_mode_gcm.py"
CCM = "lib/Crypto/Cipher/_mode_ccm.py"
EAX = "lib/Crypto/Cipher/_mode_eax.py"
OCB = "lib/Crypto/Cipher/_mode_ocb.py"
SIV = "lib/Crypto/Cipher/_mode_siv.py"
CCP = "lib/Crypto/Cipher/ChaCha20_Poly1305.py"

# ---------------------------------------------------------------- C01
M("c01.gcm.verify.noraise", "C01", GCM,
  '''        if mac1.digest() != mac2.digest():
            raise ValueError("MAC check failed")

    def hexverify''', '''        if mac1.digest() != mac2.digest():
            pass

    def hexverify''', "V|_mode_gcm.GcmMode.verify")
M("c01.gcm.verify.prefix", "C01", GCM,
  "data=received_mac_tag)", "data=received_mac_tag[:self._mac_len])",
  "V|_mode_gcm.GcmMode.verify|received")
M("c01.gcm.verify.cmp4", "C01", GCM,
  "if mac1.digest() != mac2.digest():\n            raise ValueError(\"MAC check failed\")\n\n    def hexverify",
  "if mac1.digest()[:4] != mac2.digest()[:4]:\n            raise ValueError(\"MAC check failed\")\n\n    def hexverify",
  "V|_mode_gcm.GcmMode.verify")
M("c01.gcm.verify.otherkey", "C01", GCM,
  "mac2 = BLAKE2s.new(digest_bits=160, key=secret,\n                           data=received_mac_tag)",
  "mac2 = BLAKE2s.new(digest_bits=160, key=get_random_bytes(16),\n                           data=received_mac_tag)",
  "V|_mode_gcm.GcmMode.verify|symmetry")
M("c01.ccm.dav.noverify", "C01", CCM,
  "        plaintext = self.decrypt(ciphertext, output=output)\n        self.verify(received_mac_tag)\n",
  "        plaintext = self.decrypt(ciphertext, output=output)\n",
  "D|_mode_ccm.CcmMode.decrypt_and_verify")
M("c01.eax.dav.swallow", "C01", EAX,
  "        pt = self.decrypt(ciphertext, output=output)\n        self.verify(received_mac_tag)\n",
  "        pt = self.decrypt(ciphertext, output=output)\n        try:\n            self.verify(received_mac_tag)\n        except ValueError:\n            pass\n",
  "D|_mode_eax.EaxMode.decrypt_and_verify")
M("c01.ocb.maclen.32", "C01", OCB, "if not 8 <= mac_len <= 16:", "if not 8 <= mac_len <= 32:", "G|ocb.maclen")
M("c01.gcm.maclen.0", "C01", GCM, "if not (4 <= mac_len <= 16):", "if not (0 <= mac_len <= 16):", "G|gcm.maclen")
M("c01.verify.early.return", "C01", GCM,
  "        secret = get_random_bytes(16)\n\n        mac1 = BLAKE2s.new(digest_bits=160, key=secret,\n                           data=self._compute_mac())",
  "        if not received_mac_tag:\n            return\n        secret = get_random_bytes(16)\n\n        mac1 = BLAKE2s.new(digest_bits=160, key=secret,\n                           data=self._compute_mac())",
  "D|_mode_gcm.GcmMode.verify")
# twins
M("c01.twin.gcm.maclen.reexpr", "C01", GCM, "if not (4 <= mac_len <= 16):", "if mac_len < 4 or mac_len > 16:", twin=True)
M("c01.twin.ocb.nonce.reexpr", "C01", OCB, "if len(nonce) not in range(1, 16):", "if not (0 < len(nonce) <= 15):", twin=True)
M("c01.twin.verify.eq", "C01", GCM,
  "        if mac1.digest() != mac2.digest():\n            raise ValueError(\"MAC check failed\")\n\n    def hexverify",
  "        if mac1.digest() == mac2.digest():\n            return\n        raise ValueError(\"MAC check failed\")\n\n    def hexverify", twin=True)

# ---------------------------------------------------------------- C10
M("c10.gcm.digest.unlock", "C10", GCM, 'self._next = ["digest"]\n\n        return self._compute_mac()', 'self._next = ["digest", "encrypt"]\n\n        return self._compute_mac()', "T|_mode_gcm.GcmMode")
M("c10.gcm.encrypt.noguard", "C10", GCM,
  '        if "encrypt" not in self._next:\n            raise TypeError("encrypt() can only be called after"\n                            " initialization or an update()")\n',
  '', "T|_mode_gcm.GcmMode")
M("c10.ccm.guard.after.store", "C10", CCM,
  '        if "update" not in self._next:\n            raise TypeError("update() can only be called"\n                            " immediately after initialization")\n\n        self._next = ["update", "encrypt", "decrypt",\n                      "digest", "verify"]\n\n        self._cumul_assoc_len += len(assoc_data)',
  '        self._cumul_assoc_len += len(assoc_data)\n        if "update" not in self._next:\n            raise TypeError("update() can only be called"\n                            " immediately after initialization")\n\n        self._next = ["update", "encrypt", "decrypt",\n                      "digest", "verify"]\n',
  "T|_mode_ccm.CcmMode")
M("c10.siv.verify.valueerror", "C10", SIV,
  '        if "verify" not in self._next:\n            raise TypeError(', '        if "verify" not in self._next:\n            raise ValueError(', "T|_mode_siv.SivMode")
M("c10.cbc.decrypt.wrongname", "C10", "lib/Crypto/Cipher/_mode_cbc.py",
  'if "decrypt" not in self._next:', 'if "encrypt" not in self._next:', "T|_mode_cbc.CbcMode")
M("c10.ocb.encrypt.final", "C10", OCB,
  '        if plaintext is None:\n            self._next = ["digest"]', '        if plaintext is None:\n            self._next = ["digest", "encrypt"]', "T|_mode_ocb.OcbMode")
M("c10.twin.tuple", "C10", GCM, 'self._next = ["digest"]\n\n        return self._compute_mac()', 'self._next = ("digest",)\n\n        return self._compute_mac()', twin=True)

# ---------------------------------------------------------------- C04
DSS = "lib/Crypto/Signature/DSS.py"
EDD = "lib/Crypto/Signature/eddsa.py"
PSS = "lib/Crypto/Signature/pss.py"
P15 = "lib/Crypto/Signature/pkcs1_15.py"
M("c04.dss.norange", "C04", DSS,
  '        if not (0 < r_prime < self._order) or not (0 < s_prime < self._order):\n            raise ValueError("The signature is not authentic (d)")\n', '', "G|dss.r")
M("c04.dss.r.zero", "C04", DSS, "if not (0 < r_prime < self._order)", "if not (0 <= r_prime < self._order)", "G|dss.r")
M("c04.dss.s.le", "C04", DSS, "not (0 < s_prime < self._order):", "not (0 < s_prime <= self._order):", "G|dss.s")
M("c04.dss.andor", "C04", DSS, "if not (0 < r_prime < self._order) or not (0 < s_prime < self._order):",
  "if not ((0 < r_prime < self._order) or (0 < s_prime < self._order)):", "G|dss")
M("c04.ed448.S.revert", "C04", EDD, "        if s >= self._order:\n            raise ValueError(\"The signature is not authentic (S)\")\n        # Step 2\n        k_hash = SHAKE256",
  "        if s > self._order:\n            raise ValueError(\"The signature is not authentic (S)\")\n        # Step 2\n        k_hash = SHAKE256", "G|ed448.S")
M("c04.ed25519.noeq", "C04", EDD, "        point2 = 8 * R + k * 8 * self._key.pointQ\n        if point1 != point2:\n            raise ValueError(\"The signature is not authentic\")\n\n    def _verify_ed448",
  "        point2 = 8 * R + k * 8 * self._key.pointQ\n\n    def _verify_ed448", "D|eddsa")
M("c04.dss.strict", "C04", DSS, "decode(signature, strict=True)", "decode(signature, strict=False)", "K|dss.der.strict")
M("c04.dss.der.count", "C04", DSS, "if len(der_seq) != 2 or", "if len(der_seq) < 2 or", "G|dss.der.count")
M("c04.pss.bc", "C04", PSS, "    if ord(em[-1:]) != 0xBC:\n        raise ValueError(\"Incorrect signature\")\n", "", "G|pss.decode")
M("c04.pss.lmask", "C04", PSS, "    if lmask & bord(em[0]):\n        raise ValueError(\"Incorrect signature\")\n", "", "G|pss.decode")
M("c04.pss.len", "C04", PSS, "        if len(signature) != k:\n            raise ValueError(\"Incorrect signature\")", "        if len(signature) > k:\n            raise ValueError(\"Incorrect signature\")", "G|pss.len")
M("c04.p15.len", "C04", P15, "        if len(signature) != k:", "        if len(signature) > k:", "G|p115.len")
M("c04.p15.prefix", "C04", P15, "if em1 not in possible_em1:", "if em1[2:] not in [x[2:] for x in possible_em1]:", "D|pkcs1_15.verify.final", )
M("c04.ed448.consume", "C04", EDD, "PHM = msg_or_hash.copy().read(64) if ph else msg_or_hash\n\n        # See RFC 8032, section 5.2.6", "PHM = msg_or_hash.read(64) if ph else msg_or_hash\n\n        # See RFC 8032, section 5.2.6", "P5|")
M("c04.det.random", "C04", DSS, "        mask_v = b'\\x01' * mhash.digest_size", "        mask_v = get_random_bytes(1) * mhash.digest_size", "P8|")
M("c04.rsa.range", "C04", "lib/Crypto/PublicKey/RSA.py", "if not 0 <= plaintext < self._n:", "if not 0 <= plaintext <= self._n:", "G|rsa.range")
M("c04.ed.context", "C04", EDD, "elif len(context) > 255:", "elif len(context) > 256:", "G|ed.context")
M("c04.pss.saltlen.store", "C04", PSS, "        if self._saltLen is None:\n            sLen = msg_hash.digest_size\n        else:\n            sLen = self._saltLen\n\n        if self._mgfunc is None:",
  "        if self._saltLen is None:\n            self._saltLen = msg_hash.digest_size\n        sLen = self._saltLen\n\n        if self._mgfunc is None:", "P4|")
M("c04.twin.dss.range", "C04", DSS, "if not (0 < r_prime < self._order) or not (0 < s_prime < self._order):",
  "if r_prime <= 0 or r_prime >= self._order or s_prime < 1 or s_prime > self._order - 1:", twin=True)
M("c04.twin.pss.trailer", "C04", PSS, "if ord(em[-1:]) != 0xBC:", "if em[-1:] != b'\\xbc':", twin=True)

# ---------------------------------------------------------------- C13
ASN1 = "lib/Crypto/Util/asn1.py"
PBES = "lib/Crypto/IO/_PBES.py"
M("c13.asn1.0x80.revert", "C13", ASN1, "                    if len(encoded_length) == 0:\n                        raise ValueError(\"Invalid DER: indefinite length is not supported\")\n", "", "X|asn1")
M("c13.pbes1.nr.revert", "C13", PBES, "enc_private_key_info = DerSequence().decode(data, nr_elements=2)\n        encrypted_algorithm", "enc_private_key_info = DerSequence().decode(data)\n        encrypted_algorithm", "X|")
M("c13.pbes2.msg.revert", "C13", PBES, '"Unsupported PBES2 cipher " + enc_oid', '"Unsupported PBES2 cipher " + enc_algo', "X2|")
M("c13.ecc.ssh.revert", "C13", "lib/Crypto/PublicKey/ECC.py", 'raise ValueError("Error parsing SSH key type: " + tostr(parts[0]))', 'raise ValueError("Error parsing SSH key type: " + parts[0])', "X2|")
M("c13.dsa.ssh.revert", "C13", "lib/Crypto/PublicKey/DSA.py", 'if len(keyparts) >= 5 and keyparts[0] == b"ssh-dss":', 'if keyparts[0] == b"ssh-dss":', "X|DSA.import_key|IndexError")
M("c13.ecc.cascade.narrow", "C13", "lib/Crypto/PublicKey/ECC.py",
  "    try:\n        return _import_subjectPublicKeyInfo(encoded, passphrase)\n    except UnsupportedEccFeature as err:\n        raise err\n    except (ValueError, TypeError, IndexError):",
  "    try:\n        return _import_subjectPublicKeyInfo(encoded, passphrase)\n    except UnsupportedEccFeature as err:\n        raise err\n    except (ValueError, TypeError):", "X|ECC.import_key|IndexError")
M("c13.pkcs8.raise.keyerror", "C13", "lib/Crypto/IO/PKCS8.py", 'raise ValueError("Not a valid PrivateKeyInfo SEQUENCE")\n    elif pk_info[0] == 1:', 'raise KeyError("Not a valid PrivateKeyInfo SEQUENCE")\n    elif pk_info[0] == 1:', "X|PKCS8.unwrap|KeyError")
M("c13.kdfgate.openssh.revert", "C13", "lib/Crypto/PublicKey/_openssh.py",
  '        if password is None:\n            raise ValueError("OpenSSH private key is encrypted, but no passphrase available")\n\n', "", "G|kdf-gate|_openssh")
M("c13.kdfgate.pem", "C13", "lib/Crypto/IO/PEM.py",
  '        if not passphrase:\n            raise ValueError("PEM is encrypted, but no passphrase available")\n', "", "G|kdf-gate|PEM.decode")
M("c13.kdfgate.pkcs8", "C13", "lib/Crypto/IO/PKCS8.py", "    if passphrase is not None:\n        passphrase = tobytes(passphrase)\n",
  "    if True:\n        passphrase = tobytes(passphrase or b'')\n", "G|kdf-gate|PKCS8.unwrap")
M("c13.dsa.spki.ints.revert", "C13", "lib/Crypto/PublicKey/DSA.py",
  "    p, q, g = list(DerSequence().decode(params or emb_params,\n                                        nr_elements=3,\n                                        only_ints_expected=True))\n",
  "    p, q, g = list(DerSequence().decode(params or emb_params))\n", "X|DSA.import_key|TypeError@_import_subjectPublicKeyInfo")
M("c13.rsa.cascade.keyerror", "C13", "lib/Crypto/PublicKey/RSA.py", 'raise ValueError("No PKCS#8 encoded RSA key")', 'raise KeyError("No PKCS#8 encoded RSA key")', "X|RSA.import_key|KeyError")
M("c13.twin.dsa.spki.ints", "C13", "lib/Crypto/PublicKey/DSA.py",
  "    p, q, g = list(DerSequence().decode(params or emb_params,\n                                        nr_elements=3,\n                                        only_ints_expected=True))\n",
  "    dss = DerSequence().decode(params or emb_params, only_ints_expected=True, nr_elements=3)\n    p, q, g = dss[0], dss[1], dss[2]\n", twin=True)
M("c13.der.writer.len128", "C13", ASN1, "                if length > 127:\n                        encoding = long_to_bytes(length)", "                if length > 128:\n                        encoding = long_to_bytes(length)", "K|der.writers")
M("c13.twin.asn1.guard", "C13", ASN1, "                    if len(encoded_length) == 0:\n", "                    if not encoded_length:\n", twin=True)

# ---------------------------------------------------------------- C04 toy groups
ECCPY = "lib/Crypto/PublicKey/ECC.py"
DSAPY = "lib/Crypto/PublicKey/DSA.py"
M("c04.toy.ecdsa.verify.reduce.revert", "C04", ECCPY, "return (point1 + point2).x % order == rs[0]", "return (point1 + point2).x == rs[0]", "K-pw|ecdsa.toy")
M("c04.toy.ecdsa.sign.blind", "C04", ECCPY, "s = inv_blind_k * (blind * z + blind_d * r) % order", "s = inv_blind_k * (blind * z + self._d * r) % order", "K-pw|ecdsa.toy.sign")
M("c04.toy.ecdsa.verify.u2", "C04", ECCPY, "point2 = self.pointQ * ((sinv * rs[0]) % order)", "point2 = self.pointQ * ((sinv * rs[1]) % order)", "K-pw|ecdsa.toy")
M("c04.toy.dsa.verify.modq", "C04", DSAPY, "v = (pow(g, u1, p) * pow(y, u2, p) % p) % q", "v = (pow(g, u1, p) * pow(y, u2, p) % q) % p", "K-pw|dsa.toy")
M("c04.toy.dsa.sign.r", "C04", DSAPY, "r = pow(g, k, p) % q  # r = (g**k mod p) mod q", "r = pow(g, k, q) % p", "K-pw|dsa.toy.sign")
M("c04.twin.toy.ecdsa.verify", "C04", ECCPY, "return (point1 + point2).x % order == rs[0]", "v = (point2 + point1).x % order\n        return v == rs[0]", twin=True)

M("c02.salsa.rot", "C02", "src/Salsa20.c", "        x8  = XOR( x8, ROTL32( x4 +  x0,  9));", "        x8  = XOR( x8, ROTL32( x4 +  x0,  8));", "K-pw|c|salsa.stream")
M("c02.salsa.carry", "C02", "src/Salsa20.c", "    if (!input[8]) {\n        input[9] = input[9] + 1;", "    if (!input[8]) {\n        input[9] = input[9] + 0;", "K-pw|c|salsa.stream")
M("c12.scrypt.integerify", "C12", "src/scrypt.c", "        index = LOAD_U32_LITTLE(&x[two_r - 1][0]) & (N - 1);", "        index = LOAD_U32_LITTLE(&x[two_r - 2][0]) & (N - 1);", "K-pw|c|salsa.scrypt")
M("c12.scrypt.blockmix.shuffle", "C12", "src/scrypt.c", "        y = &out[(i/2) + (i & 1)*r];", "        y = &out[i];", "K-pw|c|salsa.scrypt")
M("c12.scrypt.p.revert", "C12", "lib/Crypto/Protocol/KDF.py", "    if r < 1 or p < 1:\n        raise ValueError(\"r and p must be positive\")\n", "", "G|scrypt.")
M("c12.pbkdf1.count.revert", "C12", "lib/Crypto/Protocol/KDF.py", "    if count < 1:\n        raise ValueError(\"The iteration count must be positive\")\n", "", "G|pbkdf1.count")
M("c02.length.salsa.revert", "C02", "src/Salsa20.c", "                           uint8_t out[], size_t len)\n{\n    size_t i;", "                           uint8_t out[], size_t len)\n{\n    unsigned i;", "M|c|length|Salsa20.c")
M("c16.length.ghash.revert", "C16", "src/ghash_portable.c", "{\n    size_t i;\n    const t_v_tables *v_tables;", "{\n    unsigned i;\n    const t_v_tables *v_tables;", "M|c|length|ghash_portable.c")
M("c03.length.md5.counter", "C03", "src/MD5.c", "        hs->curlen += btc;\n        len -= btc;", "        hs->curlen += btc;\n        len -= btc;\n        hs->curlen += (unsigned)(len >> 40);", "M|c|length|MD5.c")
M("c03.twin.length.ripemd", "C03", "src/RIPEMD160.c", "        hs->bufpos += (unsigned)len;", "        hs->bufpos = hs->bufpos + (unsigned)len;", twin=True)
SHA2T = "src/hash_SHA2_template.c"
M("c03.digest.sha256.k63", "C03", SHA2T, "0x84c87814, 0x8cc70208,", "0x84c87814, 0x8cc70209,", "K-kat|c|digest.md")
M("c03.digest.sha512.sigma", "C03", SHA2T, "#define sigma_1_512(x)    (ROTR64(19,x) ^ ROTR64(61,x) ^ SHR(6,x))", "#define sigma_1_512(x)    (ROTR64(19,x) ^ ROTR64(61,x) ^ SHR(7,x))", "K-kat|c|digest.md")
M("c03.digest.sha512.klast", "C03", SHA2T, "0x6c44198c4a475817ULL", "0x6c44198c4a475816ULL", "K-kat|c|digest.md")
M("c03.digest.sha1.kz", "C03", "src/SHA1.c", "#define Kz  0x8f1bbcdc", "#define Kz  0x8f1bbcdd", "K-kat|c|digest.md")
M("c03.digest.blake2s.r4", "C03", "src/blake2s.c", "#define G_R4 7", "#define G_R4 8", "K-kat|c|digest.blake2")
M("c03.digest.blake2.final", "C03", "src/blake2.c", "    if (bt == FINAL_BLOCK)", "    if (bt != FINAL_BLOCK)", "K-kat|c|digest.blake2")
M("c03.digest.keccak.rot", "C03", "src/keccak.c", "        d   = c4 ^ ROL64(c1, 1);", "        d   = c4 ^ ROL64(c1, 2);", "K-kat|c|digest.keccak")
M("c03.digest.ripemd.k", "C03", "src/RIPEMD160.c", "0x50A28BE6u", "0x50A28BE7u", "K-kat|c|digest.md")
AESNIC = "src/AESNI.c"
M("c16.aesni.rcon9", "C16", AESNIC, "    case 9:  y = _mm_aeskeygenassist_si128(x, 0x1b); break;", "    case 9:  y = _mm_aeskeygenassist_si128(x, 0x1c); break;", "|c|aes.")
M("c16.aesni.lane5", "C16", AESNIC, "            data[5] = _mm_aesenc_si128(data[5], r[j]);\n            data[6] = _mm_aesenc_si128(data[6], r[j]);\n            data[7] = _mm_aesenc_si128(data[7], r[j]);\n        }\n    \n        for (; j<rounds; j++) {",
  "            data[5] = _mm_aesenc_si128(data[4], r[j]);\n            data[6] = _mm_aesenc_si128(data[6], r[j]);\n            data[7] = _mm_aesenc_si128(data[7], r[j]);\n        }\n    \n        for (; j<rounds; j++) {", "K-pw|c|aes.siblings")
M("c02.aesni.aes256.subword", "C02", AESNIC, "            if ((i % Nk == 4) && (Nk == 8)) {  /* AES-256 only */", "            if ((i % Nk == 4) && (Nk >= 6)) {  /* AES-256 only */", "|c|aes.")
M("c16.aesni.imc", "C16", AESNIC, "        *drk++ = _mm_aesimc_si128(*erk--);", "        *drk++ = *erk--;", "|c|aes.")
GHP, GHC = "src/ghash_portable.c", "src/ghash_clmul.c"
M("c01.ghash.portable.poly", "C01", GHP, "0xE100000000000000ULL", "0xE000000000000000ULL", "K-pw|c|ghash.portable")
M("c16.ghash.portable.shift", "C16", GHP, "(*next)[1] = (*cur)[1]>>1 | (*cur)[0]<<63;", "(*next)[1] = (*cur)[1]>>1 | (*cur)[0]<<62;", "K-pw|c|ghash.portable")
M("c16.ghash.clmul.reduce.const", "C16", GHC, "const uint64_t c2 = (uint64_t)0xc2 << 56;", "const uint64_t c2 = (uint64_t)0xc3 << 56;", "K-pw|c|ghash.clmul")
M("c02.ghash.clmul.aggregate", "C02", GHC, "        clmult(&r1, &r2, xm2, expanded->h[2]);", "        clmult(&r1, &r2, xm2, expanded->h[1]);", "K-pw|c|ghash.clmul")
M("c01.ghash.clmul.multx", "C01", GHC, "    r = (msb ^ 1) - 1;", "    r = msb - 1;", "K-pw|c|ghash.clmul")
M("c16.ghash.clmul.len16", "C16", GHC, "    len16 = len ^ (len & 0x3F);", "    len16 = len ^ (len & 0x1F);", "K-pw|c|ghash.clmul")
M("c16.twin.ghash.clmul.cross", "C16", GHC, "    e = _mm_clmulepi64_si128(a, b, 0x10);   /* A0*B1 */\n    f = _mm_clmulepi64_si128(a, b, 0x01);   /* A1*B0 */", "    e = _mm_clmulepi64_si128(a, b, 0x01);\n    f = _mm_clmulepi64_si128(a, b, 0x10);", twin=True)
M("c08.rt.rsa.pkcs1.order", "C08", "lib/Crypto/PublicKey/RSA.py", "    return construct(der[1:6] + [Integer(der[4]).inverse(der[5])])", "    return construct(der[1:4] + [der[5], der[4]] + [Integer(der[4]).inverse(der[5])])", "K-pw|roundtrip.rsa")
M("c08.rt.dsa.pkcs8.x", "C08", "lib/Crypto/PublicKey/DSA.py", "    tup = (pow(g, x, p), g, p, q, x)", "    tup = (pow(g, x, p), g, p, q, x % (q >> 1))", "K-pw|roundtrip.dsa")
CIPH = "lib/Crypto/Cipher/"
M("c01.aead.eax.omac2", "C01", CIPH + "_mode_eax.py", "            for i in range(3):\n                tag = strxor(tag, self._omac[i].digest())\n            self._mac_tag = tag[:self._mac_len]\n\n        return self._mac_tag", "            for i in range(2):\n                tag = strxor(tag, self._omac[i].digest())\n            self._mac_tag = tag[:self._mac_len]\n\n        return self._mac_tag", "K-pw|aead.eax")
M("c02.aead.gcm.lens", "C02", CIPH + "_mode_gcm.py", "        self._update(long_to_bytes(8 * self._auth_len, 8))\n        self._update(long_to_bytes(8 * self._msg_len, 8))", "        self._update(long_to_bytes(8 * self._msg_len, 8))\n        self._update(long_to_bytes(8 * self._auth_len, 8))", "K-pw|aead.gcm")
M("c01.aead.siv.nonce.order", "C01", CIPH + "_mode_siv.py", "            self._kdf.update(self.nonce)\n        self._kdf.update(plaintext)", "            pass\n        self._kdf.update(plaintext)\n        if hasattr(self, 'nonce'):\n            self._kdf.update(self.nonce)", "K-pw|aead.siv")
M("c02.aead.ccm.s0", "C02", CIPH + "_mode_ccm.py", "        self._s_0 = self._cipher.encrypt(b'\\x00' * 16)", "        self._s_0 = self._cipher.encrypt(b'\\x00' * 16)\n        self._cipher.encrypt(b'\\x00' * 16)", "K-pw|aead.ccm")
M("c09.aead.gcm.cache", "C09", CIPH + "_mode_gcm.py", "        self._msg_len += len(plaintext)", "        self._msg_len = len(plaintext)", "SEG|aead.gcm")
M("c02.aead.ocb.bottom", "C02", CIPH + "_mode_ocb.py", "(64 - bottom_bits), 24)[8:]", "(63 - bottom_bits), 24)[8:]", "K-pw|aead.ocb")
M("c01.aead.ocb.pendingA", "C01", CIPH + "_mode_ocb.py", "        if self._cache_A:\n            self._update(self._cache_A, len(self._cache_A))\n            self._cache_A = b\"\"\n", "", "K-pw|aead.ocb")
M("c09.aead.ocb.cacheP", "C09", CIPH + "_mode_ocb.py", "        self._cache_P = _copy_bytes(trans_len, None, in_data)\n", "        self._cache_P = _copy_bytes(trans_len + 1, None, in_data) if trans_len == 32 else _copy_bytes(trans_len, None, in_data)\n", "SEG|aead.ocb")
M("c02.openpgp.resync", "C02", CIPH + "_mode_openpgp.py", "                            IV=self._encrypted_IV[-self.block_size:],", "                            IV=self._encrypted_IV[:self.block_size],", "K-pw|openpgp.cfb")
M("c02.openpgp.repeat", "C02", CIPH + "_mode_openpgp.py", "            self._encrypted_IV = IV_cipher.encrypt(iv + iv[-2:])", "            self._encrypted_IV = IV_cipher.encrypt(iv + iv[:2])", "K-pw|openpgp.cfb")
CCP = CIPH + "ChaCha20_Poly1305.py"
M("c01.aead.chachapoly.lens", "C01", CCP, "        self._authenticator.update(long_to_bytes(self._len_aad, 8)[::-1])\n        self._authenticator.update(long_to_bytes(self._len_ct, 8)[::-1])", "        self._authenticator.update(long_to_bytes(self._len_aad, 8))\n        self._authenticator.update(long_to_bytes(self._len_ct, 8))", "K-pw|aead.chachapoly")
M("c02.aead.chachapoly.counter", "C02", CCP, "        self._cipher.seek(64)   # Block counter starts at 1", "        self._cipher.seek(0)", "K-pw|aead.chachapoly")
M("c01.aead.xchacha.nonce", "C01", CCP, "        chacha20_poly1305_nonce = b'\\x00\\x00\\x00\\x00' + nonce[16:]", "        chacha20_poly1305_nonce = nonce[12:]", "K-pw|aead.chachapoly")
M("c09.aead.chachapoly.padct", "C09", CCP, "        if self._len_ct & 0x0F:\n            self._authenticator.update(b'\\x00' * (16 - (self._len_ct & 0x0F)))", "        if self._len_ct & 0x0F:\n            self._authenticator.update(b'\\x00' * (16 - (self._len_ct & 0x07)))", "|aead.chachapoly")
OCBC = "src/raw_ocb.c"
M("c02.ocb.double.const", "C02", OCBC, "(carry & 0x87)", "(carry & 0x86)", "K-pw|c|ocb.crypt")
M("c01.ocb.checksum.pad", "C01", OCBC, "        state->checksum[in_len] ^= 0x80;", "        state->checksum[in_len] |= 0x80;", "K-pw|c|ocb.crypt")
M("c01.ocb.aad.pad", "C01", OCBC, "        pt[in_len] = 0x80;", "        pt[in_len] = 0x01;", "K-pw|c|ocb.crypt")
M("c02.ocb.ntz.width", "C02", OCBC, "static unsigned ntz(uint64_t counter)", "static unsigned ntz(uint32_t counter)", "K-pw|c|ocb.crypt")
M("c01.ocb.dec.checksum", "C01", OCBC, "    checksummed = OCB_ENCRYPT==direction ? in : out;", "    checksummed = in;", "K-pw|c|ocb.crypt")
M("c09.ocb.partial.offset", "C09", OCBC, "            state->offset_P[i] ^= state->L_star[i];\n\n        result = state->cipher->encrypt(state->cipher, state->offset_P, pad, BLOCK_SIZE);", "            state->offset_P[i] ^= state->L_dollar[i];\n\n        result = state->cipher->encrypt(state->cipher, state->offset_P, pad, BLOCK_SIZE);", "SEG-c|c|ocb.crypt")
M("c17.ocb.tagsize", "C17", OCBC, "    if (BLOCK_SIZE != tag_len)\n        return ERR_TAG_SIZE;", "    if (BLOCK_SIZE < tag_len)\n        return ERR_TAG_SIZE;", "G-c|c|ocb.guards")
KWPY, KWPPY = "lib/Crypto/Cipher/_mode_kw.py", "lib/Crypto/Cipher/_mode_kwp.py"
M("c02.kw.steps", "C02", KWPY, "    s = 6 * (n - 1)\n    A = S[0]", "    s = 6 * n\n    A = S[0]", "K-pw|kw")
M("c02.kw.t.endian", "C02", KWPY, "        t_64 = struct.pack('>Q', t)\n        ct = cipher.encrypt", "        t_64 = struct.pack('<Q', t)\n        ct = cipher.encrypt", "K-pw|kw")
M("c02.kw.icv.partial", "C02", KWPY, "        if pt[:8] != b'\\xA6\\xA6\\xA6\\xA6\\xA6\\xA6\\xA6\\xA6':", "        if pt[:4] != b'\\xA6\\xA6\\xA6\\xA6':", "K-pw|kw.bytes")
M("c02.kwp.padcheck.drop", "C02", KWPPY, "        if S[len(S) - padlen:] != b'\\x00' * padlen:\n            raise ValueError(\"Incorrect decryption\")\n", "", "K-pw|kwp.bytes")
M("c02.kwp.padlen.range", "C02", KWPPY, "        if padlen < 0 or padlen > 7:", "        if padlen < 0 or padlen > 8:", "K-pw|kwp.bytes")
M("c02.kwp.mli.endian", "C02", KWPPY, "AIV = b'\\xA6\\x59\\x59\\xA6' + struct.pack('>I', len(plaintext))", "AIV = b'\\xA6\\x59\\x59\\xA6' + struct.pack('<I', len(plaintext))", "K-pw|kwp.bytes")
M("c02.kwp.single.block", "C02", KWPPY, "        if len(padded) == 8:\n            res = self._cipher.encrypt(AIV + padded)\n        else:\n            res = W(self._cipher, AIV + padded)", "        res = W(self._cipher, AIV + padded)", "K-pw|kwp.bytes")
OAEPPY = "lib/Crypto/Cipher/PKCS1_OAEP.py"
M("c07.oaep.eme.order", "C07", OAEPPY, "        em = b'\\x00' + maskedSeed + maskedDB", "        em = b'\\x00' + maskedDB + maskedSeed", "K-pw|oaep.eme.bytes")
M("c07.oaep.eme.dbmasklen", "C07", OAEPPY, "        dbMask = self._mgf(ros, k-hLen-1)\n        # Step 2f", "        dbMask = self._mgf(ros, k-hLen)\n        # Step 2f", "K-pw|oaep.eme.bytes")
M("c07.oaep.dec.seedslice", "C07", OAEPPY, "        maskedSeed = em[1:hLen+1]", "        maskedSeed = em[:hLen]", "K-pw|oaep.eme.bytes")
M("c07.oaep.dec.res", "C07", OAEPPY, "        return db[res:]", "        return db[res+1:]", "K-pw|oaep.eme.bytes")
EDPY = "lib/Crypto/Signature/eddsa.py"
M("c04.eddsa.ed448.k.read", "C04", EDPY, "        k_hash = SHAKE256.new(dom4 + R_pk + self._A + PHM).read(114)", "        k_hash = SHAKE256.new(dom4 + R_pk + self._A + PHM).read(64)", "K-pw|eddsa.ed448")
M("c04.eddsa.ed448.verify.k", "C04", EDPY, "        k_hash = SHAKE256.new(dom4 + signature[:57] + self._A + PHM).read(114)", "        k_hash = SHAKE256.new(dom4 + self._A + signature[:57] + PHM).read(114)", "K-pw|eddsa.ed448")
M("c04.eddsa.ed25519.sign.r", "C04", EDPY, "        r_hash = SHA512.new(dom2 + self._key._prefix + PHM).digest()", "        r_hash = SHA512.new(self._key._prefix + dom2 + PHM).digest()", "K-pw|eddsa.ed25519")
M("c04.eddsa.ed25519.cofactor", "C04", EDPY, "        point1 = s * 8 * self._key._curve.G\n        # OPTIMIZE: with double-scalar multiplication, with no SCA\n        # countermeasures because it is public values\n        point2 = 8 * R + k * 8 * self._key.pointQ\n        if point1 != point2:\n            raise ValueError(\"The signature is not authentic\")\n\n    def _verify_ed448", "        point1 = s * 8 * self._key._curve.G\n        # OPTIMIZE: with double-scalar multiplication, with no SCA\n        # countermeasures because it is public values\n        point2 = 8 * R + k * self._key.pointQ\n        if point1 != point2:\n            raise ValueError(\"The signature is not authentic\")\n\n    def _verify_ed448", "K-pw|eddsa.ed25519")
PSSPY = "lib/Crypto/Signature/pss.py"
M("c04.emsa.pss.lmask.encode", "C04", PSSPY, "    maskedDB = bchr(bord(maskedDB[0]) & ~lmask) + maskedDB[1:]\n    # Step 12", "    maskedDB = bchr(bord(maskedDB[0]) & (~lmask >> 1)) + maskedDB[1:]\n    # Step 12", "K-pw|pss.emsa.bytes")
M("c04.emsa.pss.mprime", "C04", PSSPY, "    m_prime = bchr(0)*8 + mhash.digest() + salt\n    # Step 6", "    m_prime = bchr(0)*8 + salt + mhash.digest()\n    # Step 6", "K-pw|pss.emsa.bytes")
M("c04.emsa.pss.verify.step9", "C04", PSSPY, "    db = bchr(bord(db[0]) & ~lmask) + db[1:]\n    # Step 10", "    # Step 10", "K-pw|pss.emsa.bytes")
M("c04.emsa.p115.ps", "C04", "lib/Crypto/Signature/pkcs1_15.py", "    PS = b'\\xFF' * (emLen - len(digestInfo) - 3)", "    PS = b'\\xFF' * (emLen - len(digestInfo) - 4) + b'\\xFE'", "K-pw|p115.emsa.bytes")
M("c04.emsa.p115.min", "C04", "lib/Crypto/Signature/pkcs1_15.py", "    if emLen<len(digestInfo)+11:", "    if emLen<len(digestInfo)+10:", "K-pw|p115.emsa.bytes")
NUMPY = "lib/Crypto/Util/number.py"
M("c14.legacy.mr.n_1", "C14", NUMPY, "        if z == 1 or z == n_1:\n            continue", "        if z == 1:\n            continue", "K-pw|primality.legacy")
M("c14.legacy.mr.tested", "C14", NUMPY, "        while a in tested:\n            a = getRandomRange (2, n, randfunc)\n", "", "K-pw|primality.legacy.mr")
M("c14.legacy.isprime.order", "C14", NUMPY, "        if N == p:\n            return True\n        if N % p == 0:\n            return False", "        if N % p == 0:\n            return False\n        if N == p:\n            return True", "K-pw|primality.legacy.isPrime")
M("c14.legacy.isprime.small", "C14", NUMPY, "    if N < 3 or N & 1 == 0:\n        return N == 2\n    for p in sieve_base:", "    if N < 3 or N & 1 == 0:\n        return N <= 2\n    for p in sieve_base:", "K-pw|primality.legacy.isPrime")
KDFPY = "lib/Crypto/Protocol/KDF.py"
M("c12.eks.iterations", "C12", "src/blowfish.c", "iterations = 1U << cost;", "iterations = 2U * cost;", "K-pw|c|eksblowfish.setup")
M("c12.eks.loop.order", "C12", "src/blowfish.c", "    if (!invert) {", "    if (invert) {", "K-pw|c|eksblowfish.setup")
M("c12.eks.circ.wrap", "C12", "src/blowfish.c", "        if (len == *idx)\n            *idx = 0;", "        if (len <= *idx + 1)\n            *idx = 0;", "K-pw|c|eksblowfish.setup")
M("c17.eks.empty.key", "C17", "src/blowfish.c", "if (keylength < 1 || keylength > 72) {", "if (keylength > 72) {", "G-c|c|eksblowfish.lengths")
M("c17.eks.empty.salt", "C17", "src/blowfish.c", "    if (saltlength < 1) {", "    if (saltlength > 4096) {", "G-c|c|eksblowfish.lengths")
M("c12.bcrypt.hash24", "C12", KDFPY, "hash_enc = _bcrypt_encode(ctext[:-1])", "hash_enc = _bcrypt_encode(ctext)", "K-pw|bcrypt.assembly")
M("c12.bcrypt.nul72", "C12", KDFPY, "    if len(password) < 72:\n        password += b\"\\x00\"", "    if len(password) <= 72:\n        password += b\"\\x00\"", "")
M("c12.bcrypt.enc.shift", "C12", KDFPY, "idx = int(g, 2) << (6 - len(g))", "idx = int(g, 2)", "K-pw|bcrypt.radix64")
M("c12.bcrypt.dec.mod4", "C12", KDFPY, "    elif modulo4 == 2:\n        bits = bits[:-4]", "    elif modulo4 == 2:\n        bits = bits[:-2]", "K-pw|bcrypt.radix64")
M("c12.bcrypt.rounds63", "C12", KDFPY, "    for _ in range(64):\n        ctext = cipher.encrypt(ctext)", "    for _ in range(63):\n        ctext = cipher.encrypt(ctext)", "K-pw|bcrypt.assembly")
M("c12.bcrypt.cost.zfill", "C12", KDFPY, "cost_enc = b\"$\" + bstr(str(cost).zfill(2))", "cost_enc = b\"$\" + bstr(str(cost))", "K-pw|bcrypt.assembly")
PRIMPY = "lib/Crypto/Math/Primality.py"
M("c14.prim.mr.minus_one", "C14", PRIMPY, "        if z in (one, minus_one):\n            continue", "        if z == one:\n            continue", "K-pw|primality.miller-rabin")
M("c14.prim.mr.loop", "C14", PRIMPY, "            if z == one:\n                return COMPOSITE\n        else:\n            return COMPOSITE", "            if z == one:\n                return COMPOSITE", "K-pw|primality")
M("c14.prim.lucas.halve", "C14", PRIMPY, "        if V_temp.is_odd():\n            V_temp += candidate\n        V_temp >>= 1", "        V_temp >>= 1", "K-pw|primality.lucas")
M("c14.prim.lucas.delta", "C14", PRIMPY, "    K = candidate + 1\n", "    K = candidate - 1\n", "K-pw|primality.lucas")
M("c14.prim.lucas.jacobi0", "C14", PRIMPY, "        if js == 0:\n            return COMPOSITE\n", "        if js == 0:\n            continue\n", "K-pw|primality.lucas")
M("c14.prim.sieve.literal", "C14", "lib/Crypto/Util/number.py", " 521,    523,    541,", " 521,    523,    539,", "K|primality.sieve")
M("c14.prim.twin.lucas", "C14", PRIMPY, "    if U_i == 0:\n        return PROBABLY_PRIME\n    return COMPOSITE", "    if U_i != 0:\n        return COMPOSITE\n    return PROBABLY_PRIME", twin=True)
DSSPY = "lib/Crypto/Signature/DSS.py"
M("c04.rfc6979.assert.revert", "C04", DSSPY, "assert 0 <= int_mod_q < self._order", "assert 0 < int_mod_q < self._order", "K-pw|rfc6979.conversions")
M("c04.rfc6979.bits2int.shift", "C04", DSSPY, "if b_len > q_len:", "if b_len >= q_len + 8:", "K-pw|rfc6979.conversions")
M("c04.rfc6979.bits2octets.reduce", "C04", DSSPY, "        if z1 < self._order:\n            z2 = z1", "        if z1 <= self._order:\n            z2 = z1", "K-pw|rfc6979.conversions")
M("c06.neutral.edwards.revert", "C06", "lib/Crypto/PublicKey/_point.py", "return self.xy == (0, 1)", "return self.x == 0", "K-pw|neutral.predicate")
PTPY = "lib/Crypto/PublicKey/_point.py"
M("c06.point.iadd.swapped", "C06", PTPY, "result = add_func(self._point.get(), point._point.get())", "result = add_func(point._point.get(), self._point.get())", "K-pw|point.iadd.inplace")
M("c06.point.mul.nocopy", "C06", PTPY, "        np = self.copy()\n        np *= scalar\n        return np\n\n    def __rmul__(self, left_hand):\n        return self.__mul__(left_hand)\n\n\nclass EccXPoint", "        np = self\n        np *= scalar\n        return np\n\n    def __rmul__(self, left_hand):\n        return self.__mul__(left_hand)\n\n\nclass EccXPoint", "K-pw|point.value.operators")
M("c19.point.add.nocopy", "C19", PTPY, "        np = self.copy()\n        np += point\n        return np", "        np = self\n        np += point\n        return np", "P6|point.value.operators")
M("c19.xpoint.copy.self", "C19", PTPY, "        return EccXPoint(x, self.curve)", "        return self", "P6|point.x.copy.independent")
M("c06.point.neg.inplace", "C06", PTPY, "        np = self.copy()\n        result = neg_func(np._point.get())", "        np = self\n        result = neg_func(np._point.get())", "K-pw|point.value.operators")
M("c06.xpoint.infinity.copy", "C06", PTPY, "        except ValueError:\n            return self.point_at_infinity()\n        return EccXPoint(x, self.curve)", "        except ValueError:\n            return EccXPoint(0, self.curve)\n        return EccXPoint(x, self.curve)", "K-pw|point.x.copy.independent")
M("c06.point.eq.swapped.sense", "C06", PTPY, "        return 0 == cmp_func(self._point.get(), point._point.get())", "        return 0 != cmp_func(self._point.get(), point._point.get())", "K-pw|point.compare")
KDFPY = "lib/Crypto/Protocol/KDF.py"
M("c12.scrypt.compose.idx", "C12", KDFPY, "        idx = flow * 128 * r\n", "        idx = flow * 128\n", "K-pw|scrypt.composition")
M("c12.scrypt.compose.order", "C12", KDFPY, "        data_out += [get_raw_buffer(buffer_out)]", "        data_out = [get_raw_buffer(buffer_out)] + data_out", "K-pw|scrypt.composition")
M("c12.s2v.derive.clobber", "C12", KDFPY, "            final = strxor(padded, self._double(self._cache))", "            self._cache = self._double(self._cache)\n            final = strxor(padded, self._cache)", "SEG|s2v.histories")
PBESPY = "lib/Crypto/IO/_PBES.py"
M("c08.pbes2.reader.aes192gcm.keysize", "C08", PBESPY, "            cipher_mode = AES.MODE_GCM\n            key_size = 24\n            cipher_param = 'nonce'", "            cipher_mode = AES.MODE_GCM\n            key_size = 32\n            cipher_param = 'nonce'", "K-pw|pbes2.roundtrip")
M("c08.pbes2.writer.scrypt.params", "C08", PBESPY, "                        DerInteger(scrypt_r),\n                        DerInteger(scrypt_p)", "                        DerInteger(scrypt_p),\n                        DerInteger(scrypt_r)", "K-pw|pbes2.roundtrip")
M("c08.hash.new.sha512_224", "C08", "lib/Crypto/Hash/__init__.py", "        return SHA512.new(truncate='224')", "        return SHA512.new(truncate='256')", "K-pw|pbes2.roundtrip")
M("c17.eccpoint.curve448.revert", "C17", "lib/Crypto/PublicKey/_point.py", "        if self._curve.id in (CurveID.CURVE25519, CurveID.CURVE448):\n            raise ValueError(\"EccPoint cannot be created for Curve25519/Curve448\")", "        if self._curve.id == CurveID.CURVE25519:\n            raise ValueError(\"EccPoint cannot be created for Curve25519\")", "F|rawlib.arity|EccPoint|CURVE448")
M("c19.ed448.add.wp.revert", "C19", "src/ed448.c", "                       ecpa->wp, ctx);", "                       ecpb->wp, ctx);", "P6-c|c|edwards.points")
M("c19.pbes.prot_params.pop", "C19", "lib/Crypto/IO/_PBES.py", 'salt = randfunc(prot_params.get("salt_size", 8))', 'salt = randfunc(prot_params.pop("salt_size", 8))', "P4|container|_PBES.PBES2.encrypt")
M("c09.siv.subkey.view.revert", "C09", "lib/Crypto/Cipher/_mode_siv.py", "        self._subkey_cipher = _copy_bytes(subkey_size, None, key)", "        self._subkey_cipher = key[subkey_size:]", "P4|retain|_mode_siv.SivMode.__init__|_subkey_cipher")
HPKEPY = "lib/Crypto/Protocol/HPKE.py"
M("c15.hist.nonce.byteorder", "C15", HPKEPY, "self._sequence.to_bytes(self._Nn, 'big')", "self._sequence.to_bytes(self._Nn, 'little')", "N|hpke")
M("c15.hist.aad.dropped", "C15", HPKEPY, "        if auth_data:\n            cipher.update(auth_data)\n\n        try:", "        try:", "N|hpke.histories")
M("c03.stack.kmac.rightencode", "C03", "lib/Crypto/Hash/KMAC128.py", "self._cshake.update(_right_encode(self.digest_size * 8))", "self._cshake.update(_right_encode(self.digest_size))", "K-pw|sponge.stack.KMAC")
M("c03.stack.cshake.padding", "C03", "lib/Crypto/Hash/cSHAKE128.py", "            self._padding = 0x04", "            self._padding = 0x1F", "K-pw|sponge.stack.cSHAKE")
M("c03.stack.sha3.padding", "C03", "lib/Crypto/Hash/SHA3_384.py", "        self._padding = 0x06", "        self._padding = 0x1F", "K-pw|sponge.stack.SHA3_384")
M("c03.stack.sha3.copy.swapped", "C03", "lib/Crypto/Hash/SHA3_256.py", "        result = _raw_keccak_lib.keccak_copy(self._state.get(),\n                                             clone._state.get())", "        result = _raw_keccak_lib.keccak_copy(clone._state.get(),\n                                             self._state.get())", "K-pw|sponge.stack.copy")
M("c03.stack.blake2b.truncate", "C03", "lib/Crypto/Hash/BLAKE2b.py", "        return get_raw_buffer(bfr)[:self.digest_size]", "        return get_raw_buffer(bfr)[:64]", "K-pw|hash.stack.BLAKE2b")
M("c03.stack.sha512.new.truncate", "C03", "lib/Crypto/Hash/SHA512.py", "return SHA512Hash(data, self._truncate)", "return SHA512Hash(data, None)", "K")
ECCPY = "lib/Crypto/PublicKey/ECC.py"
M("c08.ecc.rt.sec1.compress.parity", "C08", ECCPY, "            if self.pointQ.y.is_odd():\n                first_byte = b'\\x03'\n            else:\n                first_byte = b'\\x02'", "            if self.pointQ.y.is_odd():\n                first_byte = b'\\x02'\n            else:\n                first_byte = b'\\x03'", "K")
M("c08.ecc.rt.rfc5915.scalar.len", "C08", ECCPY, "DerOctetString(self.d.to_bytes(modulus_bytes)),", "DerOctetString(self.d.to_bytes()),", "K")
RSAPY = "lib/Crypto/PublicKey/RSA.py"
M("c07.toy.rsa.crt.h", "C07", RSAPY, "h = ((m2 - m1) * self._u) % self._q", "h = ((m1 - m2) * self._u) % self._q", "K-pw|rsa.toy.decrypt")
M("c07.toy.rsa.crt.abs", "C07", RSAPY, "h = ((m2 - m1) * self._u) % self._q", "h = (abs(m2 - m1) * self._u) % self._q", "K-pw|rsa.toy.decrypt")
M("c04.toy.rsa.unblind", "C04", RSAPY, "                    r.inverse(self._n),\n                    mp,", "                    r.inverse(self._q),\n                    mp,", "K-pw|rsa.toy.decrypt")
M("c07.toy.rsa.range", "C07", RSAPY, "        if not 0 <= ciphertext < self._n:", "        if not 0 <= ciphertext <= self._n:", "K-pw|rsa.toy.range")
M("c07.twin.toy.rsa.crt", "C07", RSAPY, "mp = h * self._p + m1", "mp = m1 + self._p * h", twin=True)

# ---------------------------------------------------------------- C03 object-level new()
M("c03.fresh.kmac256.revert", "C03", "lib/Crypto/Hash/KMAC128.py", "        if self._rate == 136:\n            from . import KMAC256\n            return KMAC256.new(**kwargs)\n\n", "", "K|fresh.KMAC256")
M("c03.fresh.sha512.truncate", "C03", "lib/Crypto/Hash/SHA512.py", "return SHA512Hash(data, self._truncate)", "return SHA512Hash(data, None)", "K|fresh.SHA512")
M("c03.fresh.turboshake.domain", "C03", "lib/Crypto/Hash/TurboSHAKE128.py", "return type(self)(self._capacity, self._domain, data)", "return type(self)(self._capacity, 0x1F, data)", "K|fresh.TurboSHAKE128.7")
M("c03.fresh.turboshake.capacity", "C03", "lib/Crypto/Hash/TurboSHAKE128.py", "return type(self)(self._capacity, self._domain, data)", "return type(self)(32, self._domain, data)", "K|fresh.TurboSHAKE256")

# ---------------------------------------------------------------- C17 (hand-written successors of obsolete seeds)
M("c17.ecws.p384.ntables", "C17", "src/ec_ws.c",
  "    if (bw.nr_windows > p384_n_tables)\n", "    if (bw.nr_windows > p521_n_tables)\n", "M|c|ec_ws.generator_tables")
# successor of seed C05-2 (compare only part of the two sides of the curve equation) on the repaired code
M("c05.ed25519.partial.compare", "C05", "src/ed25519.c",
  "    if (0 != memcmp(bin1, bin2, sizeof bin1)) {\n", "    if (0 != memcmp(bin1, bin2, 24)) {\n", "")
M("c17.point.set.lifetime", "C17", "lib/Crypto/PublicKey/_point.py",
  """        self._point = VoidPointer()
        result = clone(self._point.address_of(),
                       point._point.get())

        if result:""",
  """        source = point._point.get()
        self._point = VoidPointer()
        result = clone(self._point.address_of(),
                       source)

        if result:""", "F|ptr-lifetime|_point.EccPoint.set|source")
