#!/usr/bin/env python3
"""Both-ways self-test of the checkers (not part of any property command).

    python3 selftest/run.py [-j N] [--only SUBSTR] [--seeded] [--report FILE]

Every mutant in selftest/mutants.py is applied (exact text replacement, must
match once) to a scratch copy of /repo's sources under $TMPDIR; the named
check must exit 1 with a VIOLATION whose text contains `expect`.  Twins
(behaviour-preserving edits) must leave the check at exit 0.  Scratch copies
are removed as soon as the check has run.
"""
import concurrent.futures
import os
import shutil
import subprocess
import sys
import tempfile

HERE = os.path.dirname(os.path.abspath(__file__))
VERIF = os.path.dirname(HERE)
REPO = os.environ.get("VERIF_REPO", "/repo")


def make_scratch():
    d = tempfile.mkdtemp(prefix="vstat_mut_")
    def ign(path, names):
        return [n for n in names if n in ("SelfTest", "__pycache__") or
                n.endswith((".so", ".pyc"))]
    shutil.copytree(os.path.join(REPO, "lib"), os.path.join(d, "lib"), ignore=ign)
    shutil.copytree(os.path.join(REPO, "src"), os.path.join(d, "src"), ignore=ign)
    for f in ("setup.py", "compiler_opt.py"):
        shutil.copy(os.path.join(REPO, f), os.path.join(d, f))
    return d


def run_one(m):
    d = make_scratch()
    try:
        if "patch" in m:
            r = subprocess.run(["git", "apply", "--unsafe-paths",
                                "--directory=" + d, m["patch"]],
                               cwd="/", capture_output=True, text=True)
            if r.returncode:
                r = subprocess.run(["patch", "-p1", "-d", d, "-i", m["patch"]],
                                   capture_output=True, text=True)
                if r.returncode:
                    return m, "BROKEN", "patch does not apply: " + r.stderr[:200] + r.stdout[:200]
        else:
            edits = m.get("edits") or [(m["file"], m["old"], m["new"])]
            for (f, old, new) in edits:
                p = os.path.join(d, f)
                s = open(p).read()
                if s.count(old) != 1:
                    return m, "BROKEN", "pattern occurs %d times in %s" % (s.count(old), f)
                open(p, "w").write(s.replace(old, new))
        props = m["prop"] if isinstance(m["prop"], list) else [m["prop"]]
        out = ""
        rc = 0
        for p in props:
            r = subprocess.run([sys.executable, "-m", "vstat", "check", p,
                                "--repo", d, "--tier", m.get("tier", "quick")],
                               cwd=VERIF, capture_output=True, text=True,
                               env=dict(os.environ, VSTAT_NO_EVIDENCE="1"))
            out += r.stdout + r.stderr
            rc = max(rc, r.returncode)
        if m.get("twin"):
            return m, ("OK" if rc == 0 else "FALSE-ALARM"), out
        if rc == 1 and "VIOLATION" in out and m.get("expect", "") in out:
            return m, "OK", out
        if rc == 1:
            return m, "WRONG-KEY", out
        return m, ("MISSED" if rc == 0 else "ERROR"), out
    finally:
        shutil.rmtree(d, ignore_errors=True)


def main():
    sys.path.insert(0, HERE)
    import mutants
    ms = list(mutants.MUTANTS)
    j = 16
    only = None
    args = sys.argv[1:]
    verbose = "-v" in args
    if "-j" in args:
        j = int(args[args.index("-j") + 1])
    if "--only" in args:
        only = args[args.index("--only") + 1]
    if "--seeded" in args:
        ms = mutants.seeded()
    if only:
        ms = [m for m in ms if only in m["id"]]
    bad = 0
    report = {}
    with concurrent.futures.ThreadPoolExecutor(j) as ex:
        for m, status, out in ex.map(run_one, ms):
            keys = []
            for l in out.splitlines():
                if l.startswith("  rule=") and " key=" in l:
                    keys.append(l.split(" key=", 1)[1].split(" at ")[0])
            report[m["id"]] = {"status": status, "checks": m["prop"], "keys": sorted(set(keys))}
            print("%-12s %-40s %s" % (status, m["id"], m.get("expect", "twin" if m.get("twin") else "")))
            if status != "OK" or verbose:
                if status != "OK":
                    bad += 1
                for l in out.splitlines():
                    if l.startswith(("VIOLATION", "  rule", "  extracted", "ANALYSIS", "Traceback", "  File")) or "Error" in l or status == "BROKEN":
                        print("      " + l[:220])
                if status == "BROKEN":
                    print("      " + out[:300])
    if "--report" in args:
        import json
        with open(args[args.index("--report") + 1], "w") as f:
            json.dump(report, f, indent=1, sort_keys=True)
    print("%d mutants/twins, %d not as expected" % (len(ms), bad))
    return 1 if bad else 0


if __name__ == "__main__":
    sys.exit(main())
