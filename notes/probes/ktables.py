import re, subprocess, math
FLAGS="-Isrc -Isrc/libtom -DHAVE_STDINT_H -DPYCRYPTO_LITTLE_ENDIAN -DSYS_BITS=64 -DLTC_NO_ASM -DHAVE_UINT128 -DHAVE_CPUID_H -DHAVE_POSIX_MEMALIGN".split()
def ir_tables(src):
    out=subprocess.run(['clang','-S','-emit-llvm','-O0']+FLAGS+[src,'-o','-'],capture_output=True,text=True,cwd='/repo').stdout
    tabs={}
    for m in re.finditer(r'^@([\w.]+) = [a-z_ ]*constant (\[.*)$', out, re.M):
        name=m.group(1); body=m.group(2)
        tm=re.match(r'((?:\[\d+ x )+)i(\d+)', body)
        if not tm: continue
        bits=int(tm.group(2))
        vals=[int(v)%(1<<bits) for v in re.findall(r'i%d (-?\d+)'%bits, body.split('] [',1)[1] if '] [' in body else body)]
        if 'zeroinitializer' in body and not vals: continue
        tabs[name]=vals
    return tabs
# --- AES
def gmul(a,b):
    r=0
    while b:
        if b&1: r^=a
        a<<=1
        if a&0x100: a^=0x11b
        b>>=1
    return r
inv=[0]*256
for a in range(1,256):
    for b in range(1,256):
        if gmul(a,b)==1: inv[a]=b; break
def rotl8(x,n): return ((x<<n)|(x>>(8-n)))&0xff
S=[ (inv[x]^rotl8(inv[x],1)^rotl8(inv[x],2)^rotl8(inv[x],3)^rotl8(inv[x],4)^0x63) for x in range(256)]
Si=[0]*256
for i,v in enumerate(S): Si[v]=i
def w(a,b,c,d): return (a<<24)|(b<<16)|(c<<8)|d
Te0=[w(gmul(S[x],2),S[x],S[x],gmul(S[x],3)) for x in range(256)]
ror=lambda v,n: ((v>>n)|(v<<(32-n)))&0xffffffff
Te=[Te0,[ror(v,8) for v in Te0],[ror(v,16) for v in Te0],[ror(v,24) for v in Te0],[w(S[x],S[x],S[x],S[x]) for x in range(256)]]
Td0=[w(gmul(Si[x],14),gmul(Si[x],9),gmul(Si[x],13),gmul(Si[x],11)) for x in range(256)]
Td=[Td0,[ror(v,8) for v in Td0],[ror(v,16) for v in Td0],[ror(v,24) for v in Td0],[w(Si[x],Si[x],Si[x],Si[x]) for x in range(256)]]
rc=[]; r=1
for i in range(10): rc.append(r<<24); r=gmul(r,2)
t=ir_tables('src/AES.c')
print("AES:", all(t['Te%d'%i]==Te[i] for i in range(5)), all(t['Td%d'%i]==Td[i] for i in range(5)), t['rcon']==rc)
# --- SHA-256 / SHA-512 constants
def primes(n):
    ps=[];c=2
    while len(ps)<n:
        if all(c%p for p in ps): ps.append(c)
        c+=1
    return ps
def iroot(n,k):
    lo,hi=0,1
    while hi**k<=n: hi*=2
    while lo<hi-1:
        mid=(lo+hi)//2
        if mid**k<=n: lo=mid
        else: hi=mid
    return lo
def frac_root(p,k,bits): return iroot(p<<(k*bits),k) & ((1<<bits)-1)
K256=[frac_root(p,3,32) for p in primes(64)]; H256=[frac_root(p,2,32) for p in primes(8)]
K512=[frac_root(p,3,64) for p in primes(80)]; H512=[frac_root(p,2,64) for p in primes(8)]
H224=[frac_root(p,2,64)&0xffffffff for p in primes(16)[8:]]; H384=[frac_root(p,2,64) for p in primes(16)[8:]]
t=ir_tables('src/SHA256.c'); print("SHA256:", t['K']==K256, t['H']==H256)
t=ir_tables('src/SHA224.c'); print("SHA224:", t['K']==K256, t['H']==H224)
t=ir_tables('src/SHA384.c'); print("SHA384:", t['K']==K512, t['H']==H384)
t=ir_tables('src/SHA512.c'); print("SHA512:", t['K']==K512, t['H_SHA_512'][:8]==H512, len(t['H_SHA_512']))
# --- Keccak round constants via LFSR
def rc_bit(t):
    if t%255==0: return 1
    R=1
    for _ in range(t%255):
        R<<=1
        if R&0x100: R^=0x171
    return R&1
RC=[]
for ir in range(24):
    v=0
    for j in range(7):
        if rc_bit(j+7*ir): v|=1<<((1<<j)-1)
    RC.append(v)
t=ir_tables('src/keccak.c'); print("Keccak RC:", t['roundconstants']==RC)
# --- Blowfish P/S from pi
def pi_hex_digits(n):
    # pi*16^n via Machin: pi = 16 atan(1/5) - 4 atan(1/239), fixed point
    prec = 4*n+64
    one = 1<<prec
    def atan_inv(x):
        total=term=one//x; x2=x*x; k=1; sign=1
        while term:
            term//=x2; k+=2; sign=-sign
            total+=sign*(term//k)
        return total
    pi = 16*atan_inv(5)-4*atan_inv(239)
    frac = pi - 3*one
    return (frac >> (prec-4*n))
nwords=18+4*256
digits=pi_hex_digits(nwords*8)
words=[(digits >> (32*(nwords-1-i))) & 0xffffffff for i in range(nwords)]
t=ir_tables('src/blowfish.c')
print("Blowfish:", t['P_init']==words[:18], t['S_init']==words[18:])
# MD5 T
T=[int(abs(math.sin(i+1))*2**32)&0xffffffff for i in range(64)]
import re as _re
src=open('/repo/src/MD5.c').read()
found=[int(x,16) for x in _re.findall(r'0x([0-9a-fA-F]{8})', src)]
print("MD5 T present in source (as literals in round macros):", all(v in found for v in T))
