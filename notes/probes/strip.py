import ast,sys
def strip(fn, lo=0, hi=10**9):
    src=open(fn).read()
    tree=ast.parse(src)
    skip=set()
    for n in ast.walk(tree):
        if isinstance(n,(ast.FunctionDef,ast.ClassDef,ast.Module)):
            b=n.body
            if b and isinstance(b[0],ast.Expr) and isinstance(b[0].value,ast.Constant) and isinstance(b[0].value.value,str):
                for l in range(b[0].lineno,b[0].end_lineno+1): skip.add(l)
    first=True
    for i,l in enumerate(src.split('\n'),1):
        if i in skip or not l.strip(): continue
        if l.lstrip().startswith('#') and i<32: continue
        if lo<=i<=hi: print(f"{i:4d} {l}")
fn=sys.argv[1]
lo=int(sys.argv[2]) if len(sys.argv)>2 else 0
hi=int(sys.argv[3]) if len(sys.argv)>3 else 10**9
strip(fn,lo,hi)
