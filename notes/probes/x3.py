"""Prototype of rule X3: DER sequence index / element-type discipline."""
import ast, glob, sys
files = ['IO/PKCS8.py','IO/_PBES.py','PublicKey/__init__.py','PublicKey/RSA.py','PublicKey/DSA.py','PublicKey/ECC.py','Signature/DSS.py','Signature/pkcs1_15.py']
def is_derseq_decode(call):
    # DerSequence().decode(...)
    return (isinstance(call, ast.Call) and isinstance(call.func, ast.Attribute) and call.func.attr=='decode'
            and isinstance(call.func.value, ast.Call) and getattr(call.func.value.func,'id',None)=='DerSequence')
def nr_min(call):
    for kw in call.keywords:
        if kw.arg=='nr_elements':
            v=kw.value
            try:
                val=ast.literal_eval(v)
                return min(val) if isinstance(val,(tuple,list)) else val
            except Exception:
                if isinstance(v, ast.Call) and getattr(v.func,'id',None)=='range':
                    return ast.literal_eval(v.args[0])
                return None
    return 0
def only_ints(call):
    return any(kw.arg=='only_ints_expected' and getattr(kw.value,'value',False) for kw in call.keywords)
tot=0; bad=0
for f in files:
    t=ast.parse(open(f).read())
    for fn in ast.walk(t):
        if not isinstance(fn, ast.FunctionDef): continue
        seqs={}
        for a in ast.walk(fn):
            if isinstance(a, ast.Assign) and is_derseq_decode(a.value) and isinstance(a.targets[0], ast.Name):
                seqs[a.targets[0].id]=(nr_min(a.value), only_ints(a.value), a.lineno)
        if not seqs: continue
        # len guards: collect names X with `len(X)` appearing in an If test in function
        lenguard=set()
        for i in ast.walk(fn):
            if isinstance(i,(ast.If,ast.Compare)):
                for c in ast.walk(i.test if isinstance(i,ast.If) else i):
                    if isinstance(c, ast.Call) and getattr(c.func,'id',None)=='len' and isinstance(c.args[0], ast.Name): lenguard.add(c.args[0].id)
        for s in ast.walk(fn):
            if isinstance(s, ast.Subscript) and isinstance(s.value, ast.Name) and s.value.id in seqs and isinstance(s.slice, ast.Constant) and isinstance(s.slice.value,int):
                tot+=1
                mn,oi,ln=seqs[s.value.id]
                k=s.slice.value
                ok = (mn is not None and mn>k) or (s.value.id in lenguard)
                if not ok:
                    bad+=1
                    print(f"X3-index {f}:{s.lineno} {fn.name}: {s.value.id}[{k}] from decode@{ln} nr_elements.min={mn} lenguard={s.value.id in lenguard}")
print("index sites", tot, "unproven", bad)
