"""Prototype of rule T: extract the _next automaton of a class by abstract interpretation."""
import ast, sys, itertools
def const_names(node):
    if isinstance(node,(ast.List,ast.Tuple)) and all(isinstance(e,ast.Constant) and isinstance(e.value,str) for e in node.elts):
        return frozenset(e.value for e in node.elts)
    return None
class Extract:
    def __init__(self, cls):
        self.cls=cls
        self.methods={m.name:m for m in cls.body if isinstance(m,ast.FunctionDef)}
    def run_method(self, name, state, depth=0):
        """return set of outcomes: ('ok', newstate, label) | ('raise', exc, state_at_raise, effects_before)"""
        m=self.methods[name]
        return self.exec_block(m.body, state, (), False, depth)
    def test_kind(self, test, state):
        # returns (True/False/None)
        if isinstance(test, ast.Compare) and len(test.ops)==1 and isinstance(test.left, ast.Constant) and isinstance(test.left.value,str) \
           and isinstance(test.comparators[0], ast.Attribute) and test.comparators[0].attr=='_next':
            member = test.left.value in state
            return member if isinstance(test.ops[0], ast.In) else (not member)
        return None
    def exec_block(self, stmts, state, label, effected, depth):
        # returns list of (kind, ...) outcomes ; 'fall' means fell through with (state,label,effected)
        outs=[]; cur=[(state,label,effected)]
        for s in stmts:
            nxt=[]
            for (st,lb,ef) in cur:
                for o in self.exec_stmt(s, st, lb, ef, depth):
                    if o[0]=='fall': nxt.append(o[1:])
                    else: outs.append(o)
            cur=nxt
            if not cur: break
        outs += [('fall',)+c for c in cur]
        return outs
    def exec_stmt(self, s, st, lb, ef, depth):
        if isinstance(s, ast.Expr) and isinstance(s.value, ast.Constant): return [('fall',st,lb,ef)]
        if isinstance(s, ast.If):
            k=self.test_kind(s.test, st)
            res=[]
            if k is None:
                cond=ast.unparse(s.test)
                res+=self.exec_block(s.body, st, lb+((cond,True),), ef, depth)
                res+=self.exec_block(s.orelse, st, lb+((cond,False),), ef, depth)
            elif k: res+=self.exec_block(s.body, st, lb, ef, depth)
            else: res+=self.exec_block(s.orelse, st, lb, ef, depth)
            return res
        if isinstance(s, ast.Raise):
            exc = s.exc.func.id if isinstance(s.exc, ast.Call) and isinstance(s.exc.func, ast.Name) else ast.unparse(s.exc) if s.exc else 'reraise'
            return [('raise', exc, st, lb, ef)]
        if isinstance(s, ast.Return):
            # inline self.method calls inside return expr, in evaluation order
            return self.exec_calls(s.value, st, lb, ef, depth, final='return')
        if isinstance(s, ast.Assign) and len(s.targets)==1 and isinstance(s.targets[0], ast.Attribute) and s.targets[0].attr=='_next':
            ns=const_names(s.value)
            return [('fall', ns if ns is not None else 'UNKNOWN', lb, ef)]
        if isinstance(s,(ast.Assign,ast.AugAssign,ast.Expr)):
            val = s.value
            res=self.exec_calls(val, st, lb, ef, depth, final='fall')
            # mark effect if assigns to self attr or calls something
            out=[]
            for o in res:
                if o[0]=='fall':
                    eff = o[3] or any(isinstance(n,(ast.Call,)) for n in ast.walk(s)) or any(isinstance(t,ast.Attribute) for t in getattr(s,'targets',[getattr(s,'target',None)]) if t is not None)
                    out.append(('fall',o[1],o[2],eff))
                else: out.append(o)
            return out
        if isinstance(s,(ast.Assert,ast.Pass)): return [('fall',st,lb,ef)]
        if isinstance(s,(ast.For,ast.While,ast.Try,ast.With)):
            # conservative: execute body once or zero times
            body = s.body
            r=self.exec_block(body, st, lb, True, depth)
            return r+[('fall',st,lb,ef)] if isinstance(s,(ast.For,ast.While)) else r
        return [('fall',st,lb,True)]
    def exec_calls(self, expr, st, lb, ef, depth, final):
        calls=[c for c in ast.walk(expr) if isinstance(c, ast.Call) and isinstance(c.func, ast.Attribute) and isinstance(c.func.value, ast.Name) and c.func.value.id=='self' and c.func.attr in self.methods and c.func.attr in ('encrypt','decrypt','digest','verify','update','_digest')] if expr is not None else []
        calls.sort(key=lambda c:(c.lineno,c.col_offset))
        cur=[(st,lb,ef)]; outs=[]
        for c in calls:
            nxt=[]
            for (s0,l0,e0) in cur:
                arglabel=(('call %s(%s)'%(c.func.attr, ','.join(ast.unparse(a) for a in c.args)),True),)
                for o in self.run_method(c.func.attr, s0, depth+1):
                    if o[0] in ('fall','return'): nxt.append((o[1], l0+arglabel+tuple(x for x in o[2]), True))
                    else: outs.append(('raise',o[1],o[2],l0+arglabel+tuple(o[3]),o[4]))
            cur=nxt
        outs += [(final,)+c for c in cur]
        return outs
def analyse(path, clsname):
    t=ast.parse(open(path).read())
    cls=[c for c in ast.walk(t) if isinstance(c,ast.ClassDef) and c.name==clsname][0]
    ex=Extract(cls)
    init=None
    for s in ast.walk(ex.methods['__init__']):
        if isinstance(s, ast.Assign) and isinstance(s.targets[0], ast.Attribute) and s.targets[0].attr=='_next':
            init=const_names(s.value)
    pub=[m for m in ex.methods if m in ('update','encrypt','decrypt','digest','verify','encrypt_and_digest','decrypt_and_verify')]
    seen={init}; work=[init]; trans={}
    while work:
        st=work.pop()
        for m in pub:
            outs=ex.run_method(m, st)
            summary=set()
            for o in outs:
                if o[0]=='raise':
                    # only report raises that occur with no unknown path conditions before (FSM refusal) or label them
                    summary.add(('raise '+o[1], None, 'effects-before' if o[4] else 'clean', tuple(c for c,_ in o[3])[:2]))
                else:
                    ns=o[1]
                    summary.add(('->', tuple(sorted(ns)) if ns!='UNKNOWN' else ns, '', tuple((c,v) for c,v in o[2] if 'None' in c and 'output' not in c)[:2]))
                    if ns not in seen and ns!='UNKNOWN': seen.add(ns); work.append(ns)
            trans[(tuple(sorted(st)),m)]=summary
    print("=====",clsname,"init",sorted(init),"states",len(seen))
    for (st,m),summ in sorted(trans.items()):
        # collapse: FSM refusals = raise TypeError clean with no conds
        ref=[x for x in summ if x[0]=='raise TypeError' and x[2]=='clean' and not x[3]]
        oks=sorted(set((x[1],x[3]) for x in summ if x[0]=='->'), key=str)
        others=sorted(set((x[0],x[2]) for x in summ if x[0].startswith('raise') and x not in ref))
        print("  ", ','.join(st), "--%s-->"%m, "REFUSED(TypeError)" if ref and not oks else oks, ("| "+str(others)) if others else "")
for p,c in [('Cipher/_mode_gcm.py','GcmMode'),('Cipher/_mode_ocb.py','OcbMode'),('Cipher/_mode_cbc.py','CbcMode'),('Cipher/ChaCha20_Poly1305.py','ChaCha20Poly1305Cipher')]:
    analyse(p,c)
