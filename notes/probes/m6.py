import json
d=json.load(open('/tmp/cbc.json'))
def find_fn(name):
    for k in d['inner']:
        if k['kind']=='FunctionDecl' and k.get('name')==name and any(i.get('kind')=='CompoundStmt' for i in k.get('inner',[])): return k
def walk(n):
    yield n
    for c in n.get('inner',[]) or []:
        if isinstance(c,dict): yield from walk(c)
def refs(n):
    return [x['referencedDecl']['name'] for x in walk(n) if x.get('kind')=='DeclRefExpr' and 'referencedDecl' in x]
def events(stmt, line=[0]):
    """yield (kind, detail) in source order for a loop body"""
    out=[]
    def visit(n):
        k=n.get('kind')
        if 'line' in n.get('range',{}).get('begin',{}): line[0]=n['range']['begin']['line']
        if k=='CallExpr':
            callee=n['inner'][0]; args=n['inner'][1:]
            cname=' '.join(refs(callee)) or 'indirect'
            mem=[x.get('name') for x in walk(callee) if x.get('kind')=='MemberExpr']
            if mem: cname='->'.join(reversed(mem))
            argrefs=[refs(a) for a in args]
            out.append((line[0],'call',cname,argrefs)); return
        if k=='BinaryOperator' and n.get('opcode') in ('=','^=','|=','+=') :
            lhs,rhs=n['inner']
            out.append((line[0],'assign', refs(lhs), refs(rhs))); return
        for c in n.get('inner',[]) or []:
            if isinstance(c,dict): visit(c)
    visit(stmt); return out
for fn in ('CBC_encrypt','CBC_decrypt'):
    f=find_fn(fn)
    body=[i for i in f['inner'] if i['kind']=='CompoundStmt'][0]
    loops=[x for x in walk(body) if x.get('kind') in ('WhileStmt','ForStmt')]
    outer=loops[0]
    print("==",fn,"loop cond refs:", refs(outer['inner'][0]))
    for e in events(outer['inner'][-1]): print("   ",e)
