"""Prototype of rule X2: definite str/bytes/instance confusion in '+' and '%'."""
import ast, glob
files = sorted(f for f in glob.glob('**/*.py', recursive=True) if not f.startswith('SelfTest'))
BYTES_FUNCS={'tobytes','bchr','bstr','long_to_bytes','a2b_base64','unhexlify','hexlify','b2a_base64','get_random_bytes','_copy_bytes','pack'}
STR_FUNCS={'tostr','str','hex','repr','format'}
def infer(e, env):
    if isinstance(e, ast.Constant):
        return {bytes:'bytes',str:'str',int:'int'}.get(type(e.value))
    if isinstance(e, ast.JoinedStr): return 'str'
    if isinstance(e, ast.Name): return env.get(e.id)
    if isinstance(e, ast.BinOp) and isinstance(e.op, ast.Mod) and infer(e.left,env)=='str': return 'str'
    if isinstance(e, ast.BinOp) and isinstance(e.op, ast.Add):
        l,r=infer(e.left,env),infer(e.right,env)
        if l==r: return l
        return None
    if isinstance(e, ast.Call):
        fn = e.func.attr if isinstance(e.func, ast.Attribute) else getattr(e.func,'id',None)
        if fn in BYTES_FUNCS: return 'bytes'
        if fn in STR_FUNCS: return 'str'
        if fn=='split' and isinstance(e.func, ast.Attribute):
            base=infer(e.func.value, env)
            if e.args and infer(e.args[0],env)=='bytes': return 'list[bytes]'
            if e.args and infer(e.args[0],env)=='str': return 'list[str]'
            if base in ('bytes','str'): return 'list[%s]'%base
        if fn=='decode' and isinstance(e.func, ast.Attribute) and isinstance(e.func.value, ast.Call) and getattr(e.func.value.func,'id','').startswith('Der'):
            return 'instance:'+e.func.value.func.id
        if fn in ('startswith',): return 'bool'
        return None
    if isinstance(e, ast.Subscript):
        b=infer(e.value, env)
        if b and b.startswith('list['): 
            return b[5:-1] if not isinstance(e.slice, ast.Slice) else b
        if b=='bytes' and isinstance(e.slice, ast.Slice): return 'bytes'
        if b=='str': return 'str'
    return None
hits=0
for f in files:
    t=ast.parse(open(f).read())
    for fn in ast.walk(t):
        if not isinstance(fn, ast.FunctionDef): continue
        env={}
        # two passes of flow-insensitive single-assignment inference
        assigns={}
        for a in ast.walk(fn):
            if isinstance(a, ast.Assign) and len(a.targets)==1 and isinstance(a.targets[0], ast.Name):
                assigns.setdefault(a.targets[0].id,[]).append(a.value)
        for _ in range(3):
            for n,vals in assigns.items():
                ts={infer(v,env) for v in vals}
                if len(ts)==1 and None not in ts: env[n]=ts.pop()
        for b in ast.walk(fn):
            if isinstance(b, ast.BinOp) and isinstance(b.op, ast.Add):
                l,r=infer(b.left,env),infer(b.right,env)
                if l and r and l!=r and {l.split(':')[0],r.split(':')[0]} & {'str','bytes'} and 'int' not in (l,r):
                    hits+=1; print(f"X2 {f}:{b.lineno} {fn.name}: {ast.unparse(b)[:80]}   [{l} + {r}]")
print("definite confusions:", hits)
