"""Prototype of the guard normaliser: condition-that-raises -> accepted set for a subject."""
import ast
NEG={ast.Lt:ast.GtE, ast.LtE:ast.Gt, ast.Gt:ast.LtE, ast.GtE:ast.Lt, ast.Eq:ast.NotEq, ast.NotEq:ast.Eq, ast.In:ast.NotIn, ast.NotIn:ast.In}
FLIP={ast.Lt:ast.Gt, ast.LtE:ast.GtE, ast.Gt:ast.Lt, ast.GtE:ast.LtE, ast.Eq:ast.Eq, ast.NotEq:ast.NotEq}
def atoms_pass(cond, negate):
    """Return DNF-ish: list of conjunctions (list of (left, op, right)) describing when NO raise happens.
       negate=True means `cond` is the raising condition."""
    # represent as ('and'|'or', [..]) trees of atoms, push negation
    def norm(n, neg):
        if isinstance(n, ast.UnaryOp) and isinstance(n.op, ast.Not): return norm(n.operand, not neg)
        if isinstance(n, ast.BoolOp):
            kind = 'and' if isinstance(n.op, ast.And) else 'or'
            if neg: kind = 'or' if kind=='and' else 'and'
            return (kind, [norm(v, neg) for v in n.values])
        if isinstance(n, ast.Compare):
            parts=[]; left=n.left
            for op,right in zip(n.ops, n.comparators):
                parts.append((left, type(op), right)); left=right
            if not neg: return ('and', [('atom',)+p for p in parts])
            return ('or', [('atom', l, NEG[o], r) for (l,o,r) in parts])
        return ('atom', n, ast.NotEq if not neg else ast.Eq, ast.Constant(False)) if False else ('opaque', ast.unparse(n), neg)
    return norm(cond, negate)
def interval(tree, subject):
    """conjunction-only intervals on subject; returns dict lo/hi or None if disjunctive"""
    lo=None; hi=None; sets=None; other=[]
    def walk(t):
        nonlocal lo,hi,sets
        if t[0]=='and':
            for x in t[1]: walk(x)
        elif t[0]=='atom':
            _,l,op,r=t
            L,R=ast.unparse(l),ast.unparse(r)
            if R==subject and L!=subject: l,r,op,L,R = r,l,FLIP.get(op,op),R,L
            if L==subject:
                if op is ast.Lt: hi=(R,False)
                elif op is ast.LtE: hi=(R,True)
                elif op is ast.Gt: lo=(R,False)
                elif op is ast.GtE: lo=(R,True)
                elif op is ast.Eq: lo=hi=(R,True)
                elif op is ast.In: sets=R
                else: other.append((L,op.__name__,R))
            else: other.append((L,op.__name__,R))
        elif t[0]=='or':
            other.append(('OR', t))
        else: other.append(t)
    walk(tree)
    return {'lo':lo,'hi':hi,'in':sets,'other':other}
tests = [
 ("s > self._order", "s"),
 ("not (0 < r_prime < self._order) or not (0 < s_prime < self._order)", "r_prime"),
 ("not (4 <= cost <= 31)", "cost"),
 ("padding_len < 1 or padding_len > min(block_size, pdata_len)", "padding_len"),
 ("mac_len not in (4, 6, 8, 10, 12, 14, 16)", "mac_len"),
 ("not (7 <= len(nonce) <= 13)", "len(nonce)"),
 ("len(nonce) not in range(1, 16)", "len(nonce)"),
 ("not 8 <= mac_len <= 16", "mac_len"),
 ("padlen < 0 or padlen > 7", "padlen"),
 ("self._msg_len > 2**39 - 256", "self._msg_len"),
 ("len(key) not in key_size", "len(key)"),
 ("e <= 1 or e >= n", "e"),
]
for c,s in tests:
    t=atoms_pass(ast.parse(c,mode='eval').body, True)
    print(f"{c!r:75} subject={s:12} -> {interval(t,s)}")
