"""Prototype of rule F (call-site wrapper vs prototype from the cdecl string)."""
import ast, glob, re
files = sorted(f for f in glob.glob('**/*.py', recursive=True) if not f.startswith('SelfTest'))
def const_str(e, env):
    if isinstance(e, ast.Constant) and isinstance(e.value,str): return e.value
    if isinstance(e, ast.Name): return env.get(e.id)
    if isinstance(e, ast.Call) and isinstance(e.func, ast.Attribute) and e.func.attr=='replace':
        b=const_str(e.func.value, env); a=[const_str(x,env) for x in e.args]
        if b is not None and None not in a: return b.replace(*a)
    return None
def parse_protos(cdecl):
    cdecl=re.sub(r'/\*.*?\*/','',cdecl,flags=re.S)
    protos={}
    for m in re.finditer(r'([\w\s\*]+?)\s*\b(\w+)\s*\(([^()]*)\)\s*;', cdecl):
        ret, name, params = m.group(1).strip(), m.group(2), m.group(3)
        if ret.startswith('typedef'): continue
        plist=[]
        for p in params.split(','):
            p=' '.join(p.split())
            if p in ('void',''): continue
            plist.append(p)
        protos[name]=(ret,plist)
    return protos
def ptype(p):
    # classify param
    if '**' in p: return 'ptrptr'
    if '*' in p or '[' in p: return 'ptr'
    t=p.rsplit(' ',1)[0] if ' ' in p else p
    if 'size_t' in t: return 'size_t'
    if 'uint64_t' in t or 'unsigned long long' in t: return 'u64'
    if 'unsigned long' in t or 'UNIX_ULONG' in t or 'mp_bitcnt_t' in t: return 'ulong'
    if 'uint8_t' in t: return 'u8'
    if 'unsigned' in t or 'int' in t: return 'int'
    return 'other:'+t
def argkind(a):
    if isinstance(a, ast.Call):
        fn = a.func.attr if isinstance(a.func, ast.Attribute) else getattr(a.func,'id',None)
        return {'c_size_t':'size_t','c_ulong':'ulong','c_ulonglong':'u64','c_ubyte':'u8','c_uint8_ptr':'ptr','get':'ptr','address_of':'ptrptr','create_string_buffer':'ptr','c_uint':'int'}.get(fn,'call:%s'%fn)
    if isinstance(a, ast.Constant): return 'int' if isinstance(a.value,int) else 'ptr' if isinstance(a.value,bytes) else 'const'
    return 'name'
ok=bad=unk=0
for f in files:
    t=ast.parse(open(f).read())
    env={}
    libs={}
    for a in ast.walk(t):
        if isinstance(a, ast.Assign) and len(a.targets)==1 and isinstance(a.targets[0], ast.Name):
            s=const_str(a.value, env)
            if s is not None: env[a.targets[0].id]=s
            v=a.value
            if isinstance(v, ast.Call) and getattr(v.func,'id',getattr(v.func,'attr',None)) in ('load_pycryptodome_raw_lib','load_lib'):
                cd=const_str(v.args[1], env)
                libs[a.targets[0].id]=parse_protos(cd) if cd else None
    for c in ast.walk(t):
        if isinstance(c, ast.Call) and isinstance(c.func, ast.Attribute) and isinstance(c.func.value, ast.Name) and c.func.value.id in libs:
            protos=libs[c.func.value.id]
            if not protos or c.func.attr not in protos: unk+=1; print("UNRESOLVED", f, c.lineno, c.func.attr); continue
            ret,pl=protos[c.func.attr]
            if len(pl)!=len(c.args): bad+=1; print("ARGCOUNT", f, c.lineno, c.func.attr, len(pl), len(c.args)); continue
            for i,(p,a) in enumerate(zip(pl,c.args)):
                pt, ak = ptype(p), argkind(a)
                good = (pt==ak) or (ak=='name' and pt in ('ptr','int','ptrptr','u8')) or (pt=='int' and ak in ('int','name','const')) or (pt=='other:core_t' )
                if good: ok+=1
                else: bad+=1; print(f"MISMATCH {f}:{c.lineno} {c.func.attr} arg{i} param '{p}' ({pt}) <- {ast.unparse(a)[:40]} ({ak})")
print("ok",ok,"bad",bad,"unresolved",unk)
