import ast, glob, sys
files = sorted(f for f in glob.glob('**/*.py', recursive=True) if not f.startswith('SelfTest'))
only = sys.argv[1:] 
def excname(r):
    e=r.exc
    if e is None: return 'reraise'
    if isinstance(e, ast.Call): e=e.func
    return ast.unparse(e)
for f in files:
    if only and not any(f.startswith(o) for o in only): continue
    t=ast.parse(open(f).read())
    # map function qualnames
    def visit(node, qual):
        for ch in ast.iter_child_nodes(node):
            if isinstance(ch,(ast.FunctionDef,ast.ClassDef)):
                q = qual+[ch.name]
                if isinstance(ch, ast.FunctionDef):
                    guards=[]
                    def walk(stmts, conds):
                        for s in stmts:
                            if isinstance(s, ast.If):
                                c=ast.unparse(s.test)
                                walk(s.body, conds+[c]); walk(s.orelse, conds+['not('+c+')'])
                            elif isinstance(s, ast.Raise):
                                guards.append((s.lineno, excname(s), conds[-2:] if conds else ['<unconditional>']))
                            elif isinstance(s, ast.Try):
                                walk(s.body, conds)
                                for h in s.handlers:
                                    walk(h.body, conds+['except '+(ast.unparse(h.type) if h.type else '*')])
                                walk(s.orelse, conds); walk(s.finalbody, conds)
                            elif isinstance(s,(ast.For,ast.While,ast.With)):
                                walk(s.body, conds+(['while '+ast.unparse(s.test)] if isinstance(s,ast.While) else []))
                                walk(getattr(s,'orelse',[]), conds)
                            elif isinstance(s,(ast.FunctionDef,ast.ClassDef)):
                                pass
                    walk(ch.body, [])
                    if guards:
                        print(f"## {f}::{'.'.join(q)}")
                        for ln,e,c in guards:
                            print(f"   {ln:4d} {e:28s} <= {' && '.join(x[:90] for x in c)}")
                visit(ch, q)
    visit(t, [])
