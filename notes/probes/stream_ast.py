import subprocess, sys, re, json, time
BASE = "-DHAVE_STDINT_H -DPYCRYPTO_LITTLE_ENDIAN -DSYS_BITS=64 -DLTC_NO_ASM -DHAVE_UINT128 -DHAVE_CPUID_H -DHAVE_POSIX_MEMALIGN -DHAVE_X86INTRIN_H -DUSE_SSE2 -msse2 -Isrc -Isrc/libtom".split()
src = sys.argv[1]
t=time.time()
p = subprocess.Popen(['clang','-Xclang','-ast-dump=json','-fsyntax-only']+BASE+sys.argv[2:]+[src], stdout=subprocess.PIPE, text=True, bufsize=1<<20)
file_re = re.compile(r'"file": "([^"]*)"')
cur_file = None
chunk = []
depth_open = '    {'   # top-level decl opening (indent 4)
kept = []
nchunks = 0
in_chunk = False
start_file = None
for line in p.stdout:
    if not in_chunk:
        if line.startswith('    {') and line.rstrip() == '    {':
            in_chunk = True; chunk=[line]; start_file = cur_file; first_file=None
        continue
    chunk.append(line)
    if '"file"' in line:
        m = file_re.search(line)
        if m:
            if first_file is None: first_file = (m.group(1), len(chunk))
            cur_file = m.group(1)
    if line.startswith('    }') and line.rstrip() in ('    }','    },'):
        in_chunk=False; nchunks+=1
        # decl's own file: if a "file" key appears within first ~12 lines (loc), else inherited
        own = first_file[0] if (first_file and first_file[1] <= 12) else start_file
        if own and (own.startswith('src/') or '/repo/src' in own):
            txt = ''.join(chunk).rstrip().rstrip(',')
            kept.append((own, json.loads(txt)))
p.wait()
print("chunks", nchunks, "kept", len(kept), "t=%.1f"%(time.time()-t))
from collections import Counter
print(Counter((f,k['kind']) for f,k in kept).most_common(12))
fn = [k for f,k in kept if k['kind']=='FunctionDecl' and any(i.get('kind')=='CompoundStmt' for i in k.get('inner',[]))]
print(len(fn), [ (k['name'], k.get('storageClass')) for k in fn][:40])
