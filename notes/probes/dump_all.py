import ast, subprocess, sys, os, time, json, concurrent.futures as cf
src = open('setup.py').read()
tree = ast.parse(src)
exts = []
for n in ast.walk(tree):
    if isinstance(n, ast.Call) and getattr(n.func,'id',None)=='Extension':
        name = n.args[0].value
        kw = {k.arg: ast.literal_eval(k.value) for k in n.keywords}
        exts.append((name, kw.get('sources'), kw.get('include_dirs',[])))
print(len(exts), "extensions")
BASE = "-DHAVE_STDINT_H -DPYCRYPTO_LITTLE_ENDIAN -DSYS_BITS=64 -DLTC_NO_ASM -DHAVE_UINT128 -DHAVE_CPUID_H -DHAVE_POSIX_MEMALIGN -DHAVE_X86INTRIN_H -DUSE_SSE2 -msse2".split()
def run(e):
    name, sources, inc = e
    out = []
    for s in sources:
        flags = list(BASE) + ['-I'+i for i in inc]
        if name.endswith('_raw_aesni'): flags += ['-maes']
        if name.endswith('_ghash_clmul'): flags += ['-mpclmul','-mssse3','-DHAVE_WMMINTRIN_H','-DHAVE_TMMINTRIN_H']
        t=time.time()
        p = subprocess.run(['clang','-Xclang','-ast-dump=json','-fsyntax-only']+flags+[s], capture_output=True)
        out.append((name, s, p.returncode, len(p.stdout), time.time()-t, p.stderr.decode()[:300]))
    return out
t0=time.time()
with cf.ThreadPoolExecutor(16) as ex:
    for res in ex.map(run, exts):
        for r in res:
            print(r[0], r[1], "rc=%d size=%.1fMB t=%.1fs"%(r[2], r[3]/1e6, r[4]), r[5].replace('\n',' ')[:150])
print("total", time.time()-t0)
