"""Rule V — shape of a tag comparison, and rule D — must-pass-through.

V decides, for a `verify`-like entry point E with received-tag parameter p:
 (a) E reaches (itself or through a delegation chain of resolved callees that
     receive p whole) one comparison C whose failing edge raises ValueError;
 (b) one operand of C is data-dependent on p through *non-narrowing* wrappers
     only (keyed digest constructor, .digest(), unhexlify/tobytes/bytes/copy,
     concatenation with a locally drawn random secret) — no slice, index, zip,
     min, startswith, len;
 (c) the other operand is data-dependent on the object's expected tag
     (a `self` attribute or `self` method result) through the same kind of
     wrappers, not narrowed in this function;
 (d) if both operands are wrapped, the wrappers are the same construction
     (same callee, same keywords, same key expression);
 (e) rule D: on every path of E to a normal exit the passing edge of C was
     taken (computed by the abstract interpreter with every input Unknown).
"""
import ast

from .absint import Interp
from .absstate import State
from .absval import UNK, ABytes
from .core import AnalysisError
from .pydb import norm, params_of, raise_class, walk_no_nested
from .pyflow import local_defs, paths_to, roots

COPY_CALLS = ("unhexlify", "tobytes", "bytes", "bytearray", "memoryview",
              "_copy_bytes", "a2b_hex", "get_raw_buffer")


def _resolve_callee(repo, mod, fn, call):
    """Resolve self.m(...) / f(...) to (Module, FunctionDef) or None."""
    f = call.func
    if isinstance(f, ast.Attribute) and isinstance(f.value, ast.Name) and \
            f.value.id == "self":
        cq = fn._qualname.rsplit(".", 1)[0] if "." in fn._qualname else None
        if cq and cq in mod.classes:
            r = repo.find_method(mod, mod.classes[cq], f.attr)
            if r:
                return r
    if isinstance(f, ast.Name):
        r = repo.resolve_symbol(mod, f.id)
        if r and r[0] == "func":
            return r[1], r[2]
    return None


def _is_copy_wrapper(call, inner):
    """call(...inner...) is a whole-value copy/decoding wrapper."""
    name = norm(call.func).split(".")[-1]
    if name not in COPY_CALLS:
        return False
    if name == "_copy_bytes":
        if len(call.args) == 3 and call.args[2] is inner:
            return all(isinstance(a, ast.Constant) and a.value is None
                       for a in call.args[:2])
        return False
    return bool(call.args) and call.args[0] is inner


def find_compare(repo, mod, fn, param, depth=0):
    """Locate the deciding comparison for parameter `param` of `fn`.
    Returns (Module, FunctionDef, param, If-node, Compare-node, chain) where
    chain lists the delegation steps."""
    defs = local_defs(fn)
    cands = []
    for n in walk_no_nested(fn):
        if not isinstance(n, ast.If):
            continue
        cmp_ = n.test
        neg = False
        if isinstance(cmp_, ast.UnaryOp) and isinstance(cmp_.op, ast.Not):
            cmp_ = cmp_.operand
            neg = True
        if not (isinstance(cmp_, ast.Compare) and len(cmp_.ops) == 1 and
                isinstance(cmp_.ops[0], (ast.Eq, ast.NotEq))):
            continue
        r = roots(cmp_, fn, defs)
        if ("param:" + param) not in r:
            continue
        cands.append((n, cmp_, neg))
    if cands:
        return mod, fn, param, cands, []
    if depth >= 3:
        return None
    # delegation: a call that passes `param` whole to a resolved callee
    for n in walk_no_nested(fn):
        if not isinstance(n, ast.Call):
            continue
        for idx, a in enumerate(n.args):
            inner = a
            ok = True
            while isinstance(inner, ast.Call):
                if inner.args and _is_copy_wrapper(inner, inner.args[0]):
                    inner = inner.args[0]
                elif len(inner.args) == 3 and _is_copy_wrapper(inner, inner.args[2]):
                    inner = inner.args[2]
                else:
                    ok = False
                    break
            if not ok or not (isinstance(inner, ast.Name) and inner.id == param):
                continue
            r = _resolve_callee(repo, mod, fn, n)
            if r is None:
                continue
            m2, f2 = r
            ps = params_of(f2)
            off = 1 if ps and ps[0] in ("self", "cls") else 0
            if idx + off >= len(ps):
                continue
            sub = find_compare(repo, m2, f2, ps[idx + off], depth + 1)
            if sub is not None:
                return sub[0], sub[1], sub[2], sub[3], [fn._qualname] + sub[4]
    return None


def _path_ok(path, secret_names, fn, defs):
    """Check that a data path (top..leaf) contains only non-narrowing
    wrappers.  Returns (ok, offending node text)."""
    for i in range(len(path) - 1):
        node, child = path[i], path[i + 1]
        if isinstance(node, tuple):
            return False, "opaque binding (%s)" % node[1]
        if isinstance(child, tuple):
            continue
        if isinstance(node, ast.Name):
            continue
        if isinstance(node, ast.Call):
            if child is node.func:
                # x.digest() where child = Attribute(x, 'digest')
                if isinstance(child, ast.Attribute) and child.attr in (
                        "digest", "tobytes", "new") and not node.args:
                    continue
                if isinstance(child, ast.Attribute) and child.attr == "digest":
                    continue
                return False, norm(node)
            name = norm(node.func).split(".")[-1]
            if name == "new":
                # keyed/unkeyed digest constructor: data flows in whole
                if child in node.args or any(k.value is child for k in node.keywords):
                    continue
            if name in COPY_CALLS:
                if name == "_copy_bytes":
                    if _is_copy_wrapper(node, child):
                        continue
                    return False, norm(node)
                if node.args and node.args[0] is child:
                    continue
            return False, norm(node)
        if isinstance(node, ast.Attribute):
            # the method part of x.digest(): handled with the Call above
            if node.attr in ("digest",):
                continue
            return False, norm(node)
        if isinstance(node, ast.keyword):
            continue
        if isinstance(node, ast.BinOp) and isinstance(node.op, ast.Add):
            other = node.right if child is node.left else node.left
            if isinstance(other, ast.Name) and other.id in secret_names:
                continue
            return False, norm(node)
        return False, norm(node) if isinstance(node, ast.AST) else str(node)
    return True, ""


def _secret_names(fn, defs):
    out = set()
    for name, ds in defs.items():
        if len(ds) == 1 and isinstance(ds[0], ast.Call) and \
                norm(ds[0].func).split(".")[-1] in ("get_random_bytes", "urandom"):
            out.add(name)
    return out


def _wrapper_shape(expr, fn, defs, leaf_pred):
    """Normalised text of the wrapper chain around the data leaf: the
    expression with the data path replaced by a placeholder."""
    paths = paths_to(expr, leaf_pred, fn, defs)
    if not paths:
        return None
    p = paths[0]
    # expand names along the path so that mac1/mac2 locals disappear
    repl = {}
    leaf = p[-1]

    def rebuild(i):
        node = p[i]
        if i == len(p) - 1:
            return "<DATA>"
        if isinstance(node, tuple):
            return rebuild(i + 1)
        if isinstance(node, ast.Name):
            return rebuild(i + 1)
        nxt = p[i + 1]
        j = i + 1
        txt = norm(node)
        if isinstance(nxt, tuple):
            return txt
        sub = norm(nxt)
        inner = rebuild(i + 1)
        return txt.replace(sub, inner, 1)
    return rebuild(0)


def check_verify(check, repo, modname, qual, param, expected_roots,
                 keyprefix="V", expected_locals=()):
    """Rule V for one verify-like entry point."""
    mod = repo.module(modname)
    fn = repo.func(mod, qual)
    key = "%s|%s.%s" % (keyprefix, mod.name.split(".")[-1], qual)
    if param not in params_of(fn):
        raise AnalysisError("anchor vanished: parameter %s of %s.%s" %
                            (param, mod.name, qual))
    found = find_compare(repo, mod, fn, param)
    if found is None:
        check.ob("V", key + "|compare", False, mod.path, fn.lineno,
                 extracted="no ==/!= comparison depends on parameter %r in %s "
                           "or in the callees it hands it to" % (param, qual),
                 expected="received tag compared with the expected tag, "
                          "ValueError on mismatch")
        return None
    m2, f2, p2, cands, chain = found
    defs = local_defs(f2)
    secrets = _secret_names(f2, defs)
    # the mismatch edge of the comparison must lead to ValueError on every
    # path and to no normal exit (decided on the interpreted function)
    it = Interp(repo, max_depth=3)
    st0 = State()
    me = None
    ps2 = params_of(f2)
    if ps2 and ps2[0] == "self" and "." in f2._qualname:
        me = it.new_obj(st0, m2, m2.classes.get(f2._qualname.rsplit(".", 1)[0]),
                        havoc=True)
    res = it.run(m2, f2, {}, self_obj=me, state=st0)
    chosen = None
    report = None
    for (ifn, cmp_, neg) in cands:
        is_ne = isinstance(cmp_.ops[0], ast.NotEq) != neg
        label = "%s@%d:%d" % (m2.name, ifn.lineno, ifn.col_offset)
        mism = ("T:" if is_ne else "F:") + label
        rets = [o for o in res.returns() if mism in o.must]
        rais = [o for o in res.raises() if mism in o.must]
        badc = [o.exc for o in rais if "ValueError" not in it.exc_mro(o.exc, m2)]
        report = (ifn, cmp_, is_ne, rets, rais, badc)
        if rais and not rets and not badc:
            chosen = (ifn, cmp_, is_ne)
            break
    ifn, cmp_, is_ne, rets, rais, badc = report
    check.ob("V", key + "|raise", chosen is not None, m2.path, ifn.lineno,
             extracted="mismatch edge of `%s`: %d normal exits, raises %s" % (
                 norm(ifn.test), len(rets),
                 ",".join(sorted(set(o.exc for o in rais))) or "nothing"),
             expected="the mismatch edge always raises ValueError and never "
                      "reaches a normal exit")
    if chosen is None:
        return None
    ifn, cmp_, is_ne = chosen
    left, right = cmp_.left, cmp_.comparators[0]

    def is_param(n):
        return isinstance(n, ast.Name) and n.id == p2 and p2 not in defs

    def is_param_any(n):
        return isinstance(n, ast.Name) and n.id == p2

    lp = paths_to(left, is_param_any, f2, defs)
    rp = paths_to(right, is_param_any, f2, defs)
    if lp and rp and expected_locals:
        # the expected value is itself computed from parts of the received
        # one (salt, cost): the received side is the one that does not pass
        # through the named expected local
        def via_expected(paths):
            return any(isinstance(x, ast.Name) and x.id in expected_locals
                       for p in paths for x in p if not isinstance(x, tuple))
        if via_expected(lp) and not via_expected(rp):
            lp = []
        elif via_expected(rp) and not via_expected(lp):
            rp = []
    if lp and rp:
        check.ob("V", key + "|received", False, m2.path, cmp_.lineno,
                 extracted="both operands of `%s` depend on %s" % (norm(cmp_), p2),
                 expected="received tag on one side, expected tag on the other")
        return None
    recv, exp_side = (left, right) if lp else (right, left)
    rpaths = lp or rp
    # (b) received side: whole value
    bad = None
    for p in rpaths:
        okp, off = _path_ok(p, secrets, f2, defs)
        if not okp:
            bad = off
            break
    check.ob("V", key + "|received", bad is None, m2.path, cmp_.lineno,
             extracted=("received tag reaches `%s` through %s" % (
                 norm(cmp_), "non-narrowing wrappers only" if bad is None
                 else "a narrowing/opaque step: `%s`" % bad)),
             expected="the whole received tag is compared (no slice/index/"
                      "min/zip/startswith)")

    # (c) expected side
    def is_expected(n):
        if isinstance(n, ast.Attribute) and isinstance(n.value, ast.Name) and \
                n.value.id == "self" and n.attr in expected_roots:
            return True
        if isinstance(n, ast.Name) and n.id in expected_locals and \
                isinstance(n.ctx, ast.Load):
            return True
        return False

    epaths = paths_to(exp_side, is_expected, f2, defs)
    bad = None
    if not epaths:
        bad = "no dependency on self.{%s}" % ",".join(sorted(expected_roots))
    else:
        for p in epaths:
            # the leaf may be the func of a call: self.digest()
            okp, off = _path_ok(p[:-1] + [p[-1]], secrets, f2, defs) \
                if not (len(p) >= 2 and isinstance(p[-2], ast.Call) and
                        p[-2].func is p[-1]) else _path_ok(p[:-1], secrets, f2, defs)
            if not okp:
                bad = off
                break
    check.ob("V", key + "|expected", bad is None, m2.path, cmp_.lineno,
             extracted=("expected side of `%s`: %s" % (
                 norm(cmp_), "whole expected tag" if bad is None else bad)),
             expected="depends on the object's full expected tag (%s), "
                      "not narrowed here" % ",".join(sorted(expected_roots)))
    # (d) wrapper symmetry
    s1 = _wrapper_shape(recv, f2, defs, is_param_any)
    s2 = _wrapper_shape(exp_side, f2, defs, lambda n: is_expected(n) or (
        isinstance(n, ast.Call) and is_expected(n.func)))
    if s1 is not None and s2 is not None:
        check.ob("V", key + "|symmetry", s1 == s2, m2.path, cmp_.lineno,
                 extracted="received: %s ; expected: %s" % (s1, s2),
                 expected="both tags wrapped by the same construction "
                          "(same digest, same key)")
    label = "%s@%d:%d" % (m2.name, ifn.lineno, ifn.col_offset)
    pass_label = ("F:" if is_ne else "T:") + label
    return {"label": pass_label, "mod": m2, "fn": f2, "if": ifn,
            "chain": chain}


def check_dominates(check, repo, modname, qual, pass_label, key, what,
                    self_cls=None, args=None, max_depth=4, rule="D"):
    """Rule D: every normal exit of `qual` has passed `pass_label`."""
    mod = repo.module(modname)
    fn = repo.func(mod, qual)
    it = Interp(repo, max_depth=max_depth)
    st = State()
    me = None
    ps = params_of(fn)
    if ps and ps[0] == "self":
        cq = qual.rsplit(".", 1)[0]
        me = it.new_obj(st, mod, mod.classes.get(cq), havoc=True)
    res = it.run(mod, fn, args or {}, self_obj=me, state=st)
    rets = res.returns()
    bad = [o for o in rets if pass_label not in o.must]
    ok = bool(rets) and not bad
    check.ob(rule, key, ok, mod.path, fn.lineno,
             extracted=("%d normal exits, %d of them reachable without %s%s" % (
                 len(rets), len(bad), what,
                 "" if not bad else " (exit at line %s)" % getattr(
                     bad[0].node, "lineno", "?"))),
             expected="every path to a normal exit passes %s" % what)
    return ok


def find_tests(fn, need_roots):
    """If-nodes of `fn` whose test depends on all `need_roots` (root
    descriptors of pyflow.roots; 'call:' entries match by suffix)."""
    defs = local_defs(fn)
    out = []
    for n in walk_no_nested(fn):
        if not isinstance(n, ast.If):
            continue
        r = roots(n.test, fn, defs)
        ok = True
        for want in need_roots:
            if want.startswith("call:"):
                if not any(x.startswith("call:") and x.endswith(want[5:]) for x in r):
                    ok = False
            elif want.endswith("*"):
                if not any(x.startswith(want[:-1]) for x in r):
                    ok = False
            elif want not in r:
                ok = False
        if ok:
            out.append(n)
    out.sort(key=lambda n: n.lineno)
    return out


def check_decisive_test(check, repo, modname, qual, need_roots, key, what,
                        args=None, self_attrs=None, exc="ValueError",
                        entry=None, max_depth=4, rule="D", pick="last",
                        self_cls=None, whole_names=()):
    """The decisive test of a verify-like function: an `if` whose test
    depends on `need_roots`; one of its edges always raises `exc` and never
    reaches a normal exit (the failing edge); every normal exit of `entry`
    (default: the function itself) has taken the other edge."""
    mod = repo.module(modname)
    fn = repo.func(mod, qual)
    cands = find_tests(fn, need_roots)
    if not cands:
        check.ob(rule, key, False, mod.path, fn.lineno,
                 extracted="no test in %s depends on %s" % (qual, ", ".join(need_roots)),
                 expected=what)
        return None
    emod, efn = mod, fn
    if entry is not None:
        emod = repo.module(entry[0])
        efn = repo.func(emod, entry[1])
    it = Interp(repo, max_depth=max_depth)
    st = State()
    me = None
    ps = params_of(efn)
    from .rules_g import realise
    memo = {}
    if ps and ps[0] == "self" and "." in efn._qualname:
        if self_cls is not None:
            cm = repo.module(self_cls[0])
            me = it.new_obj(st, cm, repo.cls(cm, self_cls[1]), havoc=True)
        else:
            me = it.new_obj(st, emod, emod.classes.get(efn._qualname.rsplit(".", 1)[0]),
                            havoc=True)
        for k, v in (self_attrs or {}).items():
            st.heap[me.ident][k] = realise(v, it, st, memo)
    rargs = dict((k, realise(v, it, st, memo)) for k, v in (args or {}).items())
    res = it.run(emod, efn, rargs, self_obj=me, state=st)
    order = list(reversed(cands)) if pick == "last" else cands
    verdict = None
    for ifn in order:
        label = "%s@%d:%d" % (mod.name, ifn.lineno, ifn.col_offset)
        for fail, passed in (("T:", "F:"), ("F:", "T:")):
            rets_fail = [o for o in res.returns() if fail + label in o.must]
            rais_fail = [o for o in res.raises() if fail + label in o.must]
            if rais_fail and not rets_fail and all(
                    exc in it.exc_mro(o.exc, mod) for o in rais_fail):
                rets = res.returns()
                bad = [o for o in rets if passed + label not in o.must]
                verdict = (ifn, rets, bad)
                break
        if verdict:
            break
    if verdict is None:
        ifn = order[0]
        check.ob(rule, key, False, mod.path, ifn.lineno,
                 extracted="no edge of `%s` always raises %s" % (norm(ifn.test), exc),
                 expected=what)
        return None
    ifn, rets, bad = verdict
    # operands named in `whole_names` must be compared whole (no slice,
    # index or call around them inside the decisive test)
    for nm in whole_names:
        hit = 0
        for x in ast.walk(ifn.test):
            if isinstance(x, ast.Name) and x.id == nm:
                hit += 1
                par = getattr(x, "_parent", None)
                okp = True
                while par is not None and par is not ifn:
                    if not isinstance(par, (ast.Compare, ast.BoolOp, ast.UnaryOp)):
                        okp = False
                        break
                    par = getattr(par, "_parent", None)
                check.ob(rule, key + "|whole:" + nm, okp, mod.path, ifn.lineno,
                         extracted="`%s` in the decisive test `%s`" % (nm, norm(ifn.test)),
                         expected="`%s` takes part in the comparison as a whole value" % nm)
        if not hit:
            check.ob(rule, key + "|whole:" + nm, False, mod.path, ifn.lineno,
                     extracted="`%s` does not occur in the decisive test `%s`" % (nm, norm(ifn.test)),
                     expected="`%s` is what the decisive test compares" % nm)
    ok = bool(rets) and not bad
    check.ob(rule, key, ok, mod.path, ifn.lineno,
             extracted="decisive test `%s`: %d normal exits of %s, %d reachable "
                       "without its passing edge%s" % (
                           norm(ifn.test), len(rets), efn.name, len(bad),
                           "" if not bad else " (exit at line %s)" % getattr(bad[0].node, "lineno", "?")),
             expected=what)
    return ifn
