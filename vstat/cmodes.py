"""Harness for the native block-cipher mode loops (raw_*.c) on the C evaluator.

The block cipher behind a mode is replaced by an *uninterpreted injective
function*: E(block) is a block of fresh atoms named after the (symbolic) input
block, D(E(x)) = x.  Plaintext/ciphertext bytes are atoms too.  The mode loop is
then interpreted for a given geometry (block length, segment size, counter
layout, chunking of the data) and its output, a list of XOR-terms, is compared
with the mode's definition (SP 800-38A) written here over the same terms.  One
row therefore covers every key and every data value for that geometry; lengths,
chunkings and counter start values are enumerated by the rule.
"""
from .ceval import Machine, P, FRef, S, NULL, CError, Undecided, bxor, CT, resolve


class Cipher(object):
    """Uninterpreted block cipher installed in a Machine as a BlockBase."""

    def __init__(self, m, block_len, tag="E"):
        self.m = m
        self.block_len = block_len
        self.tag = tag
        self.calls = []         # (direction, [input blocks])
        self.destroyed = 0
        bb = resolve(m.tu.parse("BlockBase"))
        self.p = m.alloc(bb.size, "BlockBase", "heap", init=0)
        names = {"encrypt": "!enc", "decrypt": "!dec", "destructor": "!destroy"}
        for f, (off, ft) in bb.fields.items():
            if f in names:
                m.store(P(self.p.obj, off), ft, FRef(names[f]))
            elif f == "block_len":
                m.store(P(self.p.obj, off), ft, block_len)
        m.models["!enc"] = lambda mm, a: self._op(mm, a, "E")
        m.models["!dec"] = lambda mm, a: self._op(mm, a, "D")
        m.models["!destroy"] = self._destroy

    def _destroy(self, mm, a):
        self.destroyed += 1
        return 0

    def E(self, block):
        return [S(frozenset([(self.tag, tuple(block), k)])) for k in range(self.block_len)]

    def D(self, block):
        # D(E(x)) = x
        if all(isinstance(c, S) and len(c.atoms) == 1 and c.c == 0 for c in block):
            ats = [next(iter(c.atoms)) for c in block]
            if all(isinstance(a, tuple) and len(a) == 3 and a[0] == self.tag and a[1] == ats[0][1] and a[2] == k
                   for k, a in enumerate(ats)):
                return list(ats[0][1])
        return [S(frozenset([(self.tag + "^-1", tuple(block), k)])) for k in range(self.block_len)]

    def _op(self, mm, a, d):
        state, src, dst, n = a
        if not isinstance(n, int):
            raise CError("cipher-contract", "block cipher called with a length of %r" % (n,), mm.line)
        if state != self.p:
            raise CError("cipher-contract", "block cipher called with a foreign state pointer", mm.line)
        blocks = []
        out = []
        # block_common.c: whole blocks are processed, a trailing partial block gives ERR_NOT_ENOUGH_DATA
        for i in range(0, n - n % self.block_len, self.block_len):
            blk = mm.read_cells(P(src.obj, src.off + i), self.block_len)
            if any(c is None for c in blk):
                raise CError("uninit-read", "block cipher input contains uninitialised bytes", mm.line)
            blocks.append(blk)
            out.extend(self.E(blk) if d == "E" else self.D(blk))
        self.calls.append((d, blocks))
        mm.write_cells(dst, out)
        return 3 if n % self.block_len else 0


def atoms(prefix, n):
    return [S(frozenset([(prefix, i)])) for i in range(n)]


def xor_cells(a, b):
    return [bxor(x, y) for x, y in zip(a, b)]


def start(m, fname, args_before_result):
    """Call X_start_operation(..., &result) and return (code, state pointer)."""
    pp = m.alloc(8, "pResult", "heap", init=0)
    rc = m.call(fname, list(args_before_result) + [pp])
    st = m.load(pp, CT("ptr", 8, to=CT("void")))
    return rc, st


def transcrypt(m, fname, state, data, chunks, out_alias=False):
    """Feed `data` (cells) in pieces of the given sizes; returns (codes, output cells)."""
    out = []
    codes = []
    pos = 0
    for n in chunks:
        piece = data[pos:pos + n]
        pos += n
        src = m.alloc_bytes(list(piece), "in", "heap") if n else m.alloc(1, "in", "heap", init=0)
        dst = src if out_alias else (m.alloc(n, "out", "heap", init=None) if n else m.alloc(1, "out", "heap", init=0))
        rc = m.call(fname, [state, src, dst, n])
        codes.append(rc)
        if rc == 0:
            out.extend(m.read_cells(dst, n))
        else:
            break
    return codes, out


# ---------------------------------------------------------------------------
# reference definitions over the same term algebra
# ---------------------------------------------------------------------------
def ref_ctr(cipher, block0, prefix_len, counter_len, little, data):
    bl = cipher.block_len
    out = []
    ctr0 = int.from_bytes(bytes(block0[prefix_len:prefix_len + counter_len]), "little" if little else "big")
    for i in range(0, len(data), bl):
        c = (ctr0 + i // bl) % (256 ** counter_len)
        blk = list(block0[:prefix_len]) + list(c.to_bytes(counter_len, "little" if little else "big")) + \
            list(block0[prefix_len + counter_len:])
        ks = cipher.E(blk)
        out.extend(xor_cells(data[i:i + bl], ks))
    return out


def ref_cfb(cipher, iv, seg, data, decrypt):
    bl = cipher.block_len
    reg = list(iv)
    out = []
    for i in range(0, len(data), seg):
        ks = cipher.E(reg)
        piece = data[i:i + seg]
        o = xor_cells(piece, ks[:len(piece)])
        out.extend(o)
        ct = piece if decrypt else o
        if len(ct) == seg:
            reg = reg[seg:] + list(ct)
    return out


def ref_ofb(cipher, iv, data):
    bl = cipher.block_len
    reg = list(iv)
    out = []
    for i in range(0, len(data), bl):
        reg = cipher.E(reg)
        out.extend(xor_cells(data[i:i + bl], reg))
    return out


def ref_cbc(cipher, iv, data, decrypt):
    bl = cipher.block_len
    prev = list(iv)
    out = []
    for i in range(0, len(data), bl):
        blk = data[i:i + bl]
        if decrypt:
            out.extend(xor_cells(cipher.D(blk), prev))
            prev = blk
        else:
            c = cipher.E(xor_cells(blk, prev))
            out.extend(c)
            prev = c
    return out


def ref_ecb(cipher, data, decrypt):
    bl = cipher.block_len
    out = []
    for i in range(0, len(data), bl):
        out.extend(cipher.D(data[i:i + bl]) if decrypt else cipher.E(data[i:i + bl]))
    return out
