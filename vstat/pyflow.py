"""Local def-use helpers (flow-insensitive, per function)."""
import ast

from .pydb import walk_no_nested, params_of, norm


def local_defs(fn):
    """name -> list of value nodes assigned to it inside fn (None for
    loop/with/except targets and augmented assignments = opaque)."""
    defs = {}
    for n in walk_no_nested(fn):
        if isinstance(n, ast.Assign):
            for t in n.targets:
                _bind(t, n.value, defs)
        elif isinstance(n, ast.AnnAssign) and n.value is not None:
            _bind(n.target, n.value, defs)
        elif isinstance(n, ast.AugAssign):
            if isinstance(n.target, ast.Name):
                defs.setdefault(n.target.id, []).append(("aug", n))
        elif isinstance(n, (ast.For, ast.comprehension)):
            for x in ast.walk(n.target):
                if isinstance(x, ast.Name):
                    defs.setdefault(x.id, []).append(("iter", n.iter))
        elif isinstance(n, ast.With):
            for it in n.items:
                if it.optional_vars is not None:
                    for x in ast.walk(it.optional_vars):
                        if isinstance(x, ast.Name):
                            defs.setdefault(x.id, []).append(("with", it.context_expr))
        elif isinstance(n, ast.NamedExpr):
            defs.setdefault(n.target.id, []).append(n.value)
    return defs


def _bind(t, value, defs):
    if isinstance(t, ast.Name):
        defs.setdefault(t.id, []).append(value)
    elif isinstance(t, (ast.Tuple, ast.List)):
        if isinstance(value, (ast.Tuple, ast.List)) and len(value.elts) == len(t.elts):
            for a, b in zip(t.elts, value.elts):
                _bind(a, b, defs)
        else:
            for i, a in enumerate(t.elts):
                if isinstance(a, ast.Name):
                    defs.setdefault(a.id, []).append(("unpack", value, i))
                elif isinstance(a, ast.Starred) and isinstance(a.value, ast.Name):
                    defs.setdefault(a.value.id, []).append(("unpack", value, i))


class Path(object):
    """A chain of AST nodes from an expression down to a leaf."""

    def __init__(self, nodes):
        self.nodes = nodes

    def __repr__(self):
        return " <- ".join(type(n).__name__ for n in self.nodes)


def paths_to(expr, is_leaf, fn, defs=None, max_paths=200):
    """All syntactic data paths from `expr` down to nodes for which
    is_leaf(node) holds, expanding local names through their definitions.
    Each path is the list of nodes traversed (top first, leaf last)."""
    if defs is None:
        defs = local_defs(fn)
    out = []
    params = set(params_of(fn))

    def rec(node, chain, seen):
        if len(out) >= max_paths:
            return
        if is_leaf(node):
            out.append(chain + [node])
            return
        if isinstance(node, ast.Name):
            if node.id in seen:
                return
            for d in defs.get(node.id, []):
                if isinstance(d, tuple):
                    rec(d[1] if d[0] != "aug" else d[1].value, chain + [node, ("opaque", d[0])],
                        seen | set([node.id]))
                    if d[0] == "aug":
                        pass
                else:
                    rec(d, chain + [node], seen | set([node.id]))
            return
        for ch in ast.iter_child_nodes(node):
            if isinstance(ch, (ast.expr_context, ast.operator, ast.cmpop,
                               ast.boolop, ast.unaryop)):
                continue
            if isinstance(ch, ast.keyword):
                rec(ch.value, chain + [node], seen)
                continue
            rec(ch, chain + [node], seen)
    rec(expr, [], frozenset())
    return out


def roots(expr, fn, defs=None):
    """Set of root descriptors an expression depends on: 'param:x',
    'self.attr', 'call:<text>', 'const'."""
    if defs is None:
        defs = local_defs(fn)
    params = set(params_of(fn))
    out = set()

    def rec(node, seen):
        if isinstance(node, ast.Name):
            if node.id in defs and node.id not in seen:
                for d in defs[node.id]:
                    if isinstance(d, tuple):
                        x = d[1] if d[0] != "aug" else d[1].value
                        rec(x, seen | set([node.id]))
                    else:
                        rec(d, seen | set([node.id]))
                if node.id in params:
                    out.add("param:" + node.id)
            elif node.id in params:
                out.add("param:" + node.id)
            else:
                out.add("name:" + node.id)
            return
        if isinstance(node, ast.Attribute):
            t = norm(node)
            if t.startswith("self."):
                out.add(t)
        if isinstance(node, ast.Call):
            out.add("call:" + norm(node.func))
        for ch in ast.iter_child_nodes(node):
            rec(ch, seen)
    rec(expr, frozenset())
    return out
