"""E-PY: the parsed Python program (lib/Crypto without SelfTest).

Pure `ast`; nothing under /repo is imported.  Gives modules, functions by
qualified name, classes with resolved bases, import resolution, parent links
and a few syntactic helpers used by every rule.
"""
import ast
import os

from .core import AnalysisError


def static_test(test):
    """Statically known module-level tests: Python-2 compatibility branches
    (`sys.version_info[0] == 2`, `< 3`, `>= (3, x)`).  True/False/None."""
    try:
        t = ast.unparse(test).replace(" ", "")
    except Exception:
        return None
    if "sys.version_info" not in t:
        return None
    try:
        code = compile(ast.Expression(test), "<static>", "eval")
        class _S(object):
            version_info = (3, 12, 1, "final", 0)
        return bool(eval(code, {"__builtins__": {}}, {"sys": _S}))
    except Exception:
        return None


class Module(object):
    def __init__(self, name, path, src):
        self.name = name            # dotted, e.g. Crypto.Cipher._mode_gcm
        self.path = path
        self.src = src
        self.lines = src.splitlines()
        self.tree = ast.parse(src, path)
        self.funcs = {}             # qualname -> FunctionDef
        self.classes = {}           # qualname -> ClassDef
        self.imports = {}           # local name -> ("mod", dotted) | ("sym", dotted, name)
        self.top_assign = {}        # name -> [value nodes] (module level, incl. if/try bodies)
        self.star_imports = []      # dotted modules imported with *
        self.is_pkg = os.path.basename(path) == "__init__.py"
        self._index()

    def _index(self):
        for node in ast.walk(self.tree):
            for ch in ast.iter_child_nodes(node):
                ch._parent = node
        self.tree._parent = None

        def visit(body, prefix, in_func):
            for st in body:
                if isinstance(st, (ast.FunctionDef, ast.AsyncFunctionDef)):
                    q = prefix + st.name
                    # first definition wins unless redefined at same level
                    self.funcs[q] = st
                    st._qualname = q
                    st._module = self
                    visit(st.body, q + ".", True)
                elif isinstance(st, ast.ClassDef):
                    q = prefix + st.name
                    self.classes[q] = st
                    st._qualname = q
                    st._module = self
                    visit(st.body, q + ".", in_func)
                elif isinstance(st, (ast.If, ast.Try, ast.With, ast.For,
                                     ast.While)):
                    flds = ("body", "orelse", "finalbody")
                    if isinstance(st, ast.If) and not in_func:
                        tv = static_test(st.test)
                        if tv is True:
                            flds = ("body",)
                        elif tv is False:
                            flds = ("orelse",)
                    for fld in flds:
                        visit(getattr(st, fld, []) or [], prefix, in_func)
                    for h in getattr(st, "handlers", []) or []:
                        visit(h.body, prefix, in_func)
        visit(self.tree.body, "", False)
        self._index_imports(self.tree)
        self._index_top(self.tree.body)

    def _pkg(self):
        return self.name if self.is_pkg else self.name.rsplit(".", 1)[0]

    def resolve_from(self, node):
        """Dotted module name of an ImportFrom."""
        if node.level:
            base = self._pkg().split(".")
            if node.level > 1:
                base = base[:-(node.level - 1)]
            if node.module:
                base = base + node.module.split(".")
            return ".".join(base)
        return node.module

    def _index_imports(self, tree):
        for node in ast.walk(tree):
            if isinstance(node, ast.Import):
                for a in node.names:
                    if a.asname:
                        self.imports.setdefault(a.asname, ("mod", a.name))
                    else:
                        top = a.name.split(".")[0]
                        self.imports.setdefault(top, ("mod", top))
            elif isinstance(node, ast.ImportFrom):
                m = self.resolve_from(node)
                for a in node.names:
                    if a.name == "*":
                        self.star_imports.append(m)
                        continue
                    self.imports.setdefault(a.asname or a.name,
                                            ("sym", m, a.name))

    def _index_top(self, body):
        for st in body:
            if isinstance(st, ast.Assign):
                for t in st.targets:
                    if isinstance(t, ast.Name):
                        self.top_assign.setdefault(t.id, []).append(st.value)
                    elif isinstance(t, ast.Tuple) and isinstance(st.value, ast.Tuple) \
                            and len(t.elts) == len(st.value.elts):
                        for a, b in zip(t.elts, st.value.elts):
                            if isinstance(a, ast.Name):
                                self.top_assign.setdefault(a.id, []).append(b)
            elif isinstance(st, (ast.If, ast.Try)):
                flds = ("body", "orelse", "finalbody")
                if isinstance(st, ast.If):
                    tv = static_test(st.test)
                    if tv is True:
                        flds = ("body",)
                    elif tv is False:
                        flds = ("orelse",)
                for fld in flds:
                    self._index_top(getattr(st, fld, []) or [])
                for h in getattr(st, "handlers", []) or []:
                    self._index_top(h.body)

    def text(self, node):
        try:
            return ast.get_source_segment(self.src, node) or ""
        except Exception:
            return ""

    def rel(self, root):
        return os.path.relpath(self.path, root)


class Repo(object):
    def __init__(self, root):
        self.root = os.path.abspath(root)
        self.lib = os.path.join(self.root, "lib")
        self.modules = {}
        self.by_rel = {}
        base = os.path.join(self.lib, "Crypto")
        if not os.path.isdir(base):
            raise AnalysisError("no lib/Crypto under %s" % root)
        for dp, dn, fn in os.walk(base):
            dn[:] = sorted(d for d in dn if d not in ("SelfTest", "__pycache__"))
            for f in sorted(fn):
                if not f.endswith(".py"):
                    continue
                path = os.path.join(dp, f)
                rel = os.path.relpath(path, self.lib)
                name = rel[:-3].replace(os.sep, ".")
                if name.endswith(".__init__"):
                    name = name[:-9]
                with open(path, encoding="utf-8") as fh:
                    src = fh.read()
                try:
                    m = Module(name, path, src)
                except SyntaxError as e:
                    raise AnalysisError("cannot parse %s: %s" % (path, e))
                self.modules[name] = m
                self.by_rel[os.path.relpath(path, self.root)] = m
        self._subclass_cache = {}

    # -- lookup ------------------------------------------------------------
    def module(self, name):
        """By dotted name ('Crypto.Cipher.AES') or repo-relative path."""
        if name in self.modules:
            return self.modules[name]
        if name in self.by_rel:
            return self.by_rel[name]
        alt = "lib/Crypto/" + name
        if alt in self.by_rel:
            return self.by_rel[alt]
        if ("Crypto." + name) in self.modules:
            return self.modules["Crypto." + name]
        raise AnalysisError("anchor vanished: module %s" % name)

    def func(self, mod, qual):
        m = self.module(mod) if not isinstance(mod, Module) else mod
        if qual not in m.funcs:
            raise AnalysisError("anchor vanished: function %s in %s" %
                                (qual, m.name))
        return m.funcs[qual]

    def cls(self, mod, qual):
        m = self.module(mod) if not isinstance(mod, Module) else mod
        if qual not in m.classes:
            raise AnalysisError("anchor vanished: class %s in %s" %
                                (qual, m.name))
        return m.classes[qual]

    def has_func(self, mod, qual):
        try:
            m = self.module(mod)
        except AnalysisError:
            return False
        return qual in m.funcs

    def resolve_symbol(self, mod, name, depth=0):
        """Resolve a module-level name to ('func', Module, node) |
        ('class', Module, node) | ('mod', dotted) | ('const', Module, [nodes])
        | None.  Follows imports inside the package."""
        if depth > 8:
            return None
        if name in mod.funcs and "." not in name:
            return ("func", mod, mod.funcs[name])
        if name in mod.classes and "." not in name:
            return ("class", mod, mod.classes[name])
        if name in mod.top_assign:
            return ("const", mod, mod.top_assign[name])
        if name in mod.imports:
            imp = mod.imports[name]
            if imp[0] == "mod":
                return ("mod", imp[1])
            m2, sym = imp[1], imp[2]
            full = (m2 + "." + sym) if m2 else sym
            if full in self.modules:
                return ("mod", full)
            if m2 in self.modules:
                r = self.resolve_symbol(self.modules[m2], sym, depth + 1)
                if r is not None:
                    return r
                return ("extsym", m2, sym)
            return ("extsym", m2, sym)
        for sm in mod.star_imports:
            if sm in self.modules and not name.startswith("_"):
                r = self.resolve_symbol(self.modules[sm], name, depth + 1)
                if r is not None:
                    return r
        return None

    def class_bases(self, mod, cnode):
        """Resolved base classes: list of (Module, ClassDef) or ('ext', name)."""
        res = []
        for b in cnode.bases:
            if isinstance(b, ast.Name):
                r = self.resolve_symbol(mod, b.id)
                if r and r[0] == "class":
                    res.append((r[1], r[2]))
                else:
                    res.append(("ext", b.id))
            elif isinstance(b, ast.Attribute):
                res.append(("ext", ast.unparse(b)))
        return res

    def mro(self, mod, cnode, depth=0):
        out = [(mod, cnode)]
        if depth > 8:
            return out
        for b in self.class_bases(mod, cnode):
            if b[0] == "ext":
                continue
            for x in self.mro(b[0], b[1], depth + 1):
                if x not in out:
                    out.append(x)
        return out

    def find_method(self, mod, cnode, name):
        for m, c in self.mro(mod, cnode):
            vm = getattr(c, "_vmethods", None)      # checker-side stand-in classes
            if vm is not None:
                if name in vm:
                    return m, vm[name]
                continue
            q = c._qualname + "." + name
            if q in m.funcs:
                return m, m.funcs[q]
        return None

    def exc_bases(self, mod, cnode):
        """External base names of a repo exception class, transitively."""
        names = []
        for b in self.class_bases(mod, cnode):
            if b[0] == "ext":
                names.append(b[1])
            else:
                names.append(b[1].name)
                names.extend(self.exc_bases(b[0], b[1]))
        return names


# ---------------------------------------------------------------------------
# syntactic helpers
# ---------------------------------------------------------------------------

def walk_no_nested(node):
    """ast.walk that does not descend into nested function/class definitions
    (the node itself may be a function)."""
    todo = list(ast.iter_child_nodes(node))
    while todo:
        n = todo.pop()
        yield n
        if isinstance(n, (ast.FunctionDef, ast.AsyncFunctionDef, ast.ClassDef,
                          ast.Lambda)):
            continue
        todo.extend(ast.iter_child_nodes(n))


def params_of(fn):
    a = fn.args
    names = [x.arg for x in getattr(a, "posonlyargs", [])] + \
            [x.arg for x in a.args]
    if a.vararg:
        names.append(a.vararg.arg)
    names += [x.arg for x in a.kwonlyargs]
    if a.kwarg:
        names.append(a.kwarg.arg)
    return names


def enclosing_func(node):
    n = getattr(node, "_parent", None)
    while n is not None and not isinstance(n, (ast.FunctionDef,
                                               ast.AsyncFunctionDef)):
        n = getattr(n, "_parent", None)
    return n


def call_name(call):
    """Textual callee of a Call: 'a.b.c' or 'f' or ''."""
    try:
        return ast.unparse(call.func)
    except Exception:
        return ""


def raise_class(node):
    """Class name of a Raise statement ('' for bare raise)."""
    e = node.exc
    if e is None:
        return ""
    if isinstance(e, ast.Call):
        e = e.func
    if isinstance(e, ast.Name):
        return e.id
    if isinstance(e, ast.Attribute):
        return e.attr
    return "?"


def norm(node):
    """Normalised text of an AST node (keys for findings; no line numbers)."""
    try:
        return " ".join(ast.unparse(node).split())
    except Exception:
        return ast.dump(node)
