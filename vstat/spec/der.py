"""The checker's own minimal DER encoder (X.690) — oracle for writer rows."""


def _len(n):
    if n < 128:
        return bytes([n])
    b = n.to_bytes((n.bit_length() + 7) // 8, "big")
    return bytes([0x80 | len(b)]) + b


def tlv(tag, payload):
    return bytes([tag]) + _len(len(payload)) + payload


def integer(v):
    n = max(1, (v.bit_length() + 8) // 8) if v >= 0 else (((-v - 1).bit_length() + 8) // 8)
    return tlv(0x02, v.to_bytes(n, "big", signed=True))


def octets(b):
    return tlv(0x04, b)


def null():
    return b"\x05\x00"


def bitstring(b):
    return tlv(0x03, b"\x00" + b)


def oid(s):
    arcs = [int(x) for x in s.split(".")]
    body = [40 * arcs[0] + arcs[1]] + arcs[2:]
    out = b""
    for a in body:
        enc = [a & 0x7F]
        a >>= 7
        while a:
            enc.append((a & 0x7F) | 0x80)
            a >>= 7
        out += bytes(reversed(enc))
    return tlv(0x06, out)


def seq(*items):
    return tlv(0x30, b"".join(items))


def explicit(n, inner):
    return tlv(0xA0 | n, inner)


def mpint(v):
    """RFC 4251 mpint body (positive): minimal big-endian with a 00 prefix
    when the top bit is set."""
    b = v.to_bytes(max(1, (v.bit_length() + 7) // 8), "big")
    if b[0] & 0x80:
        b = b"\x00" + b
    return b


def ssh_string(b):
    return len(b).to_bytes(4, "big") + b
