"""Independent reference of Blowfish and of the bcrypt key schedule (EksBlowfishSetup), written from the papers:

  B. Schneier, "Description of a New Variable-Length Key, 64-Bit Block Cipher (Blowfish)", FSE 1993;
  N. Provos, D. Mazieres, "A Future-Adaptable Password Scheme", USENIX 1999 (section 3/4), with the order of the two
  ExpandKey calls of the inner loop as in OpenBSD's bcrypt.c (key first, then salt) when `invert` is true.

The initial P-array and S-boxes are not copied from anywhere: the paper defines them as the hexadecimal digits of the
fractional part of pi (P1 = 0x243f6a88, ...), and `_pi_words` computes those 8336 digits with Machin's formula in integer
arithmetic.  `self_check()` confirms the reference against Schneier's vector and the OpenBSD bcrypt vector for "U*U".
"""

_M32 = 0xFFFFFFFF


def _arctan_inv(x, one):
    # arctan(1/x) * one, by the alternating series, in integers
    total = term = one // x
    x2 = x * x
    n = 3
    sign = -1
    while term:
        term //= x2
        total += sign * (term // n)
        sign = -sign
        n += 2
    return total


def _pi_words(count):
    bits = 32 * count
    guard = 96
    one = 1 << (bits + guard)
    pi = 4 * (4 * _arctan_inv(5, one) - _arctan_inv(239, one))
    frac = (pi - 3 * one) >> guard          # fractional part, `bits` binary places
    return [(frac >> (bits - 32 * (i + 1))) & _M32 for i in range(count)]


_TABLES = None


def init_state():
    global _TABLES
    if _TABLES is None:
        w = _pi_words(18 + 4 * 256)
        _TABLES = (w[:18], [w[18 + 256 * j: 18 + 256 * (j + 1)] for j in range(4)])
    P, S = _TABLES
    return list(P), [list(s) for s in S]


def _f(S, x):
    return ((((S[0][x >> 24] + S[1][(x >> 16) & 255]) & _M32) ^ S[2][(x >> 8) & 255]) + S[3][x & 255]) & _M32


def encipher(P, S, L, R):
    for i in range(16):
        L ^= P[i]
        R ^= _f(S, L)
        L, R = R, L
    L, R = R, L
    R ^= P[16]
    L ^= P[17]
    return L, R


def decipher(P, S, L, R):
    for i in range(17, 1, -1):
        L ^= P[i]
        R ^= _f(S, L)
        L, R = R, L
    L, R = R, L
    R ^= P[1]
    L ^= P[0]
    return L, R


def _cyclic_words(data):
    # endless stream of big-endian 32-bit words read cyclically from data
    i = 0
    n = len(data)
    while True:
        w = 0
        for _ in range(4):
            w = (w << 8) | data[i]
            i = (i + 1) % n
        yield w


def expand_key(P, S, key, salt=None):
    """ExpandKey(state, salt, key); salt None is the all-zero salt (the plain Blowfish key schedule)."""
    kw = _cyclic_words(key)
    for i in range(18):
        P[i] ^= next(kw)
    sw = _cyclic_words(salt) if salt is not None else None
    L = R = 0
    for i in range(0, 18, 2):
        if sw:
            L ^= next(sw)
            R ^= next(sw)
        L, R = encipher(P, S, L, R)
        P[i], P[i + 1] = L, R
    for j in range(4):
        for i in range(0, 256, 2):
            if sw:
                L ^= next(sw)
                R ^= next(sw)
            L, R = encipher(P, S, L, R)
            S[j][i], S[j][i + 1] = L, R


def blowfish_setup(key):
    P, S = init_state()
    expand_key(P, S, key)
    return P, S


def eks_setup(key, salt, cost, invert=True):
    P, S = init_state()
    expand_key(P, S, key, salt)
    for _ in range(1 << cost):
        if invert:
            expand_key(P, S, key)
            expand_key(P, S, salt)
        else:
            expand_key(P, S, salt)
            expand_key(P, S, key)
    return P, S


def ecb(P, S, data, decrypt=False):
    out = bytearray()
    fn = decipher if decrypt else encipher
    for o in range(0, len(data), 8):
        L = int.from_bytes(data[o:o + 4], "big")
        R = int.from_bytes(data[o + 4:o + 8], "big")
        L, R = fn(P, S, L, R)
        out += L.to_bytes(4, "big") + R.to_bytes(4, "big")
    return bytes(out)


_B64 = "./ABCDEFGHIJKLMNOPQRSTUVWXYZabcdefghijklmnopqrstuvwxyz0123456789"


def _radix64_decode(s, nbytes):
    bits = 0
    acc = 0
    out = bytearray()
    for ch in s:
        acc = (acc << 6) | _B64.index(ch)
        bits += 6
        if bits >= 8:
            bits -= 8
            out.append((acc >> bits) & 255)
    return bytes(out[:nbytes])


def bcrypt_raw(password, salt, cost):
    """The 24 bytes bcrypt encrypts (before truncation to 23 and encoding); password already NUL-terminated."""
    P, S = eks_setup(password, salt, cost, True)
    ct = b"OrpheanBeholderScryDoubt"
    for _ in range(64):
        ct = ecb(P, S, ct)
    return ct


_CHECKED = False


def self_check():
    """The reference against published values; raises AssertionError (an analysis error for the caller) otherwise."""
    global _CHECKED
    if _CHECKED:
        return
    P, S = init_state()
    assert P[0] == 0x243F6A88 and P[17] == 0x8979FB1B, "pi digits: P-array"
    assert S[0][0] == 0xD1310BA6 and S[3][255] == 0x3AC372E6, "pi digits: S-boxes"
    P, S = blowfish_setup(bytes(8))
    assert ecb(P, S, bytes(8)).hex() == "4ef997456198dd78", "Schneier's first vector"
    assert ecb(P, S, bytes.fromhex("4ef997456198dd78"), True) == bytes(8)
    # OpenBSD / John the Ripper: bcrypt("U*U", "$2a$05$CCCCCCCCCCCCCCCCCCCCC.") = ...E5YPO9kmyuRGyh0XouQYb4YMJKvyOeW
    salt = _radix64_decode("CCCCCCCCCCCCCCCCCCCCC.", 16)
    want = _radix64_decode("E5YPO9kmyuRGyh0XouQYb4YMJKvyOeW", 23)
    assert bcrypt_raw(b"U*U\x00", salt, 5)[:23] == want, "bcrypt vector U*U"
    _CHECKED = True
