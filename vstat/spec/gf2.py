"""The checker's own GF(2)[x] / GF(2^128) arithmetic (oracle for C20)."""

IRR = (1 << 128) | (1 << 7) | (1 << 2) | (1 << 1) | 1


def clmul(a, b):
    z = 0
    while b:
        if b & 1:
            z ^= a
        a <<= 1
        b >>= 1
    return z


def polymod(a, m):
    dm = m.bit_length()
    while a.bit_length() >= dm:
        a ^= m << (a.bit_length() - dm)
    return a


def mul(a, b, irr=IRR):
    return polymod(clmul(a, b), irr)


def polygcd(a, b):
    while b:
        a, b = b, polymod(a, b)
    return a


def powmod(a, e, m):
    r = 1
    while e:
        if e & 1:
            r = polymod(clmul(r, a), m)
        a = polymod(clmul(a, a), m)
        e >>= 1
    return r


def irreducible(f):
    """Rabin's test over GF(2)."""
    n = f.bit_length() - 1
    x = 2
    # x^(2^n) = x mod f
    t = x
    for _ in range(n):
        t = polymod(clmul(t, t), f)
    if t != x:
        return False
    primes = [p for p in range(2, n + 1) if n % p == 0 and all(p % q for q in range(2, p))]
    for p in primes:
        t = x
        for _ in range(n // p):
            t = polymod(clmul(t, t), f)
        if polygcd(f, t ^ x) != 1:
            return False
    return True


def inv(a, irr=IRR):
    # a^(2^128 - 2)
    return powmod(a, (1 << 128) - 2, irr)


def horner(coeffs, x):
    s = 0
    for c in coeffs:
        s = mul(x, s) ^ c
    return s


def powfield(a, e):
    r = 1
    for _ in range(e):
        r = mul(r, a)
    return r


def split(coeffs_random, secret, n, ssss):
    """coeffs_random: the k-1 random coefficients in the order drawn."""
    coeffs = list(coeffs_random) + [secret]
    out = []
    for i in range(1, n + 1):
        s = horner(coeffs, i)
        if ssss:
            s ^= powfield(i, len(coeffs))
        out.append((i, s))
    return out


def combine(shares, ssss):
    k = len(shares)
    pts = []
    for x, y in shares:
        if ssss:
            y ^= powfield(x, k)
        pts.append((x, y))
    res = 0
    for j, (xj, yj) in enumerate(pts):
        num, den = 1, 1
        for m, (xm, ym) in enumerate(pts):
            if m != j:
                num = mul(num, xm)
                den = mul(den, xj ^ xm)
        res ^= mul(mul(yj, num), inv(den))
    return res
