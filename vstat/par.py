"""Fork-based parallel map for the row tables of the Python interpreter (the rows are independent; each worker
inherits the parsed repository and the row function through fork, only indices and plain results cross the pipe)."""
import multiprocessing
import os

_F = None
_ITEMS = None
_W = 1


def _run_chunk(k):
    out = []
    for idx in range(k, len(_ITEMS), _W):
        out.append((idx, _F(_ITEMS[idx])))
    return out


def pmap(f, items, workers=None, serial_below=24):
    """[f(x) for x in items], computed by forked workers.  f's results must be picklable."""
    global _F, _ITEMS, _W
    items = list(items)
    workers = workers or min(16, os.cpu_count() or 1)
    if len(items) < serial_below or workers <= 1 or os.environ.get("VSTAT_SERIAL"):
        return [f(x) for x in items]
    if _F is not None:
        # nested use inside a worker: stay serial
        return [f(x) for x in items]
    _F, _ITEMS, _W = f, items, workers
    try:
        ctx = multiprocessing.get_context("fork")
        with ctx.Pool(workers) as pool:
            parts = pool.map(_run_chunk, range(workers))
    finally:
        _F, _ITEMS, _W = None, None, 1
    res = [None] * len(items)
    for part in parts:
        for idx, v in part:
            res[idx] = v
    return res
