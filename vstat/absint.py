"""Seeded conditional constant propagation over Python function bodies.

A flow-sensitive, path-insensitive abstract interpretation (joins at merge
points, loops havoc what they assign, unknown calls give Unknown) over the
abstract domain of absval.py.  Rules seed the parameters of an entry function
with region representatives (or leave them Unknown) and read back:

 * whether the normal exit / a use event is reachable (guard rules),
 * the labels that hold on every path to each return (must-pass-through),
 * the events (calls, attribute stores, raises) in order,
 * snapshots of watched attributes at every exit (typestate, counters).

Nothing from /repo is imported or executed: the engine evaluates AST nodes
with its own transfer functions.
"""
import ast

from .absval import (UNK, Unknown, ABytes, AObj, AFunc, AClass, AMod, ABuiltin,
                     AExc, AFfi, is_unk, is_concrete, same, join, truth,
                     type_name)
from .absstate import State, join_states
from .core import AnalysisError
from .pydb import params_of, norm, walk_no_nested
from . import models

BUILTIN_EXC = {}


def _init_exc():
    import builtins
    for k, v in vars(builtins).items():
        if isinstance(v, type) and issubclass(v, BaseException):
            BUILTIN_EXC[k] = [c.__name__ for c in v.__mro__]
    BUILTIN_EXC["binascii.Error"] = ["binascii.Error"] + BUILTIN_EXC["ValueError"]
    BUILTIN_EXC["Error"] = BUILTIN_EXC["binascii.Error"]
    BUILTIN_EXC["struct.error"] = ["struct.error"] + BUILTIN_EXC["Exception"]
    BUILTIN_EXC["error"] = BUILTIN_EXC["struct.error"]


_init_exc()


class AMethod(object):
    """A modelled method of a seed object (Interp.method_models)."""
    __slots__ = ("base", "attr")

    def __init__(self, base, attr):
        self.base = base
        self.attr = attr


class ASuper(object):
    __slots__ = ("obj", "start")

    def __init__(self, obj, start):
        self.obj = obj
        self.start = start


class Outcome(object):
    __slots__ = ("kind", "exc", "value", "must", "definite", "node", "snap",
                 "depth", "state")

    def __init__(self, kind, exc, value, must, definite, node, snap, depth,
                 state=None):
        self.kind = kind
        self.exc = exc
        self.value = value
        self.must = must
        self.definite = definite
        self.node = node
        self.snap = snap
        self.depth = depth
        self.state = state

    def __repr__(self):
        return "<%s %s line %s%s>" % (self.kind, self.exc or self.value,
                                      getattr(self.node, "lineno", "?"),
                                      "" if self.definite else " (possible)")


class Event(object):
    __slots__ = ("kind", "name", "node", "definite", "args", "depth", "extra",
                 "mod")

    def __init__(self, kind, name, node, definite, args=None, depth=0,
                 extra=None, mod=None):
        self.kind = kind
        self.name = name
        self.node = node
        self.definite = definite
        self.args = args
        self.depth = depth
        self.extra = extra
        self.mod = mod

    def __repr__(self):
        return "<ev %s %s line %s>" % (self.kind, self.name,
                                       getattr(self.node, "lineno", "?"))


class Frame(object):
    def __init__(self, mod, fn, depth):
        self.mod = mod
        self.fn = fn
        self.depth = depth
        self.tries = []        # stack of TryRec
        self.loops = []        # stack of LoopRec
        self.returns = []      # [(value, state)]


class TryRec(object):
    def __init__(self, node, frame_index):
        self.node = node
        self.frame_index = frame_index
        self.caught = []       # [(exc_cls, state, definite)]


class LoopRec(object):
    def __init__(self, node):
        self.node = node
        self.breaks = []
        self.continues = []


class Result(object):
    def __init__(self):
        self.outcomes = []
        self.events = []
        self.end_state = None
        self.killers = set()
        self.value = UNK

    def returns(self):
        return [o for o in self.outcomes if o.kind == "return"]

    def raises(self):
        return [o for o in self.outcomes if o.kind == "raise"]

    def rejected(self):
        """True iff no normal exit is reachable (every path raises)."""
        return not self.returns()

    def raise_classes(self):
        return sorted(set(o.exc for o in self.raises()))


def _is_notimpl(v):
    return v is NotImplemented or (isinstance(v, ABuiltin) and v.name == "NotImplemented")


class _GenStop(Exception):
    pass


class Interp(object):
    def __init__(self, repo, max_depth=4, budget=400000, inject=None,
                 watch=(), no_inline=(), extra_models=None, inline_filter=None,
                 method_models=None):
        self.repo = repo
        self.max_depth = max_depth
        self.budget = budget
        self.steps = 0
        self.inject = inject or {}      # norm text -> value (expression level)
        self.inject_hits = {}
        self.watch = tuple(watch)       # attr names of `self` to snapshot
        self.no_inline = set(no_inline)  # function names never inlined
        self.extra_models = extra_models or {}
        self.inline_filter = inline_filter
        self.method_models = method_models or {}
        self.frames = []
        self.unknown_depth = 0
        self.res = None
        self.next_ident = 1
        self.const_cache = {}
        self.const_busy = set()
        self.self_obj = None
        self._diverged = None
        self.opaque = 0
        self.unroll_limit = 300
        self.ffi_models = {}
        self.ffi_default = None     # result of a native call without a model: unknown status (both outcomes) unless a row fixes it
        self.trace = False

    # ------------------------------------------------------------------
    # entry
    # ------------------------------------------------------------------
    def new_obj(self, st, mod=None, cnode=None, label="", attrs=None,
                havoc=True):
        o = AObj(self.next_ident, mod, cnode, label)
        self.next_ident += 1
        st.heap[o.ident] = dict(attrs or {})
        if havoc:
            st.havoc.add(o.ident)
        return o

    def run(self, mod, fn, args=None, self_obj=None, state=None,
            bind_defaults=False):
        """Interpret `fn` (FunctionDef in Module `mod`) with the given
        parameter seeds (dict name -> abstract value; missing = default or
        Unknown)."""
        self.res = Result()
        st = state or State()
        self.frames = []
        self.unknown_depth = 0
        self.self_obj = self_obj
        args = dict(args or {})
        fr = Frame(mod, fn, 0)
        env = {}
        pnames = params_of(fn)
        a = fn.args
        # defaults
        pos = [x.arg for x in getattr(a, "posonlyargs", [])] + [x.arg for x in a.args]
        defaults = dict(zip(pos[len(pos) - len(a.defaults):], a.defaults))
        for k, d in zip(a.kwonlyargs, a.kw_defaults):
            if d is not None:
                defaults[k.arg] = d
        st.frames = [env]
        self.frames = [fr]
        for i, p in enumerate(pnames):
            if p in args:
                env[p] = args[p]
            elif i == 0 and self_obj is not None and p in ("self", "cls"):
                env[p] = self_obj
            elif bind_defaults and p in defaults:
                env[p] = self.ev(defaults[p], st)
            else:
                env[p] = UNK
        end, killers = self.walk_body(fn.body, st, fr)
        if end is not None:
            self._outcome("return", None, None, end, fn, fr)
        self.res.end_state = end
        self.res.killers = killers
        rets = fr.returns
        return self.res

    def _snap(self, st):
        if not self.watch or self.self_obj is None:
            return None
        h = st.heap.get(self.self_obj.ident, {})
        return dict((w, h.get(w, UNK)) for w in self.watch)

    def _outcome(self, kind, exc, value, st, node, fr):
        o = Outcome(kind, exc, value, set(st.must), self.unknown_depth == 0,
                    node, self._snap(st), fr.depth, st)
        self.res.outcomes.append(o)
        return o

    def event(self, kind, name, node, args=None, extra=None):
        fr = self.frames[-1]
        e = Event(kind, name, node, self.unknown_depth == 0, args, fr.depth,
                  extra, fr.mod)
        self.res.events.append(e)
        return e

    def tick(self):
        self.steps += 1
        if self.steps > self.budget:
            raise AnalysisError("abstract interpretation budget exceeded")

    # ------------------------------------------------------------------
    # exceptions
    # ------------------------------------------------------------------
    def exc_mro(self, name, mod=None):
        """List of class names (self first) for an exception class name."""
        if name in BUILTIN_EXC:
            return BUILTIN_EXC[name]
        short = name.split(".")[-1]
        # repo-defined exception class: search all modules
        cands = []
        if mod is not None and short in mod.classes:
            cands.append((mod, mod.classes[short]))
        if mod is not None:
            r = self.repo.resolve_symbol(mod, short)
            if r and r[0] == "class":
                cands.append((r[1], r[2]))
        if not cands:
            for m in self.repo.modules.values():
                if short in m.classes:
                    cands.append((m, m.classes[short]))
        for m, c in cands:
            out = [short]
            for b in self.repo.exc_bases(m, c):
                b = b.split(".")[-1]
                if b in BUILTIN_EXC:
                    for x in BUILTIN_EXC[b]:
                        if x not in out:
                            out.append(x)
                elif b not in out:
                    out.append(b)
            return out
        if short in BUILTIN_EXC:
            return BUILTIN_EXC[short]
        return [short, "Exception", "BaseException", "object"]

    def handler_matches(self, h, exc, mod):
        """True / False / None (unknown) — does handler `h` catch `exc`?"""
        if h.type is None:
            return True
        names = []
        t = h.type
        elts = t.elts if isinstance(t, ast.Tuple) else [t]
        for e in elts:
            if isinstance(e, ast.Name):
                names.append(e.id)
            elif isinstance(e, ast.Attribute):
                names.append(e.attr)
            else:
                return None
        if exc is None or exc == "?":
            return None
        mro = self.exc_mro(exc, mod)
        for n in names:
            if n in mro:
                return True
        return False

    def do_raise(self, exc, st, node, definite_hint=True):
        """Route an exception of class name `exc` raised in state `st`.
        Returns killers set."""
        # find the innermost try (across frames) with a matching handler
        for fi in range(len(self.frames) - 1, -1, -1):
            fr = self.frames[fi]
            for tr in reversed(fr.tries):
                if getattr(tr, "in_handler", False):
                    continue
                for h in tr.node.handlers:
                    m = self.handler_matches(h, exc, fr.mod)
                    if m is True:
                        s2 = st.clone()
                        s2.frames = s2.frames[:fi + 1]
                        tr.caught.append((exc, s2, self.unknown_depth == 0, h))
                        return set([("caught", id(tr.node))])
                    if m is None:
                        # may or may not be caught: record both
                        s2 = st.clone()
                        s2.frames = s2.frames[:fi + 1]
                        tr.caught.append((exc, s2, False, h))
                        break
        self._outcome("raise", exc, None, st, node, self.frames[-1])
        return set([("raise", exc, id(node))])

    # ------------------------------------------------------------------
    # statements
    # ------------------------------------------------------------------
    def walk_body(self, body, st, fr):
        killers = set()
        for stmt in body:
            if st is None:
                break
            st, killers = self.walk_stmt(stmt, st, fr)
        return st, (killers if st is None else set())

    def walk_stmt(self, s, st, fr):
        self.tick()
        m = getattr(self, "st_" + type(s).__name__, None)
        if m is None:
            return st, set()
        return m(s, st, fr)

    def st_Pass(self, s, st, fr):
        return st, set()

    st_Global = st_Pass
    st_Nonlocal = st_Pass

    def st_Assert(self, s, st, fr):
        # assert is not a guard (python -O); evaluate for events only.  With `assert_raises` (value rows: what does
        # a normal run return?) an assertion that is definitely false ends the path with AssertionError.
        v = self.ev(s.test, st)
        if getattr(self, "assert_raises", False):
            r = self._after_ev(st)
            if r[0] is None:
                return r
            if truth(v) is False:
                return None, self.do_raise("AssertionError", st, s)
        return st, set()

    def st_Expr(self, s, st, fr):
        v = s.value
        if isinstance(v, ast.Call) and isinstance(v.func, ast.Name) and v.func.id in ("map", "filter", "zip") and \
                isinstance(self.lookup(v.func.id, st), ABuiltin):
            # Python 3: a lazy iterator that nobody consumes - the arguments are evaluated, the function is never called
            for a in v.args:
                self.ev(a, st)
            return self._after_ev(st)
        self.ev(s.value, st)
        return self._after_ev(st)

    def _after_ev(self, st):
        k = getattr(self, "_diverged", None)
        if k is not None:
            self._diverged = None
            return None, k
        return st, set()

    def st_Import(self, s, st, fr):
        for a in s.names:
            if a.asname:
                st.top()[a.asname] = self.mod_value(a.name)
            else:
                top = a.name.split(".")[0]
                st.top()[top] = self.mod_value(top)
        return st, set()

    def st_ImportFrom(self, s, st, fr):
        m = fr.mod.resolve_from(s)
        for a in s.names:
            nm = a.asname or a.name
            st.top()[nm] = self.import_symbol(m, a.name)
        return st, set()

    def import_symbol(self, m, name):
        full = (m + "." + name) if m else name
        if full in self.repo.modules:
            return AMod(full, self.repo.modules[full])
        if m in self.repo.modules:
            mod2 = self.repo.modules[m]
            v = self.module_symbol(mod2, name)
            if v is not None:
                return v
            return ABuiltin(full)
        return ABuiltin(full)

    def mod_value(self, name):
        if name in self.repo.modules:
            return AMod(name, self.repo.modules[name])
        return AMod(name, None)

    def st_FunctionDef(self, s, st, fr):
        st.top()[s.name] = AFunc(fr.mod, s, closure=st.frames[-1])
        return st, set()

    def st_ClassDef(self, s, st, fr):
        st.top()[s.name] = AClass(fr.mod, s)
        return st, set()

    def st_Delete(self, s, st, fr):
        for t in s.targets:
            if isinstance(t, ast.Name):
                st.top().pop(t.id, None)
            elif isinstance(t, ast.Subscript):
                base = self.ev(t.value, st)
                if isinstance(base, (dict, list)):
                    try:
                        k = self.ev(t.slice, st)
                        if is_concrete(k):
                            del base[k]
                    except Exception:
                        pass
        return st, set()

    def st_Assign(self, s, st, fr):
        v = self.ev(s.value, st)
        r = self._after_ev(st)
        if r[0] is None:
            return r
        for t in s.targets:
            self.assign(t, v, st, fr, s)
            if isinstance(t, ast.Name):
                m = self.minlen_of(s.value, st)
                if m:
                    self._set_minlen(t.id, m, st)
                lo = self._len_alias(s.value)
                if lo is not None:
                    st.top()["#lenof:" + t.id] = lo
        return st, set()

    def _len_alias(self, v):
        """v = len(X) [+/- const]  ->  (norm(X), offset)"""
        def is_len(n):
            return isinstance(n, ast.Call) and isinstance(n.func, ast.Name) and \
                n.func.id == "len" and len(n.args) == 1 and \
                isinstance(n.args[0], (ast.Name, ast.Attribute))
        if is_len(v):
            return (norm(v.args[0]), 0)
        if isinstance(v, ast.BinOp) and is_len(v.left) and \
                isinstance(v.right, ast.Constant) and isinstance(v.right.value, int):
            if isinstance(v.op, ast.Sub):
                return (norm(v.left.args[0]), -v.right.value)
            if isinstance(v.op, ast.Add):
                return (norm(v.left.args[0]), v.right.value)
        return None

    def minlen_of(self, node, st):
        """Lower bound on len() of the value of an expression node, from the
        repository's own idioms (0 = nothing known)."""
        if isinstance(node, ast.Call):
            fn = node.func
            name = fn.attr if isinstance(fn, ast.Attribute) else getattr(fn, "id", "")
            if name == "decode" and isinstance(fn, ast.Attribute) and \
                    isinstance(fn.value, ast.Call) and \
                    getattr(fn.value.func, "id", "") in ("DerSequence", "DerSetOf"):
                for kw in node.keywords:
                    if kw.arg == "nr_elements":
                        v = self.ev(kw.value, st)
                        self._diverged = None
                        if isinstance(v, int):
                            return v
                        if isinstance(v, (tuple, list, range)) and v and \
                                all(isinstance(x, int) for x in v):
                            return min(v)
                return 0
            if name in ("split", "rsplit", "splitlines") and isinstance(fn, ast.Attribute):
                return 1 if name != "splitlines" else 0
            if name in ("long_to_bytes",):
                return 1
            if name in ("bytearray", "bytes", "tobytes", "memoryview") and \
                    isinstance(fn, ast.Name) and len(node.args) == 1:
                return self.minlen_of(node.args[0], st)
        if isinstance(node, ast.Name) or (isinstance(node, ast.Attribute) and
                                          isinstance(node.value, ast.Name)):
            f = st.top().get("#minlen:" + norm(node))
            return f if isinstance(f, int) else 0
        return 0

    def st_AnnAssign(self, s, st, fr):
        if s.value is None:
            return st, set()
        v = self.ev(s.value, st)
        r = self._after_ev(st)
        if r[0] is None:
            return r
        self.assign(s.target, v, st, fr, s)
        return st, set()

    def st_AugAssign(self, s, st, fr):
        cur = self.ev(s.target, st)
        rhs = self.ev(s.value, st)
        r = self._after_ev(st)
        if r[0] is None:
            return r
        v = NotImplemented
        if isinstance(cur, AObj) or isinstance(rhs, AObj):
            v = self.dunder_binop(s.op, cur, rhs, st, s, inplace=True)
            r = self._after_ev(st)
            if r[0] is None:
                return r
        if v is NotImplemented:
            v = self.binop(s.op, cur, rhs)
        if isinstance(v, models.Raises):
            return None, self.do_raise(v.exc, st, s)
        if isinstance(cur, list) and isinstance(s.op, ast.Add) and \
                isinstance(v, list):
            # in-place extend keeps aliasing
            cur[:] = v
            v = cur
        elif isinstance(cur, bytearray) and isinstance(s.op, (ast.Add, ast.Mult)) and isinstance(v, (bytes, bytearray)):
            # bytearray += / *= work in place: every alias (the caller's object included) sees the change
            cur[:] = v
            v = cur
        self.assign(s.target, v, st, fr, s)
        return st, set()

    def assign(self, t, v, st, fr, stmt):
        if isinstance(t, ast.Name):
            key = "assign:" + t.id
            if key in self.inject and fr.depth == 0:
                self.inject_hits[key] = self.inject_hits.get(key, 0) + 1
                v = self.inject[key]
            st.top()[t.id] = v
            st.top().pop("#minlen:" + t.id, None)
            st.top().pop("#lenof:" + t.id, None)
        elif isinstance(t, (ast.Tuple, ast.List)):
            if isinstance(v, (tuple, list)) and len(v) == len(t.elts) and \
                    not any(isinstance(e, ast.Starred) for e in t.elts):
                for e, x in zip(t.elts, v):
                    self.assign(e, x, st, fr, stmt)
            else:
                for e in t.elts:
                    if isinstance(e, ast.Starred):
                        e = e.value
                    self.assign(e, UNK, st, fr, stmt)
        elif isinstance(t, ast.Attribute):
            base = self.ev(t.value, st)
            st.top().pop("#minlen:" + norm(t), None)
            if isinstance(base, AObj) and t.attr == "__dict__" and isinstance(v, dict):
                st.heap[base.ident] = v
                return
            if isinstance(base, AObj):
                st.heap.setdefault(base.ident, {})[t.attr] = v
                self.event("store_attr", t.attr, stmt, args=(base, v))
            else:
                self.event("store_attr", t.attr, stmt, args=(base, v))
        elif isinstance(t, ast.Subscript):
            base = self.ev(t.value, st)
            k = self.ev(t.slice, st) if not isinstance(t.slice, ast.Slice) else UNK
            self.event("store_sub", norm(t.value), stmt, args=(base, k, v))
            if isinstance(t.slice, ast.Slice) and isinstance(base, (bytearray, list)):
                parts = [self.ev(x, st) if x is not None else None
                         for x in (t.slice.lower, t.slice.upper, t.slice.step)]
                okb = all(p is None or (isinstance(p, int) and not isinstance(p, bool)) for p in parts)
                if okb and isinstance(base, bytearray) and isinstance(v, (bytes, bytearray)):
                    base[slice(*parts)] = v
                    return
                if okb and isinstance(base, list) and isinstance(v, (list, tuple)):
                    base[slice(*parts)] = list(v)
                    return
            if isinstance(base, dict) and is_concrete(k):
                try:
                    base[k] = v
                except TypeError:
                    pass
            elif isinstance(base, list) and isinstance(k, int) and \
                    not isinstance(k, bool) and -len(base) <= k < len(base):
                base[k] = v
            elif isinstance(base, bytearray):
                if isinstance(k, int) and not isinstance(k, bool) and \
                        -len(base) <= k < len(base) and isinstance(v, int) and 0 <= v < 256:
                    base[k] = v
                elif isinstance(t.value, ast.Name):
                    # content no longer known: degrade where it is bound by name
                    st.top()[t.value.id] = ABytes(len(base), "bytearray")
        elif isinstance(t, ast.Starred):
            self.assign(t.value, UNK, st, fr, stmt)

    def st_Return(self, s, st, fr):
        v = self.ev(s.value, st) if s.value is not None else None
        r = self._after_ev(st)
        if r[0] is None:
            return r
        if fr.depth == 0:
            self._outcome("return", None, v, st, s, fr)
        else:
            fr.returns.append((v, st))
        return None, set([("return", id(s))])

    def st_Raise(self, s, st, fr):
        if s.exc is None:
            # re-raise inside a handler: the class bound by the handler
            exc = None
            for tr in reversed(fr.tries):
                if getattr(tr, "in_handler", False):
                    exc = getattr(tr, "cur_exc", None)
                    break
            exc = exc or "?"
        else:
            e = s.exc
            if isinstance(e, ast.Call):
                for a in e.args:
                    self.ev(a, st)
                e = e.func
            if isinstance(e, ast.Name):
                v = st.top().get(e.id)
                if isinstance(v, AExc):
                    exc = v.cls
                else:
                    exc = e.id
            elif isinstance(e, ast.Attribute):
                exc = e.attr
            else:
                exc = "?"
        r = self._after_ev(st)
        if r[0] is None:
            return r
        self.event("raise", exc, s)
        return None, self.do_raise(exc, st, s)

    def st_If(self, s, st, fr):
        t = self.ev(s.test, st)
        r = self._after_ev(st)
        if r[0] is None:
            return r
        tv = self.truthy(t, st, s.test)
        r = self._after_ev(st)
        if r[0] is None:
            return r
        lab = "%s@%d:%d" % (fr.mod.name, s.lineno, s.col_offset)
        if tv is True:
            st.must.add("T:" + lab)
            return self.walk_body(s.body, st, fr)
        if tv is False:
            st.must.add("F:" + lab)
            return self.walk_body(s.orelse, st, fr)
        if self.trace:
            print("UNKNOWN-IF %s:%d %s -> %r" % (fr.mod.name, s.lineno, norm(s.test)[:80], t))
            for x in ast.walk(s.test):
                if isinstance(x, (ast.Name, ast.Attribute)):
                    print("      ", norm(x), "=", repr(self.ev(x, st))[:100])
        s1 = st.clone()
        s2 = st
        self.refine(s.test, True, s1, fr)
        self.refine(s.test, False, s2, fr)
        s1.must.add("T:" + lab)
        s2.must.add("F:" + lab)
        self.unknown_depth += 1
        try:
            e1, k1 = self.walk_body(s.body, s1, fr)
            e2, k2 = self.walk_body(s.orelse, s2, fr)
        finally:
            self.unknown_depth -= 1
        if e1 is None and e2 is None:
            return None, k1 | k2
        return join_states(e1, e2), set()

    def refine(self, test, val, st, fr):
        """Refine the state under the assumption that `test` is `val`:
        handles `x is None`, `x is not None`, `not x`, bare names."""
        if isinstance(test, ast.UnaryOp) and isinstance(test.op, ast.Not):
            return self.refine(test.operand, not val, st, fr)
        if isinstance(test, ast.Compare) and len(test.ops) == 1 and \
                isinstance(test.comparators[0], ast.Constant) and \
                test.comparators[0].value is None:
            isnone = isinstance(test.ops[0], (ast.Is, ast.Eq))
            if isinstance(test.ops[0], (ast.Is, ast.Eq, ast.IsNot, ast.NotEq)):
                if isnone == val:
                    self._refine_set(test.left, None, st)
                else:
                    pass
            return
        if isinstance(test, ast.Compare) and len(test.ops) == 1:
            self._refine_len(test, val, st)
        if val and (isinstance(test, ast.Name) or (
                isinstance(test, ast.Attribute) and isinstance(test.value, ast.Name))):
            # `if x:` -> non-empty when x is a sequence
            self._set_minlen(norm(test), 1, st)
        if isinstance(test, ast.BoolOp):
            if isinstance(test.op, ast.And) and val:
                for v in test.values:
                    self.refine(v, True, st, fr)
            elif isinstance(test.op, ast.Or) and not val:
                for v in test.values:
                    self.refine(v, False, st, fr)
            return

    def _set_minlen(self, name, n, st):
        key = "#minlen:" + name
        cur = st.top().get(key)
        if not isinstance(cur, int) or cur < n:
            st.top()[key] = n

    def _refine_len(self, test, val, st):
        """len(NAME) <op> CONST  (or CONST <op> len(NAME)) under truth `val`."""
        l, r, op = test.left, test.comparators[0], test.ops[0]

        def is_len(n):
            if isinstance(n, ast.Name) and isinstance(
                    st.top().get("#lenof:" + n.id), tuple):
                return True
            return _is_len(n)

        def len_arg(n):
            if isinstance(n, ast.Name):
                return st.top().get("#lenof:" + n.id)[0]
            return norm(n.args[0])

        def len_off(n):
            if isinstance(n, ast.Name):
                return st.top().get("#lenof:" + n.id)[1]
            return 0

        def _is_len(n):
            return isinstance(n, ast.Call) and isinstance(n.func, ast.Name) and \
                n.func.id == "len" and len(n.args) == 1 and (
                    isinstance(n.args[0], ast.Name) or (
                        isinstance(n.args[0], ast.Attribute) and
                        isinstance(n.args[0].value, ast.Name)))
        flip = {ast.Lt: ast.Gt, ast.Gt: ast.Lt, ast.LtE: ast.GtE, ast.GtE: ast.LtE,
                ast.Eq: ast.Eq, ast.NotEq: ast.NotEq}
        if is_len(r) and not is_len(l):
            l, r = r, l
            if type(op) not in flip:
                return
            op = flip[type(op)]()
        if not is_len(l):
            return
        c = self.ev(r, st)
        self._diverged = None
        if type(op) in (ast.In, ast.NotIn):
            pass
        elif not isinstance(c, int) or isinstance(c, bool):
            # len(X) == a*m + b with an unknown integer m: on the path where
            # the equality holds, a*m + b = len(X) >= 0 bounds it from below
            eq_holds = (isinstance(op, ast.Eq) and val) or (isinstance(op, ast.NotEq) and not val)
            lb = self._linear_lower_bound(r, st) if eq_holds else None
            if lb:
                self._set_minlen(len_arg(l), lb - len_off(l), st)
            return
        else:
            c = c - len_off(l)
        name = len_arg(l)
        t = type(op)
        if t in (ast.In, ast.NotIn):
            holds_in = (t is ast.In) == bool(val)
            if holds_in and isinstance(c, (tuple, list, range, frozenset)) and c \
                    and all(isinstance(x, int) for x in c):
                self._set_minlen(name, min(c), st)
            return
        # normalise to the relation that HOLDS
        if not val:
            neg = {ast.Lt: ast.GtE, ast.GtE: ast.Lt, ast.Gt: ast.LtE, ast.LtE: ast.Gt,
                   ast.Eq: ast.NotEq, ast.NotEq: ast.Eq}
            if t not in neg:
                return
            t = neg[t]
        if t is ast.GtE:
            self._set_minlen(name, c, st)
        elif t is ast.Gt:
            self._set_minlen(name, c + 1, st)
        elif t is ast.Eq:
            self._set_minlen(name, c, st)
        elif t is ast.NotEq:
            cur = st.top().get("#minlen:" + name)
            if c == 0:
                self._set_minlen(name, 1, st)
            elif isinstance(cur, int) and cur == c:
                self._set_minlen(name, c + 1, st)

    def _linear_lower_bound(self, node, st):
        """node = a*NAME + b (a > 0, ints): smallest non-negative value."""
        def lin(n):
            v = self.ev(n, st)
            self._diverged = None
            if isinstance(v, int) and not isinstance(v, bool):
                return (0, v)
            if isinstance(n, ast.Name):
                return (1, 0)
            if isinstance(n, ast.BinOp):
                a, b = lin(n.left), lin(n.right)
                if a is None or b is None:
                    return None
                if isinstance(n.op, ast.Add):
                    return (a[0] + b[0], a[1] + b[1])
                if isinstance(n.op, ast.Sub):
                    return (a[0] - b[0], a[1] - b[1])
                if isinstance(n.op, ast.Mult):
                    if a[0] == 0:
                        return (a[1] * b[0], a[1] * b[1])
                    if b[0] == 0:
                        return (a[0] * b[1], a[1] * b[1])
            return None
        r = lin(node)
        if r is None or r[0] <= 0:
            return None
        a, b = r
        m = -((b) // a)          # ceil(-b / a)
        if a * m + b < 0:
            m += 1
        return a * m + b

    def _refine_set(self, target, v, st):
        if isinstance(target, ast.Name) and target.id in st.top():
            st.top()[target.id] = v
        elif isinstance(target, ast.Attribute) and isinstance(target.value, ast.Name):
            base = st.top().get(target.value.id)
            if isinstance(base, AObj):
                st.heap.setdefault(base.ident, {})[target.attr] = v

    # -- loops -----------------------------------------------------------
    def assigned_names(self, body):
        names = set()
        attrs = set()
        for st_ in body:
            for n in ast.walk(st_):
                if isinstance(n, (ast.Name,)) and isinstance(n.ctx, ast.Store):
                    names.add(n.id)
                elif isinstance(n, ast.AugAssign):
                    if isinstance(n.target, ast.Name):
                        names.add(n.target.id)
                    elif isinstance(n.target, ast.Attribute):
                        attrs.add(norm(n.target))
                elif isinstance(n, ast.Attribute) and isinstance(n.ctx, ast.Store):
                    attrs.add(norm(n))
        return names, attrs

    def havoc_for_loop(self, body, st):
        names, attrs = self.assigned_names(body)
        for n in names:
            if n in st.top():
                st.top()[n] = UNK
        for a in attrs:
            # self.x style
            parts = a.split(".")
            if len(parts) == 2:
                base = st.top().get(parts[0])
                if isinstance(base, AObj):
                    st.heap.setdefault(base.ident, {})[parts[1]] = UNK
        # containers mutated by method calls in the body
        for st_ in body:
            for n in ast.walk(st_):
                if isinstance(n, ast.Call) and isinstance(n.func, ast.Attribute) \
                        and n.func.attr in ("append", "extend", "pop", "update",
                                            "insert", "remove", "clear") and \
                        isinstance(n.func.value, ast.Name):
                    if n.func.value.id in st.top() and isinstance(
                            st.top()[n.func.value.id], (list, dict, set, bytearray)):
                        st.top()[n.func.value.id] = UNK

    def st_For(self, s, st, fr):
        it = self.ev(s.iter, st)
        if isinstance(it, AObj):
            it = models.as_iterable(self, it, st, s)
        r = self._after_ev(st)
        if r[0] is None:
            return r
        items = None
        if isinstance(it, (tuple, list, range, bytes, str)) and len(it) <= getattr(self, "for_limit", 64):
            items = list(it)
        elif isinstance(it, dict) and len(it) <= 64:
            items = list(it.keys())
        lr = LoopRec(s)
        fr.loops.append(lr)
        try:
            if items is not None:
                cur = st
                killers = set()
                for x in items:
                    if cur is None:
                        break
                    self.assign(s.target, x, cur, fr, s)
                    cur, killers = self.walk_body(s.body, cur, fr)
                    for c in lr.continues:
                        cur = join_states(cur, c)
                    lr.continues = []
                if cur is not None and s.orelse:
                    cur, killers = self.walk_body(s.orelse, cur, fr)
                for b in lr.breaks:
                    cur = join_states(cur, b)
                return cur, (killers if cur is None else set())
            # unknown iteration count: body 0..n times
            self.havoc_for_loop(s.body + s.orelse, st)
            skip = st.clone()
            self.assign(s.target, UNK, st, fr, s)
            self.unknown_depth += 1
            try:
                end, killers = self.walk_body(s.body, st, fr)
            finally:
                self.unknown_depth -= 1
            out = join_states(skip, end)
            for c in lr.continues:
                out = join_states(out, c)
            if s.orelse and out is not None:
                out, k2 = self.walk_body(s.orelse, out, fr)
            for b in lr.breaks:
                out = join_states(out, b)
            return out, set()
        finally:
            fr.loops.pop()

    def st_While(self, s, st, fr):
        """Concrete unrolling while the test stays definite (bounded), then
        the abstract treatment (havoc + one symbolic iteration)."""
        lr = LoopRec(s)
        fr.loops.append(lr)
        try:
            cur = st
            exits = []
            n = 0
            killers = set()
            while True:
                t0 = truth(self.ev(s.test, cur))
                r = self._after_ev(cur)
                if r[0] is None:
                    return r
                if t0 is False:
                    out = cur
                    break
                if t0 is None or n >= self.unroll_limit:
                    return self._while_abstract(s, cur, fr, lr, exits, t0)
                n += 1
                end, killers = self.walk_body(s.body, cur, fr)
                for c in lr.continues:
                    end = join_states(end, c)
                lr.continues = []
                exits.extend(lr.breaks)
                lr.breaks = []
                if end is None:
                    out = None
                    break
                cur = end
            if out is not None and s.orelse:
                out, k2 = self.walk_body(s.orelse, out, fr)
            for b in exits:
                out = join_states(out, b)
            if out is None:
                return None, killers | set([("loop", id(s))])
            return out, set()
        finally:
            fr.loops.pop()

    def _while_abstract(self, s, st, fr, lr, exits, t0):
        self.havoc_for_loop(s.body, st)
        always = isinstance(s.test, ast.Constant) and bool(s.test.value)
        skip = None if (always or t0 is True) else st.clone()
        self.unknown_depth += 1
        try:
            end, killers = self.walk_body(s.body, st, fr)
        finally:
            self.unknown_depth -= 1
        for c in lr.continues:
            end = join_states(end, c)
        if always:
            out = None      # only break leaves the loop
        else:
            out = join_states(skip, end)
            if out is not None:
                self.refine(s.test, False, out, fr)
        if s.orelse and out is not None:
            out, k2 = self.walk_body(s.orelse, out, fr)
        for b in lr.breaks + exits:
            out = join_states(out, b)
        if out is None:
            return None, killers | set([("loop", id(s))])
        return out, set()

    def st_Break(self, s, st, fr):
        if fr.loops:
            fr.loops[-1].breaks.append(st)
        return None, set([("break", id(s))])

    def st_Continue(self, s, st, fr):
        if fr.loops:
            fr.loops[-1].continues.append(st)
        return None, set([("continue", id(s))])

    def st_With(self, s, st, fr):
        for item in s.items:
            v = self.ev(item.context_expr, st)
            r = self._after_ev(st)
            if r[0] is None:
                return r
            if item.optional_vars is not None:
                self.assign(item.optional_vars, UNK, st, fr, s)
        return self.walk_body(s.body, st, fr)

    def st_Try(self, s, st, fr):
        tr = TryRec(s, len(self.frames) - 1)
        entry = st.clone()
        fr.tries.append(tr)
        opaque0 = self.opaque
        try:
            end, kb = self.walk_body(s.body, st, fr)
        finally:
            fr.tries.pop()
        body_transparent = self.opaque == opaque0
        if end is not None and s.orelse:
            end, kb = self.walk_body(s.orelse, end, fr)
        kb = set(k for k in kb if not (k[0] == "caught" and k[1] == id(s)))
        out = end
        killers = set(kb)
        # generic "something in the body raised" state for each handler
        names, attrs = self.assigned_names(s.body)
        generic = join_states(entry, end.clone() if end is not None else None)
        if generic is not None:
            generic = generic.clone()
            for n in names:
                if n in generic.top():
                    generic.top()[n] = UNK
        has_call = any(isinstance(n, (ast.Call, ast.Subscript, ast.BinOp))
                       for b in s.body for n in ast.walk(b))
        for h in s.handlers:
            hs = None
            definite_entry = False
            classes = []
            for (exc, cst, definite, hh) in tr.caught:
                if hh is h:
                    hs = join_states(hs, cst)
                    classes.append(exc)
            explicit = hs is not None
            if has_call and generic is not None and not body_transparent:
                g = generic.clone()
                g.must = set(entry.must)
                hs = join_states(hs, g)
            if hs is None:
                continue
            if h.name:
                hs.top()[h.name] = AExc(classes[0] if len(set(classes)) == 1
                                        else "?")
            tr.in_handler = True
            tr.cur_exc = classes[0] if len(set(classes)) == 1 else "?"
            fr.tries.append(tr)
            bump = not (explicit and end is None)
            if bump:
                self.unknown_depth += 1
            try:
                he, hk = self.walk_body(h.body, hs, fr)
            finally:
                if bump:
                    self.unknown_depth -= 1
                fr.tries.pop()
                tr.in_handler = False
            if he is None:
                if explicit:
                    killers |= hk
            out = join_states(out, he)
        if s.finalbody and out is not None:
            out, kf = self.walk_body(s.finalbody, out, fr)
            if out is None:
                return None, kf
        if out is None:
            return None, killers
        return out, set()

    # ------------------------------------------------------------------
    # expressions
    # ------------------------------------------------------------------
    def ev(self, node, st):
        self.tick()
        if node is None:
            return None
        if self.inject:
            key = norm(node)
            if key in self.inject:
                self.inject_hits[key] = self.inject_hits.get(key, 0) + 1
                v = self.inject[key]
                return v(self, st) if callable(v) else v
        m = getattr(self, "ex_" + type(node).__name__, None)
        if m is None:
            self.opaque += 1
            return UNK
        try:
            v = m(node, st)
            if isinstance(v, Unknown) and getattr(self, "_diverged", None) is None:
                self.opaque += 1
            return v
        except AnalysisError:
            raise
        except RecursionError:
            raise AnalysisError("recursion limit in abstract interpretation")
        except (ArithmeticError, ValueError, TypeError, IndexError, KeyError,
                AttributeError, OverflowError, MemoryError):
            self.opaque += 1
            return UNK

    def ex_Constant(self, n, st):
        return n.value

    def ex_Name(self, n, st):
        return self.lookup(n.id, st)

    def lookup(self, name, st):
        top = st.top()
        if name in top:
            return top[name]
        fr = self.frames[-1]
        # closures
        cl = getattr(fr, "closure", None)
        while cl is not None:
            if name in cl:
                return cl[name]
            cl = None
        v = self.module_symbol(fr.mod, name)
        if v is not None:
            return v
        if name in models.BUILTIN_NAMES:
            return ABuiltin(name)
        if name in BUILTIN_EXC:
            return ABuiltin(name)
        return UNK

    def module_symbol(self, mod, name):
        r = self.repo.resolve_symbol(mod, name)
        if r is None:
            return None
        if r[0] == "func":
            return AFunc(r[1], r[2])
        if r[0] == "class":
            return AClass(r[1], r[2])
        if r[0] == "mod":
            return self.mod_value(r[1])
        if r[0] == "extsym":
            return ABuiltin((r[1] + "." + r[2]) if r[1] else r[2])
        if r[0] == "const":
            return self.module_const(r[1], name, r[2])
        return None

    def module_const(self, mod, name, nodes):
        key = (mod.name, name)
        if key in self.const_cache:
            return self.const_cache[key]
        if key in self.const_busy or len(nodes) != 1:
            return UNK
        self.const_busy.add(key)
        try:
            saved = (self.frames, self.unknown_depth)
            self.frames = [Frame(mod, None, 99)]
            st = State()
            try:
                v = self.ev(nodes[0], st)
            finally:
                self.frames, self.unknown_depth = saved
            self._diverged = None
        finally:
            self.const_busy.discard(key)
        self.const_cache[key] = v
        return v

    def ex_Tuple(self, n, st):
        out = []
        for e in n.elts:
            if isinstance(e, ast.Starred):
                v = self.ev(e.value, st)
                if isinstance(v, (tuple, list)):
                    out.extend(v)
                else:
                    return UNK
            else:
                out.append(self.ev(e, st))
        return tuple(out)

    def ex_List(self, n, st):
        v = self.ex_Tuple(n, st)
        return list(v) if isinstance(v, tuple) else UNK

    def ex_Set(self, n, st):
        v = self.ex_Tuple(n, st)
        if isinstance(v, tuple) and is_concrete(v):
            return frozenset(v)
        return UNK

    def ex_Dict(self, n, st):
        d = {}
        for k, v in zip(n.keys, n.values):
            if k is None:
                vv = self.ev(v, st)
                if isinstance(vv, dict):
                    d.update(vv)
                else:
                    return UNK
                continue
            kk = self.ev(k, st)
            if not is_concrete(kk):
                return UNK
            d[kk] = self.ev(v, st)
        return d

    def ex_JoinedStr(self, n, st):
        for v in n.values:
            if isinstance(v, ast.FormattedValue):
                self.ev(v.value, st)
        return Unknown("str")

    def ex_IfExp(self, n, st):
        t = truth(self.ev(n.test, st))
        if t is True:
            return self.ev(n.body, st)
        if t is False:
            return self.ev(n.orelse, st)
        return join(self.ev(n.body, st), self.ev(n.orelse, st))

    def ex_Lambda(self, n, st):
        return AFunc(self.frames[-1].mod, n, closure=st.frames[-1])

    def ex_NamedExpr(self, n, st):
        v = self.ev(n.value, st)
        st.top()[n.target.id] = v
        return v

    def ex_Starred(self, n, st):
        return UNK

    def ex_UnaryOp(self, n, st):
        v = self.ev(n.operand, st)
        if isinstance(n.op, ast.Not):
            t = self.truthy(v, st, n)
            return Unknown("bool") if t is None else (not t)
        if isinstance(v, AObj) and v.cnode is not None and v.ident not in st.havoc:
            nm = {ast.USub: "__neg__", ast.UAdd: "__pos__", ast.Invert: "__invert__"}.get(type(n.op))
            m = self.repo.find_method(v.mod, v.cnode, nm) if nm else None
            if m is not None:
                return self.call_func(AFunc(m[0], m[1], self_obj=v, cls=v.cnode), [], {}, st, n)
        if is_unk(v) or not is_concrete(v):
            return Unknown(type_name(v) if type_name(v) == "int" else None)
        if isinstance(n.op, ast.USub):
            return -v
        if isinstance(n.op, ast.UAdd):
            return +v
        if isinstance(n.op, ast.Invert):
            return ~v
        return UNK

    def ex_BoolOp(self, n, st):
        is_and = isinstance(n.op, ast.And)
        cur = None
        unknown_seen = []
        saved = dict((k, v) for k, v in st.top().items()
                     if isinstance(k, str) and k.startswith("#minlen:"))
        try:
            return self._boolop(n, st, is_and)
        finally:
            for k in [k for k in st.top() if isinstance(k, str) and k.startswith("#minlen:")]:
                del st.top()[k]
            st.top().update(saved)

    def _boolop(self, n, st, is_and):
        cur = None
        unknown_seen = []
        for i, e in enumerate(n.values):
            if i > 0:
                # short-circuit: the previous operands were all true (and) /
                # all false (or) when this one is evaluated
                self.refine(n.values[i - 1], is_and, st, self.frames[-1])
            v = self.ev(e, st)
            t = truth(v)
            if t is None:
                unknown_seen.append(v)
                cur = v
                continue
            if is_and and t is False:
                if unknown_seen:
                    # definite False dominates unknowns for truthiness
                    return Unknown("falsy")
                return v
            if (not is_and) and t is True:
                if unknown_seen:
                    return Unknown("truthy")
                return v
            cur = v
        if unknown_seen:
            tn = set(type_name(u) for u in unknown_seen)
            return Unknown("bool") if tn == set(["bool"]) else UNK
        return cur

    def ex_BinOp(self, n, st):
        a = self.ev(n.left, st)
        b = self.ev(n.right, st)
        if isinstance(a, AObj) or isinstance(b, AObj):
            r = self.dunder_binop(n.op, a, b, st, n)
            if r is not NotImplemented:
                return r
            # an instance of a repo class without operator methods
            names = {ast.Add: ("__add__", "__radd__"), ast.Sub: ("__sub__", "__rsub__"),
                     ast.Mult: ("__mul__", "__rmul__"), ast.Mod: ("__mod__", "__rmod__")}.get(type(n.op))
            if names:
                defined = False
                for o, nm in ((a, names[0]), (b, names[1])):
                    if isinstance(o, AObj):
                        if o.cnode is None or o.ident in st.havoc or \
                                self.repo.find_method(o.mod, o.cnode, nm) is not None:
                            defined = True
                if not defined and (is_concrete(a) or is_concrete(b) or
                                    (isinstance(a, AObj) and isinstance(b, AObj))):
                    self._diverged = self.do_raise("TypeError", st, n)
                    return UNK
        v = self.binop(n.op, a, b)
        if isinstance(v, models.Raises):
            self._diverged = self.do_raise(v.exc, st, n)
            return UNK
        return v

    DUNDER = {ast.Add: "add", ast.Sub: "sub", ast.Mult: "mul", ast.Mod: "mod", ast.Pow: "pow",
              ast.BitXor: "xor", ast.BitAnd: "and", ast.BitOr: "or", ast.LShift: "lshift",
              ast.RShift: "rshift", ast.FloorDiv: "floordiv"}

    CMP_DUNDER = {ast.Lt: ("__lt__", "__gt__"), ast.LtE: ("__le__", "__ge__"),
                  ast.Gt: ("__gt__", "__lt__"), ast.GtE: ("__ge__", "__le__")}

    def truthy(self, v, st, node):
        """truth(v), dispatching to __bool__/__nonzero__/__len__ of interpreted objects."""
        if isinstance(v, AObj) and v.cnode is not None and v.ident not in st.havoc:
            for meth in ("__bool__", "__len__"):
                m = self.repo.find_method(v.mod, v.cnode, meth)
                if m is None and meth == "__bool__":
                    # class-level alias: __bool__ = __nonzero__
                    for m2, c2 in self.repo.mro(v.mod, v.cnode):
                        for b in c2.body:
                            if isinstance(b, ast.Assign) and isinstance(b.value, ast.Name) and any(
                                    isinstance(t, ast.Name) and t.id == "__bool__" for t in b.targets):
                                m = self.repo.find_method(v.mod, v.cnode, b.value.id)
                if m is not None:
                    r = self.call_func(AFunc(m[0], m[1], self_obj=v, cls=v.cnode), [], {}, st, node)
                    if meth == "__len__":
                        return (r != 0) if isinstance(r, int) else None
                    return truth(r)
        return truth(v)

    def dunder_binop(self, op, a, b, st, node, inplace=False):
        nm = self.DUNDER.get(type(op))
        if nm is None:
            return NotImplemented
        tries = []
        if inplace:
            tries.append((a, "__i%s__" % nm, b))
        tries.append((a, "__%s__" % nm, b))
        tries.append((b, "__r%s__" % nm, a))
        for o, meth, other in tries:
            if isinstance(o, AObj) and o.cnode is not None and o.ident not in st.havoc:
                r = self.repo.find_method(o.mod, o.cnode, meth)
                if r is not None:
                    v = self.call_func(AFunc(r[0], r[1], self_obj=o, cls=o.cnode), [other], {}, st, node)
                    if _is_notimpl(v) and getattr(self, "_diverged", None) is None:
                        continue        # the method declined: Python tries the next (reflected) one
                    return v
        return NotImplemented

    def binop(self, op, a, b):
        return models.binop(op, a, b)

    def ex_Compare(self, n, st):
        left = self.ev(n.left, st)
        result = True
        unknown = False
        for op, c in zip(n.ops, n.comparators):
            right = self.ev(c, st)
            if isinstance(op, (ast.In, ast.NotIn)) and isinstance(right, AClass):
                # membership in an Enum class: its class-level constants
                vals = []
                for b in right.node.body:
                    if isinstance(b, ast.Assign) and isinstance(b.value, ast.Constant):
                        vals.append(b.value.value)
                right = tuple(vals) if vals else UNK
            if isinstance(op, (ast.In, ast.NotIn)) and (
                    right is None or isinstance(right, (int, float))):
                self._diverged = self.do_raise("TypeError", st, n)
                return UNK
            r = models.compare(op, left, right)
            if r is None and isinstance(op, (ast.In, ast.NotIn)) and isinstance(right, (tuple, list)) and len(right) <= 64 \
                    and (isinstance(left, AObj) or any(isinstance(x, AObj) for x in right)):
                # x in (a, b, c): any(x is e or x == e), the comparison through __eq__ of whichever side has one
                hit, unk = False, False
                for e in right:
                    if e is left:
                        hit = True
                        break
                    t = None
                    for o, other in ((left, e), (e, left)):
                        if isinstance(o, AObj) and o.cnode is not None and o.ident not in st.havoc:
                            eq = self.repo.find_method(o.mod, o.cnode, "__eq__")
                            if eq is not None:
                                v = self.call_func(AFunc(eq[0], eq[1], self_obj=o, cls=o.cnode), [other], {}, st, n)
                                if _is_notimpl(v):
                                    continue
                                t = truth(v)
                                break
                    else:
                        if not isinstance(left, AObj) and not isinstance(e, AObj):
                            t = models.compare(ast.Eq(), left, e)
                    if t is True:
                        hit = True
                        break
                    if t is None:
                        unk = True
                if hit:
                    r = isinstance(op, ast.In)
                elif not unk:
                    r = isinstance(op, ast.NotIn)
            if r is None and isinstance(op, (ast.Eq, ast.NotEq)) and isinstance(left, AObj) \
                    and left.cnode is not None and left.ident not in st.havoc:
                eq = self.repo.find_method(left.mod, left.cnode, "__eq__")
                if eq is not None:
                    v = self.call_func(AFunc(eq[0], eq[1], self_obj=left, cls=left.cnode), [right], {}, st, n)
                    t = truth(v)
                    if t is not None:
                        r = t if isinstance(op, ast.Eq) else (not t)
            if r is None and type(op) in self.CMP_DUNDER:
                for o, meth, other in ((left, self.CMP_DUNDER[type(op)][0], right),
                                       (right, self.CMP_DUNDER[type(op)][1], left)):
                    if isinstance(o, AObj) and o.cnode is not None and o.ident not in st.havoc:
                        m = self.repo.find_method(o.mod, o.cnode, meth)
                        if m is not None:
                            v = self.call_func(AFunc(m[0], m[1], self_obj=o, cls=o.cnode), [other], {}, st, n)
                            if _is_notimpl(v):
                                continue
                            r = self.truthy(v, st, n)
                            break
            if r is False:
                return False
            if r is None:
                unknown = True
            left = right
        return Unknown("bool") if unknown else True

    def ex_Subscript(self, n, st):
        base = self.ev(n.value, st)
        if isinstance(base, AObj) and base.cnode is not None:
            gi = self.repo.find_method(base.mod, base.cnode, "__getitem__")
            if gi is not None:
                if isinstance(n.slice, ast.Slice):
                    parts = [self.ev(x, st) if x is not None else None
                             for x in (n.slice.lower, n.slice.upper, n.slice.step)]
                    if all(p is None or (isinstance(p, int) and not isinstance(p, bool)) for p in parts):
                        key = slice(*parts)
                    else:
                        return UNK
                else:
                    key = self.ev(n.slice, st)
                return self.call_func(AFunc(gi[0], gi[1], self_obj=base, cls=base.cnode),
                                      [key], {}, st, n)
        if isinstance(n.slice, ast.Slice):
            lo = self.ev(n.slice.lower, st) if n.slice.lower is not None else None
            hi = self.ev(n.slice.upper, st) if n.slice.upper is not None else None
            step = self.ev(n.slice.step, st) if n.slice.step is not None else None
            return models.do_slice(base, lo, hi, step)
        k = self.ev(n.slice, st)
        self.check_index(n, base, k, st)
        return models.do_index(base, k)

    def check_index(self, n, base, k, st):
        """X4: constant index on a sequence -> IndexError unless the length
        is known / proven by a dominating len() guard."""
        if not (isinstance(k, int) and not isinstance(k, bool)):
            return
        if isinstance(base, dict) or isinstance(base, (AObj, AMod, AClass)):
            return
        need = k + 1 if k >= 0 else -k
        ln = None
        if isinstance(base, (bytes, str, tuple, list, bytearray, range)):
            ln = len(base)
        elif isinstance(base, ABytes) and base.n is not None:
            ln = base.n
        if ln is not None:
            if ln < need:
                self.event("index_error", norm(n), n)
                self._diverged = self.do_raise("IndexError", st, n)
            return
        proven = self.minlen_of(n.value, st) >= need
        if not proven:
            self.event("index_unproven", norm(n), n, extra=need)

    def ex_Attribute(self, n, st):
        base = self.ev(n.value, st)
        return self.getattr(base, n.attr, st, n)

    def getattr(self, base, attr, st, node=None):
        if isinstance(base, AObj) and attr == "__class__" and base.cnode is not None:
            return AClass(base.mod, base.cnode)
        if isinstance(base, AObj) and attr == "__dict__":
            return st.heap.setdefault(base.ident, {})
        if isinstance(base, AObj) and attr == "__new__":
            return ABuiltin("object.__new__")
        if isinstance(base, AObj):
            h = st.heap.get(base.ident, {})
            if attr in h:
                return h[attr]
            if base.const_attrs is not None and attr in base.const_attrs:
                return base.const_attrs[attr]
            if base.cnode is None and attr in self.method_models:
                return AMethod(base, attr)
            if base.cnode is not None:
                v = self.class_attr(base.mod, base.cnode, attr, st, base)
                if v is not None:
                    return v
                if attr != "__getattr__" and not attr.startswith("__"):
                    ga = self.repo.find_method(base.mod, base.cnode, "__getattr__")
                    if ga is not None:
                        return self.call_func(AFunc(ga[0], ga[1], self_obj=base,
                                                    cls=base.cnode), [attr], {}, st, node)
            return UNK
        if isinstance(base, ASuper):
            seen = False
            for m, c in self.repo.mro(base.obj.mod, base.obj.cnode):
                if c is base.start:
                    seen = True
                    continue
                if not seen:
                    continue
                q = c._qualname + "." + attr
                if q in m.funcs:
                    return AFunc(m, m.funcs[q], self_obj=base.obj, cls=c)
            return UNK
        if isinstance(base, AMod):
            if base.mod is not None:
                v = self.module_symbol(base.mod, attr)
                if v is not None:
                    return v
                sub = base.name + "." + attr
                if sub in self.repo.modules:
                    return AMod(sub, self.repo.modules[sub])
                return UNK
            return ABuiltin(base.name + "." + attr)
        if isinstance(base, AClass):
            v = self.class_attr(base.mod, base.node, attr, st, None)
            if isinstance(v, AFunc) and isinstance(v.self_obj, AClass):
                # classmethod: bound to the receiver class, not the defining one
                v = AFunc(v.mod, v.node, v.closure, base, v.cls)
            return UNK if v is None else v
        if isinstance(base, ABuiltin):
            return ABuiltin(base.name + "." + attr)
        if isinstance(base, AExc):
            return UNK
        # attribute of a value: bound method model
        if isinstance(base, (int, bytes, str, bytearray, tuple, list, dict, type(None), float)) and \
                not hasattr(type(base), attr) and not (isinstance(base, int) and (
                    attr in models.INTEGER_METHODS or attr in ("name", "value"))):
            # (ints also stand for Integer objects and for IntEnum members)
            self._diverged = self.do_raise("AttributeError", st, node)
            return UNK
        return models.BoundMethod(base, attr)

    def class_attr(self, mod, cnode, attr, st, obj):
        for m, c in self.repo.mro(mod, cnode):
            for s in c.body:
                if isinstance(s, (ast.FunctionDef,)) and s.name == attr:
                    decos = [norm(d) for d in s.decorator_list]
                    if "property" in decos and obj is not None:
                        return self.call_func(AFunc(m, s, self_obj=obj, cls=c),
                                              [], {}, st, s)
                    if "staticmethod" in decos:
                        return AFunc(m, s, cls=c)
                    if "classmethod" in decos:
                        return AFunc(m, s, self_obj=AClass(m, c), cls=c)
                    return AFunc(m, s, self_obj=obj, cls=c)
                if isinstance(s, ast.Assign):
                    for t in s.targets:
                        if isinstance(t, ast.Name) and t.id == attr:
                            saved = self.frames
                            self.frames = self.frames + [Frame(m, None, 99)]
                            try:
                                return self.ev(s.value, State())
                            finally:
                                self.frames = saved
        return None

    # -- comprehensions ----------------------------------------------------
    def _comp(self, n, st, elt_fn):
        gens = n.generators
        results = []
        unknown = [False]

        def rec(i):
            if i == len(gens):
                results.append(elt_fn())
                return
            g = gens[i]
            it = self.ev(g.iter, st)
            if isinstance(it, (tuple, list, range, bytes, str, frozenset)) and \
                    len(it) <= 512:
                items = list(it)
            elif isinstance(it, dict):
                items = list(it)
            else:
                unknown[0] = True
                return
            for x in items:
                self._bind_target(g.target, x, st)
                ok = True
                for c in g.ifs:
                    t = truth(self.ev(c, st))
                    if t is None:
                        unknown[0] = True
                        ok = False
                        break
                    if not t:
                        ok = False
                        break
                if ok:
                    rec(i + 1)
        rec(0)
        if unknown[0]:
            return None
        return results

    def _bind_target(self, t, v, st):
        if isinstance(t, ast.Name):
            st.top()[t.id] = v
        elif isinstance(t, (ast.Tuple, ast.List)) and isinstance(v, (tuple, list)) \
                and len(v) == len(t.elts):
            for e, x in zip(t.elts, v):
                self._bind_target(e, x, st)
        elif isinstance(t, (ast.Tuple, ast.List)):
            for e in t.elts:
                self._bind_target(e, UNK, st)

    def ex_ListComp(self, n, st):
        r = self._comp(n, st, lambda: self.ev(n.elt, st))
        return UNK if r is None else r

    def ex_GeneratorExp(self, n, st):
        r = self._comp(n, st, lambda: self.ev(n.elt, st))
        return UNK if r is None else r

    def ex_SetComp(self, n, st):
        r = self._comp(n, st, lambda: self.ev(n.elt, st))
        if r is None or not is_concrete(r):
            return UNK
        return frozenset(r)

    def ex_DictComp(self, n, st):
        r = self._comp(n, st, lambda: (self.ev(n.key, st), self.ev(n.value, st)))
        if r is None:
            return UNK
        d = {}
        for k, v in r:
            if not is_concrete(k):
                return UNK
            d[k] = v
        return d

    # -- calls -------------------------------------------------------------
    def ex_Call(self, n, st):
        f = self.ev(n.func, st)
        args = []
        for a in n.args:
            if isinstance(a, ast.Starred):
                v = self.ev(a.value, st)
                if isinstance(v, (tuple, list)):
                    args.extend(v)
                else:
                    args.append(("*", v))
            else:
                args.append(self.ev(a, st))
        kwargs = {}
        for k in n.keywords:
            v = self.ev(k.value, st)
            if k.arg is None:
                if isinstance(v, dict) and all(isinstance(x, str) for x in v):
                    kwargs.update(v)
                else:
                    kwargs["**"] = v
            else:
                kwargs[k.arg] = v
        if getattr(self, "_diverged", None) is not None:
            return UNK
        if isinstance(n.func, ast.Attribute) and isinstance(n.func.value, ast.Name) and \
                any(isinstance(x, ast.Call) for a in list(n.args) + [k.value for k in n.keywords] for x in ast.walk(a)):
            # `lst.insert(0, g(x))`: inlining g may have copied the state's containers; the receiver of the bound
            # method is the container the name refers to *now* (a bare name: re-evaluation has no effect)
            f = self.ev(n.func, st)
        fname = norm(n.func)
        self.event("call", fname, n, args=(f, args, kwargs))
        st.must.add("call:" + fname.split(".")[-1])
        return self.call_value(f, args, kwargs, st, n)

    def call_value(self, f, args, kwargs, st, node):
        if any(isinstance(a, tuple) and len(a) == 2 and a[0] == "*" for a in args):
            starred = True
        else:
            starred = False
        if isinstance(f, AFunc):
            key = self._model_key(f)
            mdl = self.extra_models.get(key, models.REPO_MODELS.get(key))
            if mdl is False:
                mdl = None        # explicitly: interpret the real body
            if mdl is not None and not starred:
                return mdl(self, args, kwargs, st, node)
            if starred or "**" in kwargs:
                return self.opaque_call(f, args, kwargs, st, node)
            return self.call_func(f, args, kwargs, st, node)
        if isinstance(f, AClass):
            return self.instantiate(f, args, kwargs, st, node, starred)
        if isinstance(f, AMethod):
            return self.method_models[f.attr](self, f.base, args, kwargs, st, node)
        if isinstance(f, ABuiltin) and f.name == "super":
            return self.make_super(args, st)
        if isinstance(f, ABuiltin) and f.name.startswith("ffi:"):
            self.event("ffi", f.name[4:], node, args=(args, kwargs))
            mdl = self.ffi_models.get(f.name.rsplit(".", 1)[-1])
            if mdl is not None:
                return mdl(self, args, kwargs, st, node)
            return Unknown("int") if self.ffi_default is None else self.ffi_default
        if isinstance(f, ABuiltin):
            mdl = self.extra_models.get(f.name)
            if mdl is None and f.name == "os.urandom":
                # Crypto.Random.get_random_bytes is an alias of os.urandom
                mdl = self.extra_models.get("Crypto.Random.get_random_bytes")
            mdl = mdl or models.EXT_MODELS.get(f.name)
            if mdl is None:
                short = f.name.split(".")[-1]
                if short in BUILTIN_EXC and f.name in BUILTIN_EXC:
                    return AExc(f.name, tuple(args))
            if mdl is not None and not starred:
                return mdl(self, args, kwargs, st, node)
            if not (f.name.split(".")[-1] in BUILTIN_EXC):
                for a in list(args) + list(kwargs.values()):
                    if isinstance(a, (dict, list, bytearray)):
                        self.havoc_container(st, a)
            return UNK
        if isinstance(f, models.BoundMethod):
            if starred:
                return UNK
            return models.call_method(self, f.base, f.attr, args, kwargs, st, node)
        if isinstance(f, AFfi):
            self.event("ffi", f.lib + "." + f.sym, node, args=(args, kwargs))
            mdl = self.ffi_models.get(f.sym)
            if mdl is not None:
                return mdl(self, args, kwargs, st, node)
            return Unknown("int") if self.ffi_default is None else self.ffi_default
        # unknown callee: it may mutate the containers it is given
        for a in list(args) + list(kwargs.values()):
            if isinstance(a, (dict, list, bytearray)):
                self.havoc_container(st, a)
        return UNK

    def probe_attr(self, obj, attr, st, node):
        """hasattr() semantics on an object whose class defines __getattr__:
        True / False / None."""
        ga = self.repo.find_method(obj.mod, obj.cnode, "__getattr__")
        if ga is None:
            return None
        fr = self.frames[-1]
        tnode = ast.parse("try:\n    pass\nexcept AttributeError:\n    pass\n").body[0]
        tr = TryRec(tnode, len(self.frames) - 1)
        fr.tries.append(tr)
        saved_outcomes = len(self.res.outcomes)
        try:
            self.call_func(AFunc(ga[0], ga[1], self_obj=obj, cls=obj.cnode), [attr], {}, st, node)
        finally:
            fr.tries.pop()
        div = self._diverged
        self._diverged = None
        if div is not None:
            # never returned: False iff everything that killed it was caught here
            if all(k[0] == "caught" and k[1] == id(tnode) for k in div):
                return False
            return None
        if tr.caught:
            return None
        return True

    def make_super(self, args, st):
        """super() / super(Cls, self): proxy that resolves attributes after
        Cls in the MRO of the object."""
        obj = None
        start = None
        if len(args) == 2 and isinstance(args[0], AClass) and isinstance(args[1], AObj):
            start, obj = args[0].node, args[1]
        elif not args:
            fr = self.frames[-1]
            obj = st.top().get("self")
            q = getattr(fr.fn, "_qualname", "")
            if "." in q and q.rsplit(".", 1)[0] in fr.mod.classes:
                start = fr.mod.classes[q.rsplit(".", 1)[0]]
        if not isinstance(obj, AObj) or start is None or obj.cnode is None:
            return UNK
        return ASuper(obj, start)

    def havoc_container(self, st, obj):
        for f in st.frames:
            for k, v in list(f.items()):
                if v is obj:
                    f[k] = UNK
        for h in st.heap.values():
            for k, v in list(h.items()):
                if v is obj:
                    h[k] = UNK

    def _model_key(self, f):
        nm = getattr(f.node, "name", "<lambda>")
        if f.cls is not None:
            return f.mod.name + "." + f.cls.name + "." + nm
        return f.mod.name + "." + nm

    def opaque_call(self, f, args, kwargs, st, node):
        # cannot bind arguments precisely: havoc what the callee may mutate
        for a in list(args) + list(kwargs.values()) + [f.self_obj]:
            if isinstance(a, AObj):
                st.heap[a.ident] = {}
                st.havoc.add(a.ident)
        return UNK

    def instantiate(self, c, args, kwargs, st, node, starred=False):
        mro_names = [x[1].name for x in self.repo.mro(c.mod, c.node)]
        exts = self.repo.exc_bases(c.mod, c.node)
        if any(e.split(".")[-1] in BUILTIN_EXC for e in exts):
            return AExc(c.node.name, tuple(args))
        key = c.mod.name + "." + c.node.name
        mdl = self.extra_models.get(key, models.REPO_MODELS.get(key))
        if mdl is False:
            mdl = None
        if mdl is not None and not starred:
            return mdl(self, args, kwargs, st, node)
        obj = self.new_obj(st, c.mod, c.node, havoc=False)
        init = self.repo.find_method(c.mod, c.node, "__init__")
        if init is not None:
            f = AFunc(init[0], init[1], self_obj=obj, cls=c.node)
            if starred or "**" in kwargs:
                self.opaque_call(f, args, kwargs, st, node)
            else:
                self.call_func(f, args, kwargs, st, node)
        return obj

    def _eager_generator(self, f, args, kwargs, st, node, depth):
        """A generator function called with concrete arguments: its body is interpreted eagerly and the first
        `eager_generators` yielded values are returned as a list (the last element is UNK when the generator was cut
        off, so that a consumer that needs more becomes undecided instead of wrong).  Only for generators without
        side effects on shared state (checked: no attribute / subscript store, no global / nonlocal)."""
        fn = f.node
        for x in walk_no_nested(fn):
            if isinstance(x, (ast.Global, ast.Nonlocal)) or \
                    (isinstance(x, (ast.Attribute, ast.Subscript)) and isinstance(getattr(x, "ctx", None), ast.Store)):
                return self.opaque_call(f, args, kwargs, st, node)
        a = fn.args
        pos = [x.arg for x in a.args]
        env = dict(zip(pos, ([f.self_obj] if f.self_obj is not None else []) + list(args)))
        env.update(kwargs)
        if len(env) != len(pos) or a.vararg or a.kwarg:
            return self.opaque_call(f, args, kwargs, st, node)
        nf, ns = len(self.frames), len(st.frames)
        fr = Frame(f.mod, fn, depth + 1)
        fr.closure = f.closure
        fr.gen_values = []
        fr.gen_cap = self.eager_generators
        self.frames.append(fr)
        st.frames.append(env)
        cut = False
        try:
            self.walk_body(fn.body, st, fr)
        except _GenStop:
            cut = True
        finally:
            del self.frames[nf:]
            del st.frames[ns:]
        self._diverged = None
        return list(fr.gen_values) + ([UNK] if cut else [])

    def ex_Yield(self, n, st):
        fr = self.frames[-1]
        if not hasattr(fr, "gen_values"):
            return UNK
        fr.gen_values.append(self.ev(n.value, st) if n.value is not None else None)
        if len(fr.gen_values) >= fr.gen_cap:
            raise _GenStop()
        return None

    def call_func(self, f, args, kwargs, st, node):
        fn = f.node
        nm = getattr(fn, "name", "<lambda>")
        depth = self.frames[-1].depth if self.frames[-1].depth < 90 else 0
        too_deep = depth + 1 > self.max_depth or nm in self.no_inline or \
            len(self.frames) > self.max_depth + 2
        if not too_deep and self.inline_filter is not None:
            too_deep = not self.inline_filter(f, depth + 1)
        is_gen = any(isinstance(x, (ast.Yield, ast.YieldFrom)) for x in walk_no_nested(fn)) if not isinstance(fn, ast.Lambda) else False
        if is_gen and not too_deep and getattr(self, "eager_generators", 0) and \
                not any(isinstance(x, ast.YieldFrom) for x in walk_no_nested(fn)):
            return self._eager_generator(f, args, kwargs, st, node, depth)
        if too_deep or is_gen:
            return self.opaque_call(f, args, kwargs, st, node)
        # bind parameters
        a = fn.args
        pos = [x.arg for x in getattr(a, "posonlyargs", [])] + [x.arg for x in a.args]
        env = {}
        actual = list(args)
        if f.self_obj is not None:
            actual = [f.self_obj] + actual
        for i, p in enumerate(pos):
            if i < len(actual):
                env[p] = actual[i]
        extra = actual[len(pos):]
        if a.vararg:
            env[a.vararg.arg] = tuple(extra)
        kw = dict(kwargs)
        for p in pos + [x.arg for x in a.kwonlyargs]:
            if p in kw:
                env[p] = kw.pop(p)
        if a.kwarg:
            env[a.kwarg.arg] = dict(kw)
        # defaults are evaluated in the callee's module
        defaults = dict(zip(pos[len(pos) - len(a.defaults):], a.defaults))
        for k, d in zip(a.kwonlyargs, a.kw_defaults):
            if d is not None:
                defaults[k.arg] = d
        fr = Frame(f.mod, fn, depth + 1)
        fr.closure = f.closure
        self.frames.append(fr)
        st.frames.append(env)
        try:
            for p, d in defaults.items():
                if p not in env:
                    env[p] = self.ev(d, st)
            for p in pos + [x.arg for x in a.kwonlyargs]:
                if p not in env:
                    env[p] = UNK
            if isinstance(fn, ast.Lambda):
                v = self.ev(fn.body, st)
                if getattr(self, "_diverged", None) is not None:
                    return UNK
                st.frames.pop()
                return v
            end, killers = self.walk_body(fn.body, st, fr)
        finally:
            self.frames.pop()
        rets = list(fr.returns)
        if end is not None:
            rets.append((None, end))
        if not rets:
            # the call never returns normally
            self._diverged = set(k for k in killers
                                 if k[0] in ("raise", "caught", "loop"))
            if not self._diverged:
                self._diverged = set([("raise", "?", id(node))])
            # restore frame shape for the caller (state is dead anyway)
            return UNK
        val = rets[0][0]
        out = rets[0][1]
        for v, s2 in rets[1:]:
            val = join(val, v)
            out = join_states(out, s2)
        # install the joined state into the caller's state object
        out.frames = out.frames[:len(self.frames)]
        st.frames = out.frames
        st.heap = out.heap
        st.must = out.must
        st.havoc = out.havoc
        return val
