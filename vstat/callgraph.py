"""Resolved call graph over the Python program (name/attribute resolution
inside the package; unresolved calls are kept by their textual name)."""
import ast

from .pydb import walk_no_nested, norm


def callees(repo, mod, fn):
    """Yield (call node, resolved (Module, FunctionDef) or None, text)."""
    cq = fn._qualname.rsplit(".", 1)[0] if "." in getattr(fn, "_qualname", "") else None
    cnode = mod.classes.get(cq) if cq else None
    indirect = None
    for n in walk_no_nested(fn):
        if not isinstance(n, ast.Call):
            continue
        f = n.func
        text = norm(f)
        res = None
        if isinstance(f, ast.Name) and fn._qualname + "." + f.id not in mod.funcs and repo.resolve_symbol(mod, f.id) is None:
            # call through a local variable: `for decode in (f1, f2, f3): decode(...)`, `g = f1; g(...)`
            if indirect is None:
                indirect = _function_valued_locals(repo, mod, fn)
            cands = indirect.get(f.id, [])
            if cands:
                for r in cands:
                    yield n, r, text
                continue
        if isinstance(f, ast.Name):
            # local function?
            local = None
            q = fn._qualname + "." + f.id
            if q in mod.funcs:
                res = (mod, mod.funcs[q])
            else:
                r = repo.resolve_symbol(mod, f.id)
                if r and r[0] == "func":
                    res = (r[1], r[2])
                elif r and r[0] == "class":
                    i = repo.find_method(r[1], r[2], "__init__")
                    if i:
                        res = i
        elif isinstance(f, ast.Attribute):
            if isinstance(f.value, ast.Name) and f.value.id in ("self", "cls") and cnode is not None:
                r = repo.find_method(mod, cnode, f.attr)
                if r:
                    res = r
            elif isinstance(f.value, ast.Name):
                r = repo.resolve_symbol(mod, f.value.id)
                if r and r[0] == "mod" and r[1] in repo.modules:
                    m2 = repo.modules[r[1]]
                    r2 = repo.resolve_symbol(m2, f.attr)
                    if r2 and r2[0] == "func":
                        res = (r2[1], r2[2])
                    elif r2 and r2[0] == "class":
                        i = repo.find_method(r2[1], r2[2], "__init__")
                        if i:
                            res = i
                elif r and r[0] == "class":
                    i = repo.find_method(r[1], r[2], f.attr)
                    if i:
                        res = i
        yield n, res, text


def _function_valued_locals(repo, mod, fn):
    """Local names that hold one of a fixed set of module-level functions: assigned from a function name, or the
    target of a `for` over a tuple/list literal of function names (directly or through a local)."""
    def funcs_of(v, lits):
        if isinstance(v, ast.Name):
            r = repo.resolve_symbol(mod, v.id)
            if r and r[0] == "func":
                return [(r[1], r[2])]
            return lits.get(v.id, [])
        if isinstance(v, (ast.Tuple, ast.List)):
            out = []
            for e in v.elts:
                out += funcs_of(e, lits)
            return out
        return []
    lits, out = {}, {}
    nodes = list(walk_no_nested(fn))
    for _ in range(2):
        for n in nodes:
            if isinstance(n, ast.Assign) and len(n.targets) == 1 and isinstance(n.targets[0], ast.Name):
                fs = funcs_of(n.value, lits)
                if fs:
                    lits[n.targets[0].id] = fs
                    if isinstance(n.value, ast.Name):
                        out[n.targets[0].id] = fs
            elif isinstance(n, ast.For) and isinstance(n.target, ast.Name):
                fs = funcs_of(n.iter, lits)
                if fs:
                    out[n.target.id] = fs
    return out


def reachable(repo, mod, fn, max_depth=6):
    """Transitive closure: dict id(fn) -> (Module, fn, chain) and the list of
    all call sites (call, resolved, text, chain)."""
    seen = {}
    sites = []
    todo = [(mod, fn, (fn._qualname,))]
    while todo:
        m, f, chain = todo.pop()
        if id(f) in seen or len(chain) > max_depth:
            continue
        seen[id(f)] = (m, f, chain)
        for call, res, text in callees(repo, m, f):
            sites.append((call, res, text, chain, m))
            if res is not None and id(res[1]) not in seen:
                todo.append((res[0], res[1], chain + (res[1]._qualname,)))
    return seen, sites
