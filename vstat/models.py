"""Transfer functions for operators, builtins and a few repo helpers.

Every model is the checker's own statement of what a builtin / helper returns
on abstract arguments; nothing from /repo is executed.  Helpers of the repo
that are modelled instead of interpreted are leaf utilities whose bodies are
irrelevant to the rules (byte conversion, FFI glue, the Integer wrapper).
"""
import ast
import binascii
import struct

from .absval import (UNK, Unknown, ABytes, AObj, AFunc, AClass, AMod, ABuiltin, ADeque,
                     AExc, AFfi, is_unk, is_concrete, same, join, truth,
                     type_name)

BUILTIN_NAMES = set("""len min max abs int bool bytes bytearray str isinstance
range tuple list dict set frozenset sorted reversed enumerate zip sum any all
pow divmod ord chr hex map iter next getattr hasattr memoryview type id
callable print object super repr round bin filter issubclass setattr
NotImplemented float""".split())

BIGPOW = 1 << 20


class Raises(object):
    """Result of an operator on concrete operands that raises in Python."""
    __slots__ = ("exc",)

    def __init__(self, exc):
        self.exc = exc


class BoundMethod(object):
    __slots__ = ("base", "attr")

    def __init__(self, base, attr):
        self.base = base
        self.attr = attr

    def __repr__(self):
        return "<method %r.%s>" % (self.base, self.attr)


def _blen(v):
    if isinstance(v, (bytes, bytearray, str)):
        return len(v)
    if isinstance(v, ABytes):
        return v.n
    return None


def _bkind(v):
    if isinstance(v, ABytes):
        return v.kind
    if isinstance(v, (bytes, bytearray, str)):
        return type(v).__name__
    return None


def is_int(v):
    return isinstance(v, int) and not isinstance(v, bool) or isinstance(v, bool)


# ---------------------------------------------------------------------------
# operators
# ---------------------------------------------------------------------------

def binop(op, a, b):
    if is_concrete(a) and is_concrete(b):
        try:
            if isinstance(op, ast.Add):
                return a + b
            if isinstance(op, ast.Sub):
                return a - b
            if isinstance(op, ast.Mult):
                if isinstance(a, (bytes, str, list, tuple)) and isinstance(b, int) and b * max(1, len(a)) > BIGPOW:
                    return ABytes(b * len(a), type(a).__name__) if isinstance(a, (bytes, str)) else UNK
                if isinstance(b, (bytes, str, list, tuple)) and isinstance(a, int) and a * max(1, len(b)) > BIGPOW:
                    return ABytes(a * len(b), type(b).__name__) if isinstance(b, (bytes, str)) else UNK
                return a * b
            if isinstance(op, ast.FloorDiv):
                return a // b
            if isinstance(op, ast.Div):
                return a / b
            if isinstance(op, ast.Mod):
                if isinstance(a, (str, bytes)):
                    try:
                        return a % b
                    except Exception:
                        return Unknown(type(a).__name__)
                return a % b
            if isinstance(op, ast.Pow):
                if isinstance(b, int) and isinstance(a, int) and (
                        b > 100000 or (abs(a) > 1 and b * max(1, abs(a).bit_length()) > 1 << 22)):
                    return Unknown("int")
                return a ** b
            if isinstance(op, ast.LShift):
                if b > 1 << 22:
                    return Unknown("int")
                return a << b
            if isinstance(op, ast.RShift):
                return a >> b
            if isinstance(op, ast.BitOr):
                return a | b
            if isinstance(op, ast.BitAnd):
                return a & b
            if isinstance(op, ast.BitXor):
                return a ^ b
        except TypeError:
            return Raises("TypeError")
        except ZeroDivisionError:
            return Raises("ZeroDivisionError")
        except ValueError:
            # negative shift count
            return Raises("ValueError")
        except Exception:
            return UNK
        return UNK
    # three-valued boolean accumulation: flag |= cond
    if isinstance(op, ast.BitOr):
        ta, tb = type_name(a), type_name(b)
        if (a is True and tb in ("bool", None)) or (b is True and ta in ("bool", None)):
            if (a is True and (tb == "bool" or isinstance(b, Unknown))) or \
                    (b is True and (ta == "bool" or isinstance(a, Unknown))):
                if (ta in ("bool", None)) and (tb in ("bool", None)):
                    return True
        if ta == "bool" and tb == "bool":
            return Unknown("bool")
    if isinstance(op, ast.BitAnd):
        ta, tb = type_name(a), type_name(b)
        if (a is False and tb == "bool") or (b is False and ta == "bool"):
            return False
        if ta == "bool" and tb == "bool":
            return Unknown("bool")
    # byte strings of known length
    la, lb = _blen(a), _blen(b)
    ka, kb = _bkind(a), _bkind(b)
    if isinstance(op, ast.Add) and ka and kb:
        kind = ka if ka != "memoryview" else "bytes"
        if la is not None and lb is not None:
            return ABytes(la + lb, kind)
        return ABytes(None, kind)
    if isinstance(op, ast.Mult):
        if ka and isinstance(b, int):
            return ABytes(la * max(b, 0) if la is not None else None, ka)
        if kb and isinstance(a, int):
            return ABytes(lb * max(a, 0) if lb is not None else None, kb)
        if ka and type_name(b) == "int":
            return ABytes(None, ka)
        if kb and type_name(a) == "int":
            return ABytes(None, kb)
    if isinstance(op, ast.Mod) and ka in ("str", "bytes"):
        return Unknown(ka)
    if isinstance(op, ast.Add):
        if isinstance(a, (list, tuple)) and isinstance(b, type(a)):
            return a + b
    ta, tb = type_name(a), type_name(b)
    ints = ("int", "bool")
    if ta in ints and tb in ints:
        return Unknown("int")
    if (ta in ints and tb is None) or (tb in ints and ta is None):
        if isinstance(op, (ast.Sub, ast.FloorDiv, ast.Pow, ast.LShift, ast.RShift,
                           ast.BitAnd, ast.BitOr, ast.BitXor)):
            return Unknown("int") if not (ta is None and tb is None) else UNK
    return UNK


def _not_none(v):
    """Definitely not None?"""
    if v is None:
        return False
    if isinstance(v, Unknown):
        return True if v.typ in ("int", "bool", "bytes", "str", "truthy",
                                 "bytearray", "tuple", "list", "dict",
                                 "notnone") else None
    return True


def compare(op, a, b):
    """True / False / None."""
    if isinstance(op, (ast.Is, ast.IsNot)):
        if b is None or a is None:
            other = a if b is None else b
            nn = _not_none(other)
            if nn is None:
                return None
            r = not nn
            return r if isinstance(op, ast.Is) else (not r)
        if isinstance(a, bool) and isinstance(b, bool):
            return (a is b) if isinstance(op, ast.Is) else (a is not b)
        if isinstance(a, AObj) and isinstance(b, AObj):
            r = a.ident == b.ident
            return r if isinstance(op, ast.Is) else (not r)
        if isinstance(a, (AClass, AMod, ABuiltin)) and type(a) is type(b):
            r = same(a, b)
            return r if isinstance(op, ast.Is) else (not r)
        return None
    if isinstance(op, (ast.In, ast.NotIn)):
        r = _contains(b, a)
        if r is None:
            return None
        return r if isinstance(op, ast.In) else (not r)
    if isinstance(op, (ast.Eq, ast.NotEq)):
        r = _equal(a, b)
        if r is None:
            return None
        return r if isinstance(op, ast.Eq) else (not r)
    if is_concrete(a) and is_concrete(b):
        try:
            if isinstance(op, ast.Lt):
                return a < b
            if isinstance(op, ast.LtE):
                return a <= b
            if isinstance(op, ast.Gt):
                return a > b
            if isinstance(op, ast.GtE):
                return a >= b
        except Exception:
            return None
    return None


def _equal(a, b):
    if a is None or b is None:
        other = a if b is None else b
        if other is None:
            return True
        nn = _not_none(other)
        return None if nn is None else (not nn)
    if is_concrete(a) and is_concrete(b):
        try:
            return bool(a == b)
        except Exception:
            return None
    la, lb = _blen(a), _blen(b)
    if la is not None and lb is not None and _bkind(a) and _bkind(b):
        if la != lb:
            return False
        return None
    ta, tb = type_name(a), type_name(b)
    basic = {"int": 1, "bool": 1, "bytes": 2, "bytearray": 2, "str": 3,
             "tuple": 4, "list": 5, "dict": 6, "NoneType": 7}
    if ta in basic and tb in basic and basic[ta] != basic[tb]:
        return False
    if isinstance(a, (AClass, AMod, ABuiltin, AFfi)) and type(a) is type(b):
        return same(a, b)
    if isinstance(a, (tuple, list)) and isinstance(b, (tuple, list)) and \
            type(a) is type(b):
        if len(a) != len(b):
            return False
        res = True
        for x, y in zip(a, b):
            r = _equal(x, y)
            if r is False:
                return False
            if r is None:
                res = None
        return res
    return None


def _contains(container, item):
    if isinstance(container, (tuple, list, frozenset, set)):
        res = False
        for x in container:
            r = _equal(x, item)
            if r is True:
                return True
            if r is None:
                res = None
        return res
    if isinstance(container, range):
        if isinstance(item, int):
            return item in container
        return None
    if isinstance(container, dict):
        if is_concrete(item):
            try:
                return item in container
            except TypeError:
                return None
        return None
    if isinstance(container, (bytes, str)) and isinstance(item, (bytes, str, int)):
        try:
            return item in container
        except TypeError:
            return None
    return None


def do_slice(base, lo, hi, step):
    def ok(x):
        return x is None or (isinstance(x, int) and not isinstance(x, bool))
    if isinstance(base, (bytes, str, tuple, list, bytearray, range)):
        if ok(lo) and ok(hi) and ok(step):
            try:
                return base[lo:hi:step]
            except Exception:
                return UNK
        if isinstance(base, (bytes, str, bytearray)):
            return ABytes(None, type(base).__name__)
        return UNK
    if isinstance(base, ABytes):
        if base.n is not None and ok(lo) and ok(hi) and ok(step):
            try:
                return ABytes(len(range(base.n)[lo:hi:step]), base.kind)
            except Exception:
                return ABytes(None, base.kind)
        return ABytes(None, base.kind)
    if isinstance(base, Unknown) and base.typ in ("bytes", "str", "bytearray"):
        return ABytes(None, base.typ)
    return UNK


def do_index(base, k):
    if isinstance(k, slice) and isinstance(base, (tuple, list, bytes, str, bytearray, range)):
        return base[k]
    if isinstance(base, dict):
        if is_concrete(k):
            try:
                return base.get(k, UNK)
            except TypeError:
                return UNK
        return UNK
    if isinstance(base, (tuple, list)):
        if isinstance(k, int) and -len(base) <= k < len(base):
            return base[k]
        return UNK
    if isinstance(base, (bytes, str, bytearray, range)):
        if isinstance(k, int):
            try:
                return base[k]
            except IndexError:
                return UNK
        return Unknown("int") if not isinstance(base, str) else ABytes(1, "str")
    if isinstance(base, ABytes):
        if base.kind == "str":
            return ABytes(1, "str")
        return Unknown("int")
    return UNK


# ---------------------------------------------------------------------------
# methods on values
# ---------------------------------------------------------------------------

PURE_STR = set("""startswith endswith split rsplit strip lstrip rstrip join
replace find rfind index count upper lower decode encode hex isdigit zfill ljust
rjust splitlines partition rpartition title isalpha isalnum translate format
bit_length to_bytes center""".split())

INTEGER_METHODS = set("""is_odd is_even size_in_bits size_in_bytes gcd lcm
inverse is_negative sqrt is_perfect_square jacobi_symbol get_bit
fail_if_divisible_by multiply_accumulate inplace_pow inplace_inverse set
to_bytes""".split())


def _re_compile(i, args, kw, st, node):
    """re.compile with a constant pattern: the compiled pattern is a concrete value (the checker's `re`, i.e. the
    standard library's semantics of the pattern text; nothing of the repository runs)."""
    import re as _re
    if args and isinstance(args[0], (str, bytes)) and all(isinstance(a, int) for a in args[1:]):
        try:
            return _re.compile(*args)
        except Exception:
            i._diverged = i.do_raise("re.error", st, node)
            return UNK
    return UNK


def _re_func(kind):
    def f(i, args, kw, st, node):
        import re as _re
        if len(args) >= 2 and isinstance(args[0], (str, bytes)) and isinstance(args[1], (str, bytes, bytearray)) and type(args[0]) is type(
                bytes(args[1]) if isinstance(args[1], bytearray) else args[1]):
            try:
                return getattr(_re, kind)(args[0], bytes(args[1]) if isinstance(args[1], bytearray) else args[1], *[a for a in args[2:] if isinstance(a, int)])
            except Exception:
                return UNK
        return UNK
    return f


def _re_sub(i, args, kw, st, node):
    import re as _re
    if len(args) >= 3 and all(isinstance(a, str) for a in args[:3]) or len(args) >= 3 and all(isinstance(a, bytes) for a in args[:3]):
        flags = kw.get("flags", args[4] if len(args) > 4 else 0)
        count = kw.get("count", args[3] if len(args) > 3 else 0)
        nm = getattr(flags, "name", None)
        if isinstance(nm, str) and nm.startswith("re.") and nm[3:] in ("DOTALL", "S", "I", "IGNORECASE", "M", "MULTILINE", "X", "VERBOSE", "A", "ASCII"):
            flags = int(getattr(_re, nm[3:]))
        if isinstance(flags, int) and isinstance(count, int):
            try:
                return _re.sub(args[0], args[1], args[2], count=count, flags=flags)
            except Exception:
                return UNK
    return UNK


def call_method(interp, base, attr, args, kwargs, st, node):
    import re as _re
    if isinstance(base, _re.Pattern):
        if attr in ("match", "search", "fullmatch", "findall", "split", "sub") and args and all(isinstance(a, (str, bytes, int)) for a in args):
            try:
                return getattr(base, attr)(*args)
            except TypeError:
                interp._diverged = interp.do_raise("TypeError", st, node)
                return UNK
        return UNK
    if isinstance(base, _re.Match):
        if attr in ("group", "groups", "start", "end", "span", "groupdict") and all(isinstance(a, (int, str)) for a in args):
            try:
                return getattr(base, attr)(*args)
            except IndexError:
                interp._diverged = interp.do_raise("IndexError", st, node)
                return UNK
        return UNK
    # dict -----------------------------------------------------------------
    if isinstance(base, dict):
        if attr in ("get", "pop", "setdefault"):
            if args and is_concrete(args[0]):
                k = args[0]
                dflt = args[1] if len(args) > 1 else (
                    None if attr != "pop" else UNK)
                try:
                    if k in base:
                        v = base[k]
                        if attr == "pop":
                            del base[k]
                        return v
                    if attr == "pop" and len(args) < 2:
                        # KeyError
                        interp._diverged = interp.do_raise("KeyError", st, node)
                        return UNK
                    if attr == "setdefault":
                        base[k] = dflt
                    return dflt
                except TypeError:
                    return UNK
            return UNK
        if attr == "keys":
            return list(base.keys())
        if attr == "values":
            return list(base.values())
        if attr == "items":
            return [(k, v) for k, v in base.items()]
        if attr == "copy":
            return dict(base)
        if attr == "update":
            if args and isinstance(args[0], dict):
                base.update(args[0])
            elif args:
                base.clear()
            for k, v in kwargs.items():
                base[k] = v
            return None
        return UNK
    # list -----------------------------------------------------------------
    if isinstance(base, ADeque) and attr in ("popleft", "appendleft"):
        if attr == "popleft" and not args:
            if not base:
                interp._diverged = interp.do_raise("IndexError", st, node)
                return UNK
            return base.pop(0)
        if attr == "appendleft" and len(args) == 1:
            base.insert(0, args[0])
            return None
        return UNK
    if isinstance(base, list):
        if attr == "append" and len(args) == 1:
            base.append(args[0])
            return None
        if attr == "extend" and len(args) == 1 and isinstance(args[0], (list, tuple)):
            base.extend(args[0])
            return None
        if attr == "pop":
            try:
                return base.pop(*[a for a in args if isinstance(a, int)])
            except Exception:
                return UNK
        if attr == "copy":
            return list(base)
        if attr == "insert" and len(args) == 2 and isinstance(args[0], int):
            base.insert(args[0], args[1])
            return None
        if attr == "index" and len(args) == 1 and is_concrete(base) and is_concrete(args[0]):
            try:
                return base.index(args[0])
            except ValueError:
                return UNK
        if attr == "count" and is_concrete(base) and args and is_concrete(args[0]):
            return base.count(args[0])
        if attr in ("sort", "reverse") and is_concrete(base):
            getattr(base, attr)()
            return None
        return UNK
    if isinstance(base, tuple):
        if attr in ("index", "count") and is_concrete(base) and args and is_concrete(args[0]):
            try:
                return getattr(base, attr)(args[0])
            except ValueError:
                return UNK
        return UNK
    # Integer-like methods on ints --------------------------------------------
    if isinstance(base, int) and attr in INTEGER_METHODS and \
            all(is_concrete(a) for a in args):
        r = _integer_method(interp, base, attr, args, kwargs, st, node)
        if r is not NotImplemented:
            return r
    if type_name(base) == "int" and attr in INTEGER_METHODS:
        if attr in ("is_odd", "is_even", "is_negative", "is_perfect_square"):
            return Unknown("bool")
        if attr == "to_bytes":
            n = args[0] if args else kwargs.get("block_size", 0)
            if isinstance(n, int) and n > 0:
                return ABytes(n, "bytes")
            return ABytes(None, "bytes")
        if attr == "fail_if_divisible_by":
            return None
        return Unknown("int")
    # concrete str/bytes/int ---------------------------------------------------
    if isinstance(base, (bytes, str, int, bytearray)) and attr in PURE_STR and \
            all(is_concrete(a) for a in args) and all(is_concrete(v) for v in kwargs.values()):
        try:
            return getattr(base, attr)(*args, **kwargs)
        except Exception:
            return UNK
    if isinstance(base, (bytes, str, bytearray)) and attr == "join":
        if args and isinstance(args[0], (list, tuple)):
            tot = 0
            for x in args[0]:
                l = _blen(x)
                if l is None:
                    return ABytes(None, type(base).__name__)
                tot += l
            tot += len(base) * max(0, len(args[0]) - 1)
            return ABytes(tot, type(base).__name__)
        return ABytes(None, type(base).__name__)
    if isinstance(base, bytearray) and attr == "reverse" and not args:
        base.reverse()
        return None
    if isinstance(base, bytearray) and attr in ("extend", "append"):
        if len(args) == 1 and isinstance(args[0], (bytes, bytearray) if attr == "extend" else int):
            try:
                getattr(base, attr)(args[0])
            except ValueError:
                return UNK
        return None
    # abstract byte strings -------------------------------------------------------
    k = _bkind(base)
    if k:
        n = _blen(base)
        if attr in ("startswith", "endswith", "isdigit", "isalpha"):
            return Unknown("bool")
        if attr in ("decode",):
            return ABytes(n, "str")
        if attr in ("encode",):
            return ABytes(n, "bytes")
        if attr == "hex":
            return ABytes(2 * n if n is not None else None, "str")
        if attr in ("upper", "lower", "translate"):
            return ABytes(n, k)
        if attr in ("ljust", "rjust", "zfill", "center") and args and isinstance(args[0], int):
            return ABytes(max(n, args[0]) if n is not None else None, k)
        if attr in ("strip", "lstrip", "rstrip", "replace"):
            return ABytes(None, k)
        if attr in ("find", "rfind", "index", "count"):
            return Unknown("int")
        if attr in ("split", "rsplit", "splitlines"):
            return Unknown("list")
        if attr == "tobytes":
            return ABytes(n, "bytes")
        if attr == "join":
            return ABytes(None, k)
        return UNK
    if isinstance(base, Unknown):
        if attr in ("digest", "read"):
            n = None
            if attr == "read" and args and isinstance(args[0], int):
                n = args[0]
            return ABytes(n, "bytes")
        if attr in ("hexdigest",):
            return ABytes(None, "str")
        if attr in ("encrypt", "decrypt") and args and _bkind(args[0]) and \
                kwargs.get("output") is None and len(args) < 2:
            return ABytes(_blen(args[0]), "bytes")
        if base.typ in ("bytes", "str", "bytearray"):
            return call_method(interp, ABytes(None, base.typ), attr, args, kwargs, st, node)
    return UNK


def _isqrt(n):
    import math
    return math.isqrt(n)


def small_is_prime(n):
    if n < 2:
        return False
    if n < 4:
        return True
    if n % 2 == 0:
        return False
    # deterministic Miller-Rabin for n < 3.3e24, plain trial for small
    d, s = n - 1, 0
    while d % 2 == 0:
        d //= 2
        s += 1
    for a in (2, 3, 5, 7, 11, 13, 17, 19, 23, 29, 31, 37, 41):
        if a % n == 0:
            continue
        x = pow(a, d, n)
        if x in (1, n - 1):
            continue
        for _ in range(s - 1):
            x = x * x % n
            if x == n - 1:
                break
        else:
            return False
    return True


def _integer_method(interp, v, attr, args, kwargs, st, node):
    import math
    try:
        if attr == "is_odd":
            return v & 1 == 1
        if attr == "is_even":
            return v & 1 == 0
        if attr == "size_in_bits":
            if v < 0:
                interp._diverged = interp.do_raise("ValueError", st, node)
                return UNK
            return max(1, v.bit_length())
        if attr == "size_in_bytes":
            return (max(1, v.bit_length()) + 7) // 8
        if attr == "gcd":
            return math.gcd(v, int(args[0]))
        if attr == "lcm":
            a = int(args[0])
            if v == 0 or a == 0:
                return 0
            return abs(v * a) // math.gcd(v, a)
        if attr == "inverse":
            m = int(args[0])
            if m == 0:
                interp._diverged = interp.do_raise("ZeroDivisionError", st, node)
                return UNK
            if m < 0 or math.gcd(v, m) != 1:
                interp._diverged = interp.do_raise("ValueError", st, node)
                return UNK
            return pow(v, -1, m)
        if attr == "is_negative":
            return v < 0
        if attr == "sqrt" and not args:
            if v < 0:
                interp._diverged = interp.do_raise("ValueError", st, node)
                return UNK
            return _isqrt(v)
        if attr == "is_perfect_square":
            return v >= 0 and _isqrt(v) ** 2 == v
        if attr == "fail_if_divisible_by":
            if int(args[0]) != 0 and v % int(args[0]) == 0:
                interp._diverged = interp.do_raise("ValueError", st, node)
                return UNK
            return None
        if attr == "get_bit":
            return (v >> int(args[0])) & 1
        if attr == "to_bytes":
            n = args[0] if args else kwargs.get("block_size", kwargs.get("length", 0))
            order = args[1] if len(args) > 1 else kwargs.get("byteorder", "big")
            if isinstance(n, int) and order in ("big", "little") and v >= 0:
                need = max(1, (v.bit_length() + 7) // 8)
                if n == 0:
                    n = need
                if n >= need:
                    return v.to_bytes(n, order)
                interp._diverged = interp.do_raise(
                    "OverflowError" if len(args) > 1 or "length" in kwargs else "ValueError", st, node)
                return UNK
            return NotImplemented
    except Exception:
        return UNK
    return NotImplemented


# ---------------------------------------------------------------------------
# builtins and external callables
# ---------------------------------------------------------------------------

def m_len(i, args, kw, st, node):
    v = args[0] if args else UNK
    if isinstance(v, AObj) and v.cnode is not None:
        ln = i.repo.find_method(v.mod, v.cnode, "__len__")
        if ln is not None:
            return i.call_func(AFunc(ln[0], ln[1], self_obj=v, cls=v.cnode), [], {}, st, node)
    if isinstance(v, (bytes, str, tuple, list, dict, bytearray, range, frozenset, set)):
        return len(v)
    if isinstance(v, ABytes):
        return v.n if v.n is not None else Unknown("int")
    return Unknown("int")


def m_minmax(fn):
    def f(i, args, kw, st, node):
        vals = args
        if len(args) == 1 and isinstance(args[0], (tuple, list)):
            vals = list(args[0])
        if vals and all(isinstance(v, int) for v in vals):
            return fn(vals)
        return Unknown("int") if all(type_name(v) in ("int", "bool") for v in vals) else UNK
    return f


def m_int(i, args, kw, st, node):
    if not args:
        return 0
    v = args[0]
    if isinstance(v, AObj) and v.cnode is not None and v.ident not in st.havoc:
        for nm in ("__int__", "__index__"):
            r = i.repo.find_method(v.mod, v.cnode, nm)
            if r is not None:
                return i.call_func(AFunc(r[0], r[1], self_obj=v, cls=v.cnode), [], {}, st, node)
        if i.repo.find_method(v.mod, v.cnode, "__getattr__") is None and i.repo.find_method(v.mod, v.cnode, "__trunc__") is None:
            # int() of an object whose class defines neither __int__ nor __index__
            i._diverged = i.do_raise("TypeError", st, node)
            return UNK
    if isinstance(v, (int, float)) and len(args) == 1:
        return int(v)
    if isinstance(v, (str, bytes)) and all(is_concrete(a) for a in args) and \
            all(is_concrete(x) for x in kw.values()):
        try:
            return int(*args, **kw)
        except Exception:
            i._diverged = i.do_raise("ValueError", st, node)
            return UNK
    return Unknown("int")


def m_bool(i, args, kw, st, node):
    if not args:
        return False
    t = truth(args[0])
    return Unknown("bool") if t is None else t


def m_bytes(kind):
    def f(i, args, kw, st, node):
        if not args:
            return bytes() if kind == "bytes" else bytearray()
        v = args[0]
        if isinstance(v, int) and not isinstance(v, bool):
            if v > BIGPOW:
                return ABytes(v, kind)
            return bytes(v) if kind == "bytes" else bytearray(v)
        if isinstance(v, (bytes, bytearray)):
            return bytes(v) if kind == "bytes" else bytearray(v)
        if isinstance(v, (list, tuple)) and is_concrete(v):
            try:
                return bytes(v) if kind == "bytes" else bytearray(v)
            except Exception:
                return UNK
        if isinstance(v, (list, tuple)):
            return ABytes(len(v), kind)
        if isinstance(v, ABytes):
            return ABytes(v.n, kind)
        if isinstance(v, str) and len(args) > 1:
            return v.encode("latin-1", "replace") if kind == "bytes" else bytearray(v.encode("latin-1", "replace"))
        return ABytes(None, kind)
    return f


def m_str(i, args, kw, st, node):
    if args and isinstance(args[0], (int, str)) and len(args) == 1:
        return str(args[0])
    return Unknown("str")


def _classinfo_names(i, ci):
    """Names of types in an isinstance classinfo, or None."""
    if isinstance(ci, (tuple, list)):
        out = []
        for x in ci:
            r = _classinfo_names(i, x)
            if r is None:
                return None
            out.extend(r)
        return out
    if isinstance(ci, ABuiltin):
        return [ci.name.split(".")[-1]]
    if isinstance(ci, AClass):
        return [ci]
    return None


def m_isinstance(i, args, kw, st, node):
    if len(args) != 2:
        return Unknown("bool")
    v, ci = args
    names = _classinfo_names(i, ci)
    if names is None:
        return Unknown("bool")
    if isinstance(v, AObj) and v.cnode is not None:
        mro = [c for m, c in i.repo.mro(v.mod, v.cnode)]
        for n in names:
            if isinstance(n, AClass) and n.node in mro:
                return True
        if all(isinstance(n, AClass) or n in ("int", "bytes", "str", "bytearray",
                                              "tuple", "list", "dict", "bool",
                                              "memoryview", "float")
               for n in names):
            return False
        return Unknown("bool")
    tn = type_name(v)
    if tn in (None, "truthy", "falsy", "notnone"):
        return Unknown("bool")
    if tn == "buffer":
        return Unknown("bool")
    for n in names:
        if isinstance(n, AClass):
            if n.node.name in ("IntegerGMP", "IntegerNative", "IntegerCustom",
                               "IntegerBase") and tn in ("int", "bool") and not any(
                    v is False and k.endswith("." + n.node.name) for k, v in i.extra_models.items()):
                # ints stand for Integer objects unless the class itself is interpreted
                return Unknown("bool")
            continue
        if n == tn or (n == "int" and tn == "bool") or n == "object":
            return True
        if n in ("Integer",) and tn == "int":
            return Unknown("bool")
    return False


def m_range(i, args, kw, st, node):
    if all(isinstance(a, int) for a in args) and args:
        try:
            return range(*args)
        except Exception:
            return UNK
    return UNK


def as_iterable(i, v, st, node):
    """An object of the repository used where a sequence is expected: the list its __iter__ returns (iterators over
    a list are the list, read-only), or its items through __len__ / __getitem__.  Anything else comes back as is."""
    if isinstance(v, AObj) and v.cnode is not None and v.ident not in st.havoc:
        r = i.repo.find_method(v.mod, v.cnode, "__iter__")
        if r is not None:
            out = i.call_func(AFunc(r[0], r[1], self_obj=v, cls=v.cnode), [], {}, st, node)
            if isinstance(out, (list, tuple)):
                return list(out)
            return v
        ln, gi = i.repo.find_method(v.mod, v.cnode, "__len__"), i.repo.find_method(v.mod, v.cnode, "__getitem__")
        if ln is not None and gi is not None:
            n = i.call_func(AFunc(ln[0], ln[1], self_obj=v, cls=v.cnode), [], {}, st, node)
            if isinstance(n, int) and 0 <= n <= 256:
                return [i.call_func(AFunc(gi[0], gi[1], self_obj=v, cls=v.cnode), [k], {}, st, node) for k in range(n)]
    return v


def m_iter(i, args, kw, st, node):
    if len(args) == 1:
        v = as_iterable(i, args[0], st, node)
        if isinstance(v, (list, tuple, bytes, str, range, dict, frozenset, set)):
            return v
    return UNK


def m_seq(tp):
    def f(i, args, kw, st, node):
        if not args:
            return tp()
        v = as_iterable(i, args[0], st, node)
        if isinstance(v, (tuple, list, range, bytes, str, frozenset, set, dict)):
            try:
                return tp(v)
            except Exception:
                return UNK
        return UNK
    return f


def m_sorted(i, args, kw, st, node):
    if args and is_concrete(args[0]) and not kw:
        try:
            return sorted(args[0])
        except Exception:
            return UNK
    return UNK


def m_enumerate(i, args, kw, st, node):
    if args and isinstance(args[0], (tuple, list, bytes, str, range)):
        start = args[1] if len(args) > 1 and isinstance(args[1], int) else kw.get("start", 0)
        return [(k + start, v) for k, v in enumerate(args[0])]
    return UNK


def m_zip(i, args, kw, st, node):
    args = [as_iterable(i, a, st, node) for a in args]
    if args and all(isinstance(a, (tuple, list, bytes, str, range)) for a in args):
        return [tuple(x) for x in zip(*args)]
    return UNK


def m_sum(i, args, kw, st, node):
    if args and is_concrete(args[0]):
        try:
            return sum(*args)
        except Exception:
            return UNK
    return Unknown("int")


def m_anyall(is_any):
    def f(i, args, kw, st, node):
        if not args or not isinstance(args[0], (tuple, list)):
            return Unknown("bool")
        unknown = False
        for x in args[0]:
            t = truth(x)
            if t is None:
                unknown = True
            elif t is is_any:
                return is_any
        return Unknown("bool") if unknown else (not is_any)
    return f


def m_pow(i, args, kw, st, node):
    if len(args) == 3 and args[2] is None:
        args = args[:2]
    if args and isinstance(args[0], AObj) and args[0].cnode is not None and args[0].ident not in st.havoc:
        # pow(obj, e[, m]) is type(obj).__pow__(obj, e[, m])
        r = i.repo.find_method(args[0].mod, args[0].cnode, "__pow__")
        if r is not None:
            return i.call_func(AFunc(r[0], r[1], self_obj=args[0], cls=args[0].cnode), list(args[1:]), {}, st, node)
    if all(isinstance(a, int) for a in args) and len(args) in (2, 3):
        try:
            if len(args) == 2 and args[1] > 100000:
                return Unknown("int")
            return pow(*args)
        except ZeroDivisionError:
            i._diverged = i.do_raise("ZeroDivisionError", st, node)
            return UNK
        except ValueError:
            i._diverged = i.do_raise("ValueError", st, node)
            return UNK
    return Unknown("int")


def m_divmod(i, args, kw, st, node):
    if len(args) == 2 and all(isinstance(a, int) for a in args) and args[1] != 0:
        return divmod(*args)
    return (Unknown("int"), Unknown("int"))


def m_ord(i, args, kw, st, node):
    if args and isinstance(args[0], (bytes, str)) and len(args[0]) == 1:
        return ord(args[0])
    return Unknown("int")


def m_chr(i, args, kw, st, node):
    if args and isinstance(args[0], int):
        try:
            return chr(args[0])
        except Exception:
            return UNK
    return ABytes(1, "str")


def m_getattr(i, args, kw, st, node):
    if len(args) >= 2 and isinstance(args[1], str) and isinstance(args[0], AObj) \
            and args[0].cnode is not None and args[0].ident not in st.havoc:
        o = args[0]
        if args[1] not in st.heap.get(o.ident, {}) and \
                i.class_attr(o.mod, o.cnode, args[1], st, None) is None and \
                i.repo.find_method(o.mod, o.cnode, "__getattr__") is None:
            if len(args) == 3:
                return args[2]
            i._diverged = i.do_raise("AttributeError", st, node)
            return UNK
    if len(args) >= 2 and isinstance(args[1], str):
        v = i.getattr(args[0], args[1], st, node)
        if isinstance(v, BoundMethod):
            return UNK
        if is_unk(v) and len(args) == 3:
            return join(v, args[2])
        return v
    return UNK


def m_hasattr(i, args, kw, st, node):
    if len(args) == 2 and isinstance(args[1], str) and isinstance(args[0], AMod) and args[0].mod is not None:
        # a module of the repository: its top-level names are known
        if i.module_symbol(args[0].mod, args[1]) is not None:
            return True
        if (args[0].name + "." + args[1]) in i.repo.modules:
            return True
        m = args[0].mod
        tops = set()
        for n in m.tree.body:
            for t in ast.walk(n) if isinstance(n, (ast.If, ast.Try)) else [n]:
                if isinstance(t, (ast.FunctionDef, ast.ClassDef)):
                    tops.add(t.name)
                elif isinstance(t, ast.Assign):
                    tops.update(x.id for x in t.targets if isinstance(x, ast.Name))
                elif isinstance(t, (ast.Import, ast.ImportFrom)):
                    tops.update((a.asname or a.name).split(".")[0] for a in t.names)
        if any(isinstance(n, ast.ImportFrom) and any(a.name == "*" for a in n.names) for n in m.tree.body):
            return Unknown("bool")
        return args[1] in tops
    if len(args) == 2 and isinstance(args[1], str) and isinstance(args[0], AObj):
        if args[1] in st.heap.get(args[0].ident, {}):
            return True
        if args[0].cnode is not None and args[0].ident not in st.havoc:
            v = i.class_attr(args[0].mod, args[0].cnode, args[1], st, None)
            if v is not None:
                return True
        if args[0].cnode is not None:
            r = i.probe_attr(args[0], args[1], st, node)
            if r is not None:
                return r
            if i.repo.find_method(args[0].mod, args[0].cnode, "__getattr__") is not None:
                return Unknown("bool")
        if args[0].ident not in st.havoc:
            return False
    return Unknown("bool")


def m_setattr(i, args, kw, st, node):
    if len(args) == 3 and isinstance(args[0], AObj) and isinstance(args[1], str):
        st.heap.setdefault(args[0].ident, {})[args[1]] = args[2]
        i.event("store_attr", args[1], node, args=(args[0], args[2]))
    return None


def m_memoryview(i, args, kw, st, node):
    v = args[0] if args else UNK
    if isinstance(v, (bytes, bytearray)):
        return bytes(v)          # a read-only view: same content
    n = _blen(v)
    return ABytes(n, "memoryview")


def m_unknown(typ=None):
    def f(i, args, kw, st, node):
        return Unknown(typ) if typ else UNK
    return f


def m_none(i, args, kw, st, node):
    return None


def _as_index(i, v, st, node):
    """An object with __index__ (or __int__) where an integer is required."""
    if isinstance(v, AObj) and v.cnode is not None and v.ident not in st.havoc:
        for nm in ("__index__", "__int__"):
            r = i.repo.find_method(v.mod, v.cnode, nm)
            if r is not None:
                return i.call_func(AFunc(r[0], r[1], self_obj=v, cls=v.cnode), [], {}, st, node)
    return v


def m_struct_pack(i, args, kw, st, node):
    if args and isinstance(args[0], str):
        args = [args[0]] + [_as_index(i, a, st, node) for a in args[1:]]
        if all(is_concrete(a) for a in args):
            try:
                return struct.pack(*args)
            except Exception:
                return UNK
        try:
            return ABytes(struct.calcsize(args[0]), "bytes")
        except Exception:
            return UNK
    return ABytes(None, "bytes")


def m_struct_unpack(i, args, kw, st, node):
    if len(args) == 2 and isinstance(args[0], str):
        if isinstance(args[1], bytes):
            try:
                return struct.unpack(args[0], args[1])
            except Exception:
                i._diverged = i.do_raise("struct.error", st, node)
                return UNK
        try:
            n = len(struct.unpack(args[0], bytes(struct.calcsize(args[0]))))
            return tuple(Unknown("int") for _ in range(n))
        except Exception:
            return UNK
    return UNK


def m_unhexlify(i, args, kw, st, node):
    v = args[0] if args else UNK
    if isinstance(v, (bytes, str)):
        try:
            return binascii.unhexlify(v)
        except Exception:
            i._diverged = i.do_raise("binascii.Error", st, node)
            return UNK
    n = _blen(v)
    return ABytes(n // 2 if n is not None else None, "bytes")


def m_hexlify(i, args, kw, st, node):
    v = args[0] if args else UNK
    if isinstance(v, bytes):
        return binascii.hexlify(v)
    n = _blen(v)
    return ABytes(2 * n if n is not None else None, "bytes")


def m_urandom(i, args, kw, st, node):
    n = args[0] if args else kw.get("n", UNK)
    return ABytes(n if isinstance(n, int) else None, "bytes")


def m_map(i, args, kw, st, node):
    if len(args) == 2 and isinstance(args[1], (tuple, list, range)) and len(args[1]) <= 64:
        return [i.call_value(args[0], [x], {}, st, node) for x in args[1]]
    return UNK


def m_a2b_base64(i, args, kw, st, node):
    v = args[0] if args else None
    if isinstance(v, (bytes, bytearray, str)) and len(args) == 1 and not kw:
        try:
            return binascii.a2b_base64(v if isinstance(v, str) else bytes(v))
        except (binascii.Error, ValueError):
            i._diverged = i.do_raise("binascii.Error", st, node)
            return UNK
    return ABytes(None, "bytes")


def m_math(name, typ):
    def f(i, args, kw, st, node):
        import math
        if args and all(isinstance(a, (int, float)) and not isinstance(a, bool) for a in args) and not kw:
            try:
                return getattr(math, name)(*args)
            except (ValueError, OverflowError, ZeroDivisionError) as e:
                i._diverged = i.do_raise(type(e).__name__, st, node)
                return UNK
        return Unknown(typ) if typ else UNK
    return f


def m_filter(i, args, kw, st, node):
    if len(args) == 2 and isinstance(args[1], (tuple, list, range)) and len(args[1]) <= 64:
        out = []
        for x in args[1]:
            t = truth(x if args[0] is None else i.call_value(args[0], [x], {}, st, node))
            if t is None:
                return UNK
            if t:
                out.append(x)
        return out
    return UNK


def m_dict(i, args, kw, st, node):
    if not args:
        return dict(kw)
    v = args[0]
    if isinstance(v, dict):
        d = dict(v)
        d.update(kw)
        return d
    if isinstance(v, (list, tuple)) and all(isinstance(x, tuple) and len(x) == 2 and is_concrete(x[0]) for x in v):
        d = dict((x[0], x[1]) for x in v)
        d.update(kw)
        return d
    return UNK


def m_super(i, args, kw, st, node):
    return UNK


def m_type(i, args, kw, st, node):
    if len(args) == 3 and isinstance(args[2], dict) and all(isinstance(k, str) for k in args[2]):
        # type(name, bases, namespace): a namespace object (the repo's enum() idiom)
        o = i.new_obj(st, label="type:" + str(args[0]), attrs=dict(args[2]), havoc=False)
        o.const_attrs = dict(args[2])
        return o
    if len(args) == 1:
        v = args[0]
        if isinstance(v, AObj) and v.cnode is not None:
            return AClass(v.mod, v.cnode)
        tn = type_name(v)
        if tn in ("int", "bytes", "str", "bool", "bytearray", "tuple", "list", "dict"):
            return ABuiltin(tn)
    return UNK


def m_object_new(i, args, kw, st, node):
    if args and isinstance(args[0], AClass):
        return i.new_obj(st, args[0].mod, args[0].node, havoc=False)
    return UNK


EXT_MODELS = {
    "object.__new__": m_object_new,
    "len": m_len, "min": m_minmax(min), "max": m_minmax(max),
    "abs": lambda i, a, k, s, n: abs(a[0]) if a and isinstance(a[0], int) else Unknown("int"),
    "int": m_int, "bool": m_bool, "bytes": m_bytes("bytes"),
    "bytearray": m_bytes("bytearray"), "str": m_str,
    "isinstance": m_isinstance, "range": m_range, "tuple": m_seq(tuple),
    "list": m_seq(list), "dict": m_dict, "map": m_map, "filter": m_filter, "iter": m_iter,
    "set": m_seq(frozenset), "frozenset": m_seq(frozenset),
    "sorted": m_sorted, "reversed": lambda i, a, k, s, n: list(reversed(a[0])) if a and isinstance(a[0], (list, tuple, bytes, str, range)) else UNK,
    "enumerate": m_enumerate, "zip": m_zip, "sum": m_sum,
    "any": m_anyall(True), "all": m_anyall(False), "pow": m_pow,
    "divmod": m_divmod, "ord": m_ord, "chr": m_chr,
    "hex": lambda i, a, k, s, n: hex(a[0]) if a and isinstance(a[0], int) else Unknown("str"),
    "bin": lambda i, a, k, s, n: bin(a[0]) if a and isinstance(a[0], int) else Unknown("str"),
    "getattr": m_getattr, "hasattr": m_hasattr, "setattr": m_setattr,
    "memoryview": m_memoryview, "type": m_type, "print": m_none,
    "callable": m_unknown("bool"), "id": m_unknown("int"),
    "repr": m_unknown("str"), "super": m_super,
    "struct.pack": m_struct_pack, "struct.unpack": m_struct_unpack,
    "collections.deque": lambda i, a, k, s, n: ADeque(a[0]) if (len(a) == 1 and isinstance(a[0], (list, tuple)) and not k) else (ADeque() if not a and not k else UNK),
    "re.sub": _re_sub, "re.compile": _re_compile, "re.match": _re_func("match"), "re.search": _re_func("search"), "re.fullmatch": _re_func("fullmatch"),
    "struct.calcsize": lambda i, a, k, s, n: struct.calcsize(a[0]) if a and isinstance(a[0], str) else Unknown("int"),
    "binascii.unhexlify": m_unhexlify, "binascii.hexlify": m_hexlify,
    "binascii.a2b_hex": m_unhexlify, "binascii.b2a_hex": m_hexlify,
    "binascii.a2b_base64": m_a2b_base64,
    "binascii.b2a_base64": lambda i, a, k, s, n: binascii.b2a_base64(bytes(a[0]), **dict((x, y) for x, y in k.items() if isinstance(y, bool))) if a and isinstance(a[0], (bytes, bytearray)) and len(a) == 1 else ABytes(None, "bytes"),
    "os.urandom": m_urandom,
    "math.ceil": m_math("ceil", "int"), "math.floor": m_math("floor", "int"), "math.log": m_math("log", None), "math.sqrt": m_math("sqrt", None),
    "float": m_unknown(None),
    "math.gcd": lambda i, a, k, s, n: __import__("math").gcd(*a) if a and all(isinstance(x, int) for x in a) else Unknown("int"),
    "math.isqrt": lambda i, a, k, s, n: __import__("math").isqrt(a[0]) if a and isinstance(a[0], int) and a[0] >= 0 else Unknown("int"),
}


# ---------------------------------------------------------------------------
# repo helpers modelled instead of interpreted
# ---------------------------------------------------------------------------

def r_tobytes(i, args, kw, st, node):
    v = args[0] if args else UNK
    if isinstance(v, bytes):
        return v
    if isinstance(v, bytearray):
        return bytes(v)
    if isinstance(v, str):
        try:
            return v.encode(args[1] if len(args) > 1 and isinstance(args[1], str) else "latin-1")
        except Exception:
            return ABytes(None, "bytes")
    n = _blen(v)
    if isinstance(v, ABytes):
        return ABytes(n, "bytes")
    if isinstance(v, (list, tuple)):
        return ABytes(None, "bytes")
    return Unknown("bytes")


def r_tostr(i, args, kw, st, node):
    v = args[0] if args else UNK
    if isinstance(v, bytes):
        return v.decode("latin-1")
    if isinstance(v, str):
        return v
    if isinstance(v, ABytes):
        return ABytes(v.n, "str")
    return Unknown("str")


def r_bord(i, args, kw, st, node):
    v = args[0] if args else UNK
    if isinstance(v, int):
        return v
    return Unknown("int")


def r_bchr(i, args, kw, st, node):
    v = args[0] if args else UNK
    if isinstance(v, int) and 0 <= v < 256:
        return bytes([v])
    return ABytes(1, "bytes")


def r_is_bytes(i, args, kw, st, node):
    if args and isinstance(args[0], (AObj, AClass, AFunc, AMod)):
        return False
    tn = type_name(args[0]) if args else None
    if tn in ("bytes", "bytearray"):
        return True
    if tn in ("int", "str", "bool", "tuple", "list", "dict", "NoneType"):
        return False
    return Unknown("bool")


def r_is_string(i, args, kw, st, node):
    if args and isinstance(args[0], (AObj, AClass, AFunc, AMod)):
        return False
    tn = type_name(args[0]) if args else None
    if tn == "str":
        return True
    if tn in ("int", "bytes", "bytearray", "bool", "tuple", "list", "dict", "NoneType", "memoryview"):
        return False
    return Unknown("bool")


def r_is_native_int(i, args, kw, st, node):
    if args and isinstance(args[0], (AObj, AClass, AFunc, AMod)):
        return False
    tn = type_name(args[0]) if args else None
    if tn in ("int", "bool"):
        return True
    if tn in ("str", "bytes", "bytearray", "tuple", "list", "dict", "NoneType", "memoryview"):
        return False
    return Unknown("bool")


def r_byte_string(i, args, kw, st, node):
    if args and isinstance(args[0], (AObj, AClass, AFunc, AMod)):
        return False
    tn = type_name(args[0]) if args else None
    if tn == "bytes":
        return True
    if tn in ("int", "str", "bytearray", "bool", "tuple", "list", "dict", "NoneType", "memoryview"):
        return False
    return Unknown("bool")


def r_copy_bytes(i, args, kw, st, node):
    if len(args) != 3:
        return Unknown("bytes")
    lo, hi, v = args
    r = do_slice(v, lo if lo is None or isinstance(lo, int) else UNK,
                 hi if hi is None or isinstance(hi, int) else UNK, None)
    if isinstance(r, (bytearray,)):
        return bytes(r)
    if isinstance(r, ABytes):
        return ABytes(r.n, "bytes")
    if isinstance(r, bytes):
        return r
    return Unknown("bytes")


def r_is_buffer(i, args, kw, st, node):
    if args and isinstance(args[0], (AObj, AClass, AFunc, AMod)):
        return False
    tn = type_name(args[0]) if args else None
    if tn in ("bytes", "bytearray", "memoryview"):
        return True
    if tn in ("int", "str", "bool", "tuple", "list", "dict", "NoneType"):
        return False
    return Unknown("bool")


def r_is_writeable(i, args, kw, st, node):
    if args and isinstance(args[0], (AObj, AClass, AFunc, AMod)):
        return False
    tn = type_name(args[0]) if args else None
    if tn == "bytearray":
        return True
    if tn in ("bytes", "int", "str", "bool", "tuple", "list", "dict", "NoneType"):
        return False
    return Unknown("bool")


def r_get_random_bytes(i, args, kw, st, node):
    n = args[0] if args else kw.get("n", UNK)
    return ABytes(n if isinstance(n, int) else None, "bytes")


def r_long_to_bytes(i, args, kw, st, node):
    n = args[0] if args else kw.get("n", UNK)
    bs = args[1] if len(args) > 1 else kw.get("blocksize", 0)
    if isinstance(n, int) and isinstance(bs, int):
        if n < 0 or bs < 0:
            i._diverged = i.do_raise("ValueError", st, node)
            return UNK
        r = n.to_bytes(max(1, (n.bit_length() + 7) // 8), "big")
        if bs > 0 and len(r) % bs:
            r = b"\x00" * (bs - len(r) % bs) + r
        return r
    if isinstance(n, AObj) and n.cnode is not None and n.ident not in st.havoc and isinstance(bs, int):
        # an Integer object: the real body works on it through its operators
        m = i.repo.module("Crypto.Util.number")
        return i.call_func(AFunc(m, i.repo.func(m, "long_to_bytes")), list(args), dict(kw), st, node)
    return ABytes(None, "bytes")


def r_bytes_to_long(i, args, kw, st, node):
    v = args[0] if args else UNK
    if isinstance(v, (bytes, bytearray)):
        return int.from_bytes(v, "big")
    return Unknown("int")


def r_size(i, args, kw, st, node):
    v = args[0] if args else UNK
    if isinstance(v, int):
        if v < 0:
            i._diverged = i.do_raise("ValueError", st, node)
            return UNK
        return v.bit_length()
    return Unknown("int")


def r_ceil_div(i, args, kw, st, node):
    if len(args) == 2 and all(isinstance(a, int) for a in args) and args[1] != 0:
        return -(-args[0] // args[1])
    return Unknown("int")


def r_ident(i, args, kw, st, node):
    return args[0] if args else UNK


def r_create_string_buffer(i, args, kw, st, node):
    v = args[0] if args else UNK
    if isinstance(v, int):
        return ABytes(v, "buffer")
    n = _blen(v)
    return ABytes(n, "buffer")


def r_get_raw_buffer(i, args, kw, st, node):
    v = args[0] if args else UNK
    n = _blen(v)
    return ABytes(n, "bytes")


def r_void_pointer(i, args, kw, st, node):
    return i.new_obj(st, label="VoidPointer")


def r_smart_pointer(i, args, kw, st, node):
    return i.new_obj(st, label="SmartPointer")


class AFfiLib(object):
    __slots__ = ("name",)

    def __init__(self, name):
        self.name = name

    def __repr__(self):
        return "<ffilib %s>" % self.name


def r_load_lib(i, args, kw, st, node):
    nm = args[0] if args and isinstance(args[0], str) else "?"
    return ABuiltin("ffi:" + nm)


def r_integer(i, args, kw, st, node):
    v = args[0] if args else UNK
    if isinstance(v, bool):
        return int(v)
    if isinstance(v, int):
        return v
    if type_name(v) in ("int", "bool"):
        return Unknown("int")
    if type_name(v) in ("bytes", "str", "bytearray", "NoneType", "tuple", "list"):
        # Integer(non-int) is a type error in every back-end
        i._diverged = i.do_raise("ValueError", st, node)
        return UNK
    return Unknown("int")


def r_integer_from_bytes(i, args, kw, st, node):
    v = args[0] if args else UNK
    order = args[1] if len(args) > 1 else kw.get("byteorder", "big")
    if isinstance(v, (bytes, bytearray)) and order in ("big", "little"):
        return int.from_bytes(v, order)
    return Unknown("int")


def r_test_probable_prime(i, args, kw, st, node):
    v = args[0] if args else UNK
    if isinstance(v, int) and v < (1 << 80):
        return 1 if small_is_prime(v) else 0
    return Unknown("int")


def r_strxor(i, args, kw, st, node):
    if kw.get("output") is not None or len(args) > 2:
        return None
    if len(args) == 2 and isinstance(args[0], (bytes, bytearray)) and \
            isinstance(args[1], (bytes, bytearray)) and len(args[0]) == len(args[1]):
        return bytes(a ^ b for a, b in zip(args[0], args[1]))
    if len(args) == 2 and isinstance(args[0], (bytes, bytearray)) and isinstance(args[1], int):
        return bytes(a ^ args[1] for a in args[0])
    n = _blen(args[0]) if args else None
    return ABytes(n, "bytes")


REPO_MODELS = {
    "Crypto.Util.py3compat.tobytes": r_tobytes,
    "Crypto.Util.py3compat.tostr": r_tostr,
    "Crypto.Util.py3compat.bord": r_bord,
    "Crypto.Util.py3compat.bchr": r_bchr,
    "Crypto.Util.py3compat.b": r_tobytes,
    "Crypto.Util.py3compat.bstr": r_tobytes,
    "Crypto.Util.py3compat.is_bytes": r_is_bytes,
    "Crypto.Util.py3compat.is_string": r_is_string,
    "Crypto.Util.py3compat.is_native_int": r_is_native_int,
    "Crypto.Util.py3compat.byte_string": r_byte_string,
    "Crypto.Util.py3compat._copy_bytes": r_copy_bytes,
    "Crypto.Util.py3compat.iter_range": m_range,
    "Crypto.Util._raw_api.is_buffer": r_is_buffer,
    "Crypto.Util._raw_api.is_writeable_buffer": r_is_writeable,
    "Crypto.Util._raw_api.c_size_t": r_ident,
    "Crypto.Util._raw_api.c_ulong": r_ident,
    "Crypto.Util._raw_api.c_ulonglong": r_ident,
    "Crypto.Util._raw_api.c_uint": r_ident,
    "Crypto.Util._raw_api.c_ubyte": r_ident,
    "Crypto.Util._raw_api.c_uint8_ptr": r_ident,
    "Crypto.Util._raw_api.create_string_buffer": r_create_string_buffer,
    "Crypto.Util._raw_api.get_raw_buffer": r_get_raw_buffer,
    "Crypto.Util._raw_api.get_c_string": r_get_raw_buffer,
    "Crypto.Util._raw_api.VoidPointer": r_void_pointer,
    "Crypto.Util._raw_api.VoidPointer_cffi": r_void_pointer,
    "Crypto.Util._raw_api.VoidPointer_ctypes": r_void_pointer,
    "Crypto.Util._raw_api.SmartPointer": r_smart_pointer,
    "Crypto.Util._raw_api.load_pycryptodome_raw_lib": r_load_lib,
    "Crypto.Util._raw_api.load_lib": r_load_lib,
    "Crypto.Random.get_random_bytes": r_get_random_bytes,
    "Crypto.Util.number.long_to_bytes": r_long_to_bytes,
    "Crypto.Util.number.bytes_to_long": r_bytes_to_long,
    "Crypto.Util.number.size": r_size,
    "Crypto.Util.number.ceil_div": r_ceil_div,
    "Crypto.Util.strxor.strxor": r_strxor,
    "Crypto.Util.strxor.strxor_c": r_strxor,
    "Crypto.Math._IntegerGMP.IntegerGMP": r_integer,
    "Crypto.Math._IntegerNative.IntegerNative": r_integer,
    "Crypto.Math._IntegerCustom.IntegerCustom": r_integer,
    "Crypto.Math._IntegerBase.IntegerBase.from_bytes": r_integer_from_bytes,
    "Crypto.Math._IntegerGMP.IntegerGMP.from_bytes": r_integer_from_bytes,
    "Crypto.Math._IntegerNative.IntegerNative.from_bytes": r_integer_from_bytes,
    "Crypto.Math._IntegerCustom.IntegerCustom.from_bytes": r_integer_from_bytes,
    "Crypto.Math.Primality.test_probable_prime": r_test_probable_prime,
}
