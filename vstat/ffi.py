"""E-FFI: Python call sites into the native libraries."""
import ast
import re

from .pydb import norm, walk_no_nested, params_of
from .pyflow import local_defs

LOADERS = ("load_pycryptodome_raw_lib", "load_lib")


def ffi_libs(mod):
    """module-level names bound to a native library -> extension name."""
    libs = {}
    for name, nodes in mod.top_assign.items():
        for v in nodes:
            if isinstance(v, ast.Call) and norm(v.func).split(".")[-1] in LOADERS:
                ext = v.args[0].value if v.args and isinstance(v.args[0], ast.Constant) else "?"
                libs[name] = ext
    # libraries loaded inside functions and returned (e.g. _get_ghash_portable) are not module-level names
    return libs


def call_sites(repo):
    """Yield (Module, function, Call node, lib name, extension, symbol)."""
    for mname, mod in sorted(repo.modules.items()):
        libs = ffi_libs(mod)
        if not libs:
            continue
        for q, f in sorted(mod.funcs.items()):
            for c in walk_no_nested(f):
                if isinstance(c, ast.Call) and isinstance(c.func, ast.Attribute) and \
                        isinstance(c.func.value, ast.Name) and c.func.value.id in libs:
                    yield mod, f, c, c.func.value.id, libs[c.func.value.id], c.func.attr


def result_use(f, call):
    """How the int result of an FFI call is consumed: 'raises' (tested and the
    failure edge raises), 'returned', 'compared', 'dropped'."""
    par = getattr(call, "_parent", None)
    if isinstance(par, ast.Expr):
        return "dropped"
    if isinstance(par, ast.Return):
        return "returned"
    if isinstance(par, (ast.Compare, ast.UnaryOp, ast.BoolOp, ast.If)):
        return "compared"
    if isinstance(par, ast.Assign) and len(par.targets) == 1 and isinstance(par.targets[0], ast.Name):
        name = par.targets[0].id
        tested = False
        for n in walk_no_nested(f):
            if isinstance(n, ast.If) and any(isinstance(x, ast.Name) and x.id == name for x in ast.walk(n.test)):
                if any(isinstance(x, ast.Raise) for b in n.body for x in ast.walk(b)):
                    tested = True
                elif any(isinstance(x, ast.Return) for b in n.body for x in ast.walk(b)):
                    tested = True
            if isinstance(n, ast.Return) and n.value is not None and \
                    any(isinstance(x, ast.Name) and x.id == name for x in ast.walk(n.value)):
                tested = True
            if isinstance(n, (ast.Compare,)) and any(isinstance(x, ast.Name) and x.id == name for x in ast.walk(n)):
                tested = True
        return "raises" if tested else "assigned-untested"
    return "other"
