"""Abstract values for the seeded conditional-constant-propagation engine."""
import ast


class Unknown(object):
    __slots__ = ("typ",)

    def __init__(self, typ=None):
        self.typ = typ

    def __repr__(self):
        return "?" if self.typ is None else "?%s" % self.typ


UNK = Unknown()


def is_unk(v):
    return isinstance(v, Unknown)


class ABytes(object):
    """A byte string / str / buffer of known length and unknown content."""
    __slots__ = ("n", "kind")

    def __init__(self, n, kind="bytes"):
        self.n = n          # int or None
        self.kind = kind    # bytes | bytearray | str | memoryview | buffer

    def __repr__(self):
        return "<%s len=%s>" % (self.kind, self.n)


class AObj(object):
    """Reference to an abstract object; attributes live in State.heap."""
    __slots__ = ("ident", "mod", "cnode", "label", "const_attrs")

    def __init__(self, ident, mod=None, cnode=None, label=""):
        self.ident = ident
        self.mod = mod
        self.cnode = cnode
        self.label = label
        self.const_attrs = None     # immutable namespace objects (module level)

    def __repr__(self):
        return "<obj#%d %s>" % (self.ident,
                                 self.cnode.name if self.cnode is not None
                                 else self.label)


class AFunc(object):
    __slots__ = ("mod", "node", "closure", "self_obj", "cls")

    def __init__(self, mod, node, closure=None, self_obj=None, cls=None):
        self.mod = mod
        self.node = node
        self.closure = closure
        self.self_obj = self_obj
        self.cls = cls

    def __repr__(self):
        return "<func %s>" % getattr(self.node, "name", "lambda")


class AClass(object):
    __slots__ = ("mod", "node")

    def __init__(self, mod, node):
        self.mod = mod
        self.node = node

    def __repr__(self):
        return "<class %s>" % self.node.name


class AMod(object):
    __slots__ = ("name", "mod")

    def __init__(self, name, mod=None):
        self.name = name
        self.mod = mod

    def __repr__(self):
        return "<module %s>" % self.name


class ABuiltin(object):
    """A builtin or external callable / object known by dotted name."""
    __slots__ = ("name",)

    def __init__(self, name):
        self.name = name

    def __repr__(self):
        return "<ext %s>" % self.name


class AExc(object):
    """An exception instance (class name only)."""
    __slots__ = ("cls", "args")

    def __init__(self, cls, args=()):
        self.cls = cls
        self.args = args

    def __repr__(self):
        return "<exc %s>" % self.cls


class AFfi(object):
    """A foreign function (lib symbol) — calls return an unknown int."""
    __slots__ = ("lib", "sym")

    def __init__(self, lib, sym):
        self.lib = lib
        self.sym = sym

    def __repr__(self):
        return "<ffi %s.%s>" % (self.lib, self.sym)


CONCRETE = (int, bool, bytes, str, type(None), float, range, frozenset)


class ADeque(list):
    """collections.deque as the interpreter sees it: a list with the two extra end operations."""

    def popleft(self):
        return self.pop(0)

    def appendleft(self, x):
        self.insert(0, x)


def is_concrete(v):
    if isinstance(v, CONCRETE):
        return True
    if isinstance(v, (tuple, list)):
        return all(is_concrete(x) for x in v)
    if isinstance(v, bytearray):
        return True
    if isinstance(v, dict):
        return all(is_concrete(k) and is_concrete(x) for k, x in v.items())
    if isinstance(v, set):
        return all(is_concrete(x) for x in v)
    return False


def same(a, b):
    if a is b:
        return True
    if isinstance(a, Unknown) or isinstance(b, Unknown):
        return False
    if type(a) is not type(b):
        return False
    if isinstance(a, ABytes):
        return a.n == b.n and a.kind == b.kind and a.n is not None
    if isinstance(a, AObj):
        return a.ident == b.ident
    if isinstance(a, (AFunc,)):
        return a.node is b.node and a.self_obj is b.self_obj or (
            a.node is b.node and isinstance(a.self_obj, AObj) and
            isinstance(b.self_obj, AObj) and a.self_obj.ident == b.self_obj.ident)
    if isinstance(a, AClass):
        return a.node is b.node
    if isinstance(a, AMod):
        return a.name == b.name
    if isinstance(a, ABuiltin):
        return a.name == b.name
    if isinstance(a, AExc):
        return a.cls == b.cls
    if isinstance(a, AFfi):
        return a.lib == b.lib and a.sym == b.sym
    if isinstance(a, (tuple, list)):
        return len(a) == len(b) and all(same(x, y) for x, y in zip(a, b))
    if isinstance(a, dict):
        return set(a) == set(b) and all(same(a[k], b[k]) for k in a)
    try:
        return bool(a == b)
    except Exception:
        return False


def join(a, b):
    if same(a, b):
        return a
    if isinstance(a, ABytes) and isinstance(b, ABytes) and a.kind == b.kind:
        return ABytes(None, a.kind)
    if isinstance(a, (bytes, bytearray)) and isinstance(b, (bytes, bytearray)) \
            and type(a) is type(b):
        if len(a) == len(b):
            return ABytes(len(a), type(a).__name__)
        return ABytes(None, type(a).__name__)
    if isinstance(a, ABytes) and isinstance(b, (bytes, bytearray)):
        a, b = b, a
    if isinstance(a, (bytes, bytearray)) and isinstance(b, ABytes) and \
            b.kind == type(a).__name__:
        return ABytes(len(a) if len(a) == b.n else None, b.kind)
    if isinstance(a, tuple) and isinstance(b, tuple) and len(a) == len(b):
        return tuple(join(x, y) for x, y in zip(a, b))
    if isinstance(a, list) and isinstance(b, list) and len(a) == len(b):
        return [join(x, y) for x, y in zip(a, b)]
    if isinstance(a, bool) and isinstance(b, bool):
        return Unknown("bool")
    if isinstance(a, int) and isinstance(b, int):
        return Unknown("int")
    ta = getattr(a, "typ", None) if isinstance(a, Unknown) else None
    tb = getattr(b, "typ", None) if isinstance(b, Unknown) else None
    if ta and ta == tb:
        return a
    return UNK


def truth(v):
    """True / False / None (unknown)."""
    if isinstance(v, Unknown):
        if v.typ == "truthy":
            return True
        if v.typ == "falsy":
            return False
        return None
    if isinstance(v, ABytes):
        if v.n is None:
            return None
        return v.n > 0
    if isinstance(v, (AObj,)):
        if v.cnode is None:
            return True       # a plain object is truthy
        for b in ast.walk(v.cnode):
            if isinstance(b, ast.FunctionDef) and b.name in ("__bool__", "__len__", "__nonzero__"):
                return None
        if v.cnode.bases and not all(isinstance(x, ast.Name) and x.id == "object" for x in v.cnode.bases):
            return None
        return True
    if isinstance(v, (AFunc, AClass, AMod, ABuiltin, AFfi, AExc)):
        return True
    if isinstance(v, (tuple, list, dict, set)):
        return len(v) > 0
    try:
        return bool(v)
    except Exception:
        return None


def type_name(v):
    """Definite Python type name of an abstract value or None."""
    if isinstance(v, Unknown):
        return v.typ
    if isinstance(v, ABytes):
        return v.kind
    if isinstance(v, bool):
        return "bool"
    for t in (int, bytes, bytearray, str, tuple, list, dict, float, set):
        if isinstance(v, t):
            return t.__name__
    if v is None:
        return "NoneType"
    return None
