"""Model of the libgmp entry points declared in Crypto/Math/_IntegerGMP.py.

The Python wrapper (IntegerGMP) is what the checker analyses; libgmp itself is
outside the repository and is assumed to implement its documented semantics,
which is what this table states, function by function, over Python ints.  An
mpz_t is an abstract heap cell {"v": int}; a zeroed, never-initialised MPZ
structure reads as 0 (the wrapper's `_zero_mpz_p` relies on exactly that).
UNIX_ULONG parameters are reduced modulo 2^64: that is what ctypes' c_ulong
does silently with a Python int that does not fit.
"""
import math

from .absval import AObj, Unknown, UNK, ABytes

M64 = (1 << 64) - 1


def _cell_get(st, c):
    if not isinstance(c, AObj):
        return None
    v = st.heap.get(c.ident, {}).get("v", 0)
    return v if isinstance(v, int) and not isinstance(v, bool) else (int(v) if isinstance(v, bool) else None)


def _cell_set(st, c, v):
    if isinstance(c, AObj):
        st.heap.setdefault(c.ident, {})["v"] = v if isinstance(v, int) else Unknown("int")


def _ui(x):
    if isinstance(x, bool):
        return int(x)
    if isinstance(x, int):
        return x & M64
    return None


def new_mpz(i, args, kw, st, node):
    return i.new_obj(st, label="mpz", attrs={"v": 0}, havoc=False)


def _jacobi(a, n):
    if n <= 0 or n % 2 == 0:
        return None
    a %= n
    r = 1
    while a:
        while a % 2 == 0:
            a //= 2
            if n % 8 in (3, 5):
                r = -r
        a, n = n, a
        if a % 4 == 3 and n % 4 == 3:
            r = -r
        a %= n
    return r if n == 1 else 0


def _tdiv_q_2exp(n, b):
    return (abs(n) >> b) * (1 if n >= 0 else -1)


def _mk(kind, fn):
    """kind: string of argument kinds, first char is the result:
       'r' result cell, 'z' mpz operand, 'u' unsigned long, 'i' returns int, 'v' returns nothing"""
    def model(i, args, kw, st, node):
        ret = kind[0]
        vals = []
        ai = 0
        rop = None
        if ret == "r":
            rop = args[0]
            ai = 1
        for k in kind[1:]:
            a = args[ai] if ai < len(args) else None
            ai += 1
            if k == "z":
                vals.append(_cell_get(st, a))
            elif k == "u":
                vals.append(_ui(a))
            else:
                vals.append(a)
        if any(v is None for v in vals):
            out = None
        else:
            try:
                out = fn(*vals)
            except (ZeroDivisionError, ValueError, OverflowError, MemoryError):
                out = None
        if ret == "r":
            _cell_set(st, rop, out)
            return None
        if out is None:
            return Unknown("int")
        return out
    return model


def _import(i, args, kw, st, node):
    rop, count, order, size, endian, nails, op = (list(args) + [None] * 7)[:7]
    if isinstance(op, (bytes, bytearray)) and order == 1 and size == 1 and nails == 0 and count == len(op):
        _cell_set(st, rop, int.from_bytes(bytes(op), "big"))
    else:
        _cell_set(st, rop, None)
    return None


def _gcd_ui(i, args, kw, st, node):
    rop, a, b = (list(args) + [None] * 3)[:3]
    av, bv = _cell_get(st, a), _ui(b)
    if av is None or bv is None:
        if isinstance(rop, AObj):
            _cell_set(st, rop, None)
        return Unknown("int")
    g = math.gcd(av, bv)
    if isinstance(rop, AObj):
        _cell_set(st, rop, g)
    return g if g <= M64 else 0


def _invert(i, args, kw, st, node):
    rop, a, m = (list(args) + [None] * 3)[:3]
    av, mv = _cell_get(st, a), _cell_get(st, m)
    if av is None or mv is None or mv == 0:
        _cell_set(st, rop, None)
        return Unknown("int")
    try:
        r = pow(av, -1, abs(mv))
    except ValueError:
        return 0
    _cell_set(st, rop, r)
    return 1


def _powm(b, e, m):
    if e < 0:
        return pow(pow(b, -1, abs(m)), -e, abs(m))
    return pow(b, e, abs(m))


def _pow_ui(b, e):
    if e > 4096 and abs(b) > 1:
        raise OverflowError()
    return b ** e


FFI_MODELS = {
    "__gmpz_init": _mk("r", lambda: 0),
    "__gmpz_init_set": _mk("rz", lambda a: a),
    "__gmpz_init_set_ui": _mk("ru", lambda a: a),
    "__gmpz_get_ui": _mk("iz", lambda a: abs(a) & M64),
    "__gmpz_set": _mk("rz", lambda a: a),
    "__gmpz_set_ui": _mk("ru", lambda a: a),
    "__gmpz_add": _mk("rzz", lambda a, b: a + b),
    "__gmpz_add_ui": _mk("rzu", lambda a, b: a + b),
    "__gmpz_sub_ui": _mk("rzu", lambda a, b: a - b),
    "__gmpz_sub": _mk("rzz", lambda a, b: a - b),
    "__gmpz_mul": _mk("rzz", lambda a, b: a * b),
    "__gmpz_mul_ui": _mk("rzu", lambda a, b: a * b),
    "__gmpz_cmp": _mk("izz", lambda a, b: (a > b) - (a < b)),
    "__gmpz_powm": _mk("rzzz", _powm),
    "__gmpz_powm_ui": _mk("rzuz", _powm),
    "__gmpz_pow_ui": _mk("rzu", _pow_ui),
    "__gmpz_sqrt": _mk("rz", lambda a: math.isqrt(a)),
    "__gmpz_mod": _mk("rzz", lambda a, b: a % abs(b)),
    "__gmpz_neg": _mk("rz", lambda a: -a),
    "__gmpz_abs": _mk("rz", lambda a: abs(a)),
    "__gmpz_and": _mk("rzz", lambda a, b: a & b),
    "__gmpz_ior": _mk("rzz", lambda a, b: a | b),
    "__gmpz_clear": lambda i, args, kw, st, node: None,
    "__gmpz_tdiv_q_2exp": _mk("rzu", _tdiv_q_2exp),
    "__gmpz_fdiv_q_2exp": _mk("rzu", lambda a, b: a >> b),
    "__gmpz_fdiv_q": _mk("rzz", lambda a, b: a // b),
    "__gmpz_mul_2exp": _mk("rzu", lambda a, b: a << b if b < (1 << 20) else (_ for _ in ()).throw(OverflowError())),
    "__gmpz_tstbit": _mk("izu", lambda a, b: (a >> b) & 1),
    "__gmpz_perfect_square_p": _mk("iz", lambda a: int(a >= 0 and math.isqrt(a) ** 2 == a)),
    "__gmpz_jacobi": _mk("izz", lambda a, b: _jacobi(a, b) if _jacobi(a, b) is not None else (_ for _ in ()).throw(ValueError())),
    "__gmpz_gcd": _mk("rzz", lambda a, b: math.gcd(a, b)),
    "__gmpz_gcd_ui": _gcd_ui,
    "__gmpz_lcm": _mk("rzz", lambda a, b: abs(a * b) // math.gcd(a, b) if a and b else 0),
    "__gmpz_invert": _invert,
    "__gmpz_divisible_p": _mk("izz", lambda a, b: int(a % b == 0) if b else int(a == 0)),
    "__gmpz_divisible_ui_p": _mk("izu", lambda a, b: int(a % b == 0) if b else int(a == 0)),
    "__gmpz_size": _mk("iz", lambda a: (abs(a).bit_length() + 63) // 64),
    "__gmpz_getlimbn": _mk("izi", lambda a, n: (abs(a) >> (64 * n)) & M64 if isinstance(n, int) and n >= 0 else 0),
    "__gmpz_sizeinbase": _mk("izi", lambda a, base: max(1, abs(a).bit_length()) if base == 2 else (_ for _ in ()).throw(ValueError())),
    "__gmpz_addmul": lambda i, args, kw, st, node: _addmul(st, args, 1, False),
    "__gmpz_addmul_ui": lambda i, args, kw, st, node: _addmul(st, args, 1, True),
    "__gmpz_submul_ui": lambda i, args, kw, st, node: _addmul(st, args, -1, True),
    "__gmpz_import": _import,
}


def _addmul(st, args, sign, ui):
    rop, a, b = (list(args) + [None] * 3)[:3]
    r, av = _cell_get(st, rop), _cell_get(st, a)
    bv = _ui(b) if ui else _cell_get(st, b)
    if r is None or av is None or bv is None:
        _cell_set(st, rop, None)
    else:
        _cell_set(st, rop, r + sign * av * bv)
    return None


def c_ulong(i, args, kw, st, node):
    """ctypes.c_ulong(v): silently reduced modulo 2^64."""
    v = args[0] if args else 0
    if isinstance(v, bool):
        return int(v)
    if isinstance(v, int):
        return v & M64
    return v


GMP = "Crypto.Math._IntegerGMP"

EXTRA_MODELS = {
    GMP + ".IntegerGMP": False,
    GMP + ".IntegerGMP.from_bytes": False,
    GMP + ".new_mpz": new_mpz,
    "Crypto.Util._raw_api.c_ulong": c_ulong,
}


def make_integer(it, st, repo, value):
    """An IntegerGMP object holding `value`."""
    mod = repo.module(GMP)
    cls = repo.cls(mod, "IntegerGMP")
    cell = it.new_obj(st, label="mpz", attrs={"v": value}, havoc=False)
    me = it.new_obj(st, mod, cls, havoc=False)
    st.heap[me.ident]["_mpz_p"] = cell
    st.heap[me.ident]["_initialized"] = True
    return me


def value_of(st, obj):
    if isinstance(obj, AObj):
        c = st.heap.get(obj.ident, {}).get("_mpz_p")
        if isinstance(c, AObj):
            return st.heap.get(c.ident, {}).get("v")
    return None
