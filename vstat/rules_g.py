"""Rule G — guard conformance by region enumeration.

A row names an entry function, a *subject* (a parameter, the length of a
parameter, an attribute, a named local) and the set of subject values the
standard accepts.  The engine (absint) propagates one representative of every
region cut by the comparison constants of the code and of the row through the
entry function (callees inlined); the representative is *rejected* when no
normal exit (and no use event named by the row) is reachable.  The verdict:

  values outside the accepted set   -> must be rejected, with the row's
                                       exception class (a subclass is fine);
  values inside (rows with exact=True) -> must not be rejected.

Any re-expression of the same predicate (De Morgan, `not in range`, a helper
function, a guard moved into a callee) yields the same verdict; deleting or
weakening the guard changes the accepted set and is reported with the first
representative that went the wrong way.
"""
import ast

from .absint import Interp
from .absstate import State
from .absval import UNK, ABytes, AObj, Unknown, is_concrete
from .core import AnalysisError

BIG = (1 << 255) - 19       # generic "large symbolic" prime-sized value


# ---------------------------------------------------------------------------
# accepted-set DSL
# ---------------------------------------------------------------------------
class SetSpec(object):
    def contains(self, v):
        raise NotImplementedError

    def points(self):
        return []

    def __and__(self, other):
        return And(self, other)

    def __or__(self, other):
        return Or(self, other)


class I(SetSpec):
    """Integer interval [lo..hi]; None = unbounded."""

    def __init__(self, lo=None, hi=None):
        self.lo, self.hi = lo, hi

    def contains(self, v):
        return (self.lo is None or v >= self.lo) and (self.hi is None or v <= self.hi)

    def points(self):
        return [x for x in (self.lo, self.hi) if x is not None]

    def __repr__(self):
        return "[%s..%s]" % ("-inf" if self.lo is None else _fmt(self.lo),
                             "+inf" if self.hi is None else _fmt(self.hi))


class S(SetSpec):
    def __init__(self, *vals):
        self.vals = set(vals)

    def contains(self, v):
        return v in self.vals

    def points(self):
        return sorted(self.vals)

    def __repr__(self):
        return "{%s}" % ",".join(_fmt(v) for v in sorted(self.vals))


class Mult(SetSpec):
    def __init__(self, m, r=0):
        self.m, self.r = m, r

    def contains(self, v):
        return v % self.m == self.r

    def points(self):
        return [self.m, 2 * self.m, 3 * self.m]

    def __repr__(self):
        return "%%%d==%d" % (self.m, self.r)


class Pred(SetSpec):
    def __init__(self, fn, text, pts=()):
        self.fn, self.text, self.pts = fn, text, list(pts)

    def contains(self, v):
        return self.fn(v)

    def points(self):
        return self.pts

    def __repr__(self):
        return self.text


class And(SetSpec):
    def __init__(self, a, b):
        self.a, self.b = a, b

    def contains(self, v):
        return self.a.contains(v) and self.b.contains(v)

    def points(self):
        return self.a.points() + self.b.points()

    def __repr__(self):
        return "%r & %r" % (self.a, self.b)


class Or(And):
    def contains(self, v):
        return self.a.contains(v) or self.b.contains(v)

    def __repr__(self):
        return "%r | %r" % (self.a, self.b)


def _fmt(v):
    if isinstance(v, int) and abs(v) > 1 << 40:
        for base, nm in ((BIG, "BIG"),):
            d = v - base
            if abs(d) < 1000:
                return nm + ("%+d" % d if d else "")
        b = v.bit_length()
        for k in (b, b - 1):
            d = v - (1 << k)
            if abs(d) < 100000:
                return "2^%d%s" % (k, "%+d" % d if d else "")
        return "~2^%d" % b
    return repr(v)


# ---------------------------------------------------------------------------
# seed specs
# ---------------------------------------------------------------------------
class OBJ(object):
    """An abstract object with the given attributes (values may be specs)."""

    def __init__(self, _cls=None, _havoc=True, **attrs):
        self.cls = _cls          # (module name, class qualname) or None
        self.attrs = attrs
        self.havoc = _havoc


class B(object):
    def __init__(self, n, kind="bytes"):
        self.n, self.kind = n, kind


U = UNK


def realise(spec, it, st, memo):
    if isinstance(spec, OBJ):
        if id(spec) in memo:
            return memo[id(spec)]
        mod = cnode = None
        if spec.cls is not None:
            mod = it.repo.module(spec.cls[0])
            # a checker-side stand-in class (an ast.ClassDef with _vmethods) may be given in place of a class name
            cnode = spec.cls[1] if isinstance(spec.cls[1], ast.ClassDef) else it.repo.cls(mod, spec.cls[1])
        o = it.new_obj(st, mod, cnode, label="seed", havoc=spec.havoc)
        memo[id(spec)] = o
        memo.setdefault("#keep", []).append(spec)   # keep id(spec) unique while memo lives
        for k, v in spec.attrs.items():
            st.heap[o.ident][k] = realise(v, it, st, memo)
        return o
    if isinstance(spec, B):
        return ABytes(spec.n, spec.kind)
    if isinstance(spec, dict):
        return dict((k, realise(v, it, st, memo)) for k, v in spec.items())
    if isinstance(spec, list):
        return [realise(v, it, st, memo) for v in spec]
    if isinstance(spec, tuple):
        return tuple(realise(v, it, st, memo) for v in spec)
    return spec


class Row(object):
    def __init__(self, rid, prop, mod, func, accept, vary, base=None,
                 self_obj=None, exc="ValueError", exact=True, before=None,
                 extra_points=(), inject=None, max_depth=4, cite="",
                 note="", domain=None, no_inline=(), also_ok_exc=(),
                 reject_by_return=None, models=None, cases=None,
                 method_models=None):
        self.rid = rid
        self.prop = prop
        self.mod = mod
        self.func = func
        self.accept = accept
        self.vary = vary              # function v -> dict(args=, self=, inject=)
        self.base = base or {}
        self.self_obj = self_obj      # OBJ spec or None
        self.exc = exc
        self.exact = exact
        self.before = before          # callee name: use event
        self.extra_points = list(extra_points)
        self.inject = inject or {}
        self.max_depth = max_depth
        self.cite = cite
        self.note = note
        self.domain = domain          # SetSpec limiting the sample points
        self.no_inline = no_inline
        self.also_ok_exc = tuple(also_ok_exc)
        self.reject_by_return = reject_by_return   # value meaning "refused"
        self.models = models or {}
        self.cases = cases            # explicit list of (label, value)
        self.method_models = method_models or {}


# vary helpers ----------------------------------------------------------------
def INT(name):
    return lambda v: {"args": {name: v}}


def LEN(name, kind="bytes"):
    return lambda v: {"args": {name: ABytes(v, kind)}} if v >= 0 else None


def SELF_INT(attr):
    return lambda v: {"self": {attr: v}}


def KEY_IN_DICT(param, key, kind="bytes"):
    """subject = len(param[key]) for dict-packed parameters."""
    def f(v):
        if v < 0:
            return None
        return {"dict": (param, key, ABytes(v, kind))}
    return f


def INT_IN_DICT(param, key):
    return lambda v: {"dict": (param, key, v)}


def INJECT(text):
    """subject = the value of an expression / local (norm text or assign:x)."""
    return lambda v: {"inject": {text: v}}


def sample_points(row, fn):
    pts = set([-1, 0, 1])
    for p in row.accept.points() + row.extra_points:
        if isinstance(p, int):
            pts.update((p - 1, p, p + 1))
    for n in ast.walk(fn):
        if isinstance(n, ast.Constant) and isinstance(n.value, int) and \
                not isinstance(n.value, bool) and abs(n.value) < (1 << 70):
            pts.update((n.value - 1, n.value, n.value + 1))
    if row.domain is not None:
        pts = set(p for p in pts if row.domain.contains(p))
    return sorted(pts)


def run_row(check, repo, row):
    """Evaluate one row; records exactly one obligation."""
    mod = repo.module(row.mod)
    fn = repo.func(mod, row.func)
    labels = {}
    if row.cases is not None:
        pts = []
        for lab, val in row.cases:
            pts.append(val)
            labels[id(val)] = lab
    else:
        pts = sample_points(row, fn)
    hits = {}
    wrong = []
    accepted = []
    rejected = []
    nrun = 0
    skipped = 0
    for v in pts:
        seed = row.vary(v)
        if seed is None:
            skipped += 1
            continue
        inject = dict(row.inject)
        inject.update(seed.get("inject", {}))
        it = Interp(repo, max_depth=row.max_depth, inject=inject,
                    no_inline=row.no_inline, extra_models=row.models,
                    method_models=row.method_models)
        st = State()
        memo = {}
        args = dict((k, realise(s, it, st, memo)) for k, s in row.base.items())
        me = None
        if row.self_obj is not None:
            me = realise(row.self_obj, it, st, memo)
            for k, x in seed.get("self", {}).items():
                st.heap[me.ident][k] = realise(x, it, st, memo)
        for k, x in seed.get("args", {}).items():
            args[k] = realise(x, it, st, memo)
        if "dict" in seed:
            p, key, x = seed["dict"]
            d = args.setdefault(p, {})
            d[key] = realise(x, it, st, memo)
        for k in list(it.inject):
            it.inject[k] = realise(it.inject[k], it, st, memo)
        res = it.run(mod, fn, args, self_obj=me, state=st)
        nrun += 1
        for k in inject:
            hits[k] = hits.get(k, 0) + it.inject_hits.get(k, 0)
        if id(v) in labels:
            v = labels[id(v)]
            inside = None
        is_rej = res.rejected()
        classes = res.raise_classes()
        used = False
        if row.before:
            used = any(e.kind == "call" and e.name.split(".")[-1] == row.before
                       for e in res.events)
            if used:
                is_rej = False
        if row.reject_by_return is not None and not is_rej:
            rets = res.returns()
            if rets and all(is_concrete(o.value) and o.value == row.reject_by_return
                            for o in rets):
                is_rej = True
                classes = []
        if row.cases is not None:
            inside = row.accept.contains(pts[nrun - 1 + skipped])
        else:
            inside = row.accept.contains(v)
        (rejected if is_rej else accepted).append(v)
        if not inside and not is_rej:
            wrong.append((v, "accepted but outside the specified domain"))
        elif not inside and is_rej:
            kill = [k[1] for k in res.killers if k[0] == "raise"] or classes
            bad = [c for c in kill
                   if not _exc_ok(it, c, row.exc, row.also_ok_exc, mod)]
            if bad and row.reject_by_return is None:
                wrong.append((v, "rejected with %s, documented %s" %
                              (",".join(sorted(set(bad))), row.exc)))
        elif inside and is_rej and row.exact:
            wrong.append((v, "rejected although inside the specified domain"
                             " (%s)" % ",".join(classes)))
    if nrun == 0:
        raise AnalysisError("row %s: no sample point applicable" % row.rid)
    for k, n in hits.items():
        if not n:
            raise AnalysisError(
                "anchor vanished: row %s: expression/local %r no longer "
                "occurs in %s.%s" % (row.rid, k, mod.name, row.func))
    check.count("guard_region_representatives", nrun)
    ok = not wrong
    check.ob("G", "G|" + row.rid, ok, mod.path, fn.lineno,
             extracted="accepted representatives %s; rejected %s%s" % (
                 _fmtl(accepted), _fmtl(rejected),
                 "" if ok else "; WRONG: " + "; ".join(
                     "%s %s" % (v if isinstance(v, str) else _fmt(v), why) for v, why in wrong[:4])),
             expected="%s accepts %s %r, everything else raises %s" % (
                 row.func, "exactly" if row.exact else "at most",
                 row.accept, row.exc),
             note=row.cite + ((" — " + row.note) if row.note else ""))
    return ok


def _exc_ok(it, cls, want, also, mod):
    mro = it.exc_mro(cls, mod)
    if want in mro:
        return True
    for a in also:
        if a in mro:
            return True
    return False


def _fmtl(vals):
    if len(vals) > 14:
        vals = vals[:7] + ["..."] + vals[-6:]
    return "[" + ",".join(v if isinstance(v, str) else _fmt(v) for v in vals) + "]"


# ---------------------------------------------------------------------------
# Observation rows (rule K-pw): piecewise structure / formatting
# ---------------------------------------------------------------------------
class ObsRow(object):
    """For every representative v: interpret `func` seeded by vary(v) and
    compare observe(result, interp) with expected(v).  Used for short
    if/elif tables and straight-line formatting code whose value is fixed by
    a standard (headers, thresholds, domain bytes)."""

    def __init__(self, rid, prop, mod, func, points, vary, observe, expected,
                 base=None, self_obj=None, cite="", max_depth=3, models=None,
                 rule="K-pw", what="", inject=None, snippet=None,
                 method_models=None):
        self.rid, self.prop, self.mod, self.func = rid, prop, mod, func
        self.points, self.vary = points, vary
        self.observe, self.expected = observe, expected
        self.base = base or {}
        self.self_obj = self_obj
        self.cite = cite
        self.max_depth = max_depth
        self.models = models or {}
        self.rule = rule
        self.what = what
        self.inject = inject or {}
        self.snippet = snippet
        self.method_models = method_models or {}


def make_snippet(repo, modname, src):
    """Parse checker-side driver code `def NAME(args): ...` so that it can be
    interpreted in the namespace of module `modname` (nothing is executed)."""
    mod = repo.module(modname)
    tree = ast.parse(src)
    fn = tree.body[0]
    for node in ast.walk(tree):
        for ch in ast.iter_child_nodes(node):
            ch._parent = node
    fn._parent = None
    fn._qualname = fn.name
    fn._module = mod
    return mod, fn


def local_at_exit(res, name):
    """Value of a local of the entry function at its normal exit(s)."""
    vals = []
    for o in res.returns():
        if o.state is not None and o.depth == 0:
            vals.append(o.state.frames[0].get(name, UNK))
    if not vals:
        return "<no normal exit>"
    v = vals[0]
    for x in vals[1:]:
        from .absval import join
        v = join(v, x)
    return v


def run_obs(check, repo, row):
    if row.snippet is not None:
        mod, fn = make_snippet(repo, row.mod, row.snippet)
    else:
        mod = repo.module(row.mod)
        fn = repo.func(mod, row.func)
    wrong = []
    seen = []
    for v in row.points:
        seed = row.vary(v)
        if seed is None:
            continue
        inject = dict(row.inject)
        inject.update(seed.get("inject", {}))
        it = Interp(repo, max_depth=row.max_depth, extra_models=row.models,
                    inject=inject, method_models=row.method_models)
        st = State()
        memo = {}
        args = dict((k, realise(s, it, st, memo)) for k, s in row.base.items())
        me = None
        if row.self_obj is not None:
            me = realise(row.self_obj, it, st, memo)
            for k, x in seed.get("self", {}).items():
                st.heap[me.ident][k] = realise(x, it, st, memo)
        for k, x in seed.get("args", {}).items():
            args[k] = realise(x, it, st, memo)
        if "dict" in seed:
            p, key, x = seed["dict"]
            args.setdefault(p, {})[key] = realise(x, it, st, memo)
        for k in list(it.inject):
            it.inject[k] = realise(it.inject[k], it, st, memo)
        res = it.run(mod, fn, args, self_obj=me, state=st)
        got = row.observe(res, it)
        want = row.expected(v)
        lab = v if isinstance(v, str) else _fmt(v) if isinstance(v, int) else repr(v)
        seen.append("%s->%s" % (lab, _fmtv(got)))
        if not _same_obs(got, want):
            wrong.append("%s: got %s, standard %s" % (lab, _fmtv(got), _fmtv(want)))
    if not seen:
        raise AnalysisError("row %s: no point applicable" % row.rid)
    check.count("piecewise_region_representatives", len(seen))
    check.ob(row.rule, "%s|%s" % (row.rule, row.rid), not wrong, mod.path,
             getattr(fn, "lineno", 0) if row.snippet is None else 0,
             extracted=("; ".join(seen[:10]) if not wrong else "WRONG " + "; ".join(wrong[:4])),
             expected=row.what or "value fixed by the standard for every region",
             note=row.cite)
    return not wrong


def _fmtv(v):
    if isinstance(v, (bytes, bytearray)):
        h = bytes(v).hex()
        return "0x" + (h if len(h) <= 40 else h[:20] + ".." + h[-12:] + "(%dB)" % len(v))
    if isinstance(v, int) and not isinstance(v, bool):
        return _fmt(v)
    return repr(v)


def _same_obs(a, b):
    from .absval import same
    if isinstance(a, (bytes, bytearray)) and isinstance(b, (bytes, bytearray)):
        return bytes(a) == bytes(b)
    if type(a) in (int, bool, str, tuple, type(None)) and type(b) in (int, bool, str, tuple, type(None)):
        return a == b
    return same(a, b)


def called(name):
    """observe helper: was a callee with this (last) name called?"""
    def f(res, it):
        return any(e.kind == "call" and e.name.split(".")[-1] == name for e in res.events)
    return f
