"""vstat core: obligations, findings, evidence, known-findings, exit-code contract.

Exit codes of a check:  0 = all obligations discharged (known findings are
printed as KNOWN-FINDING lines), 1 = at least one unlisted violation
(VIOLATION property=<id> replay=<path>), 2 = the analysis itself is broken
(ANALYSIS-ERROR ...): vanished anchor, clang failure, instance floor missed.
"""
import hashlib
import json
import os
import sys
import time

VERIF = os.path.dirname(os.path.dirname(os.path.abspath(__file__)))
OUT_DIR = os.path.join(VERIF, "out")
EVID_DIR = os.path.join(VERIF, "evidence")
KNOWN_FILE = os.path.join(VERIF, "known_findings.json")


class AnalysisError(Exception):
    """The analysis cannot give a verdict (never a violation)."""


class Obligation(object):
    __slots__ = ("rule", "key", "ok", "file", "line", "extracted", "expected",
                 "note")

    def __init__(self, rule, key, ok, file, line, extracted, expected, note):
        self.rule = rule
        self.key = key
        self.ok = ok
        self.file = file
        self.line = line
        self.extracted = extracted
        self.expected = expected
        self.note = note

    def as_dict(self):
        return {"rule": self.rule, "key": self.key, "ok": self.ok,
                "where": "%s:%s" % (self.file, self.line),
                "extracted": _short(self.extracted),
                "expected": _short(self.expected), "note": self.note}


def _short(x, n=400):
    s = x if isinstance(x, str) else repr(x)
    return s if len(s) <= n else s[:n] + "..."


class Check(object):
    """Collects the obligations of one property run."""

    def __init__(self, prop, tier, repo, explanation):
        self.prop = prop
        self.tier = tier
        self.repo = repo
        self.explanation = explanation
        self.obs = []
        self.floors = {}          # rule -> minimum number of instances
        self.analysed = {}        # free-form counters of what was analysed
        self.assumptions = []
        self.t0 = time.time()
        self.only_key = None      # replay filter
        self.undecided = []       # text lines: what is not decided

    # -- recording ---------------------------------------------------------
    def ob(self, rule, key, ok, file="", line=0, extracted="", expected="",
           note=""):
        if file.startswith(self.repo):
            file = os.path.relpath(file, self.repo)
        o = Obligation(rule, key, bool(ok), file, line, extracted, expected,
                       note)
        self.obs.append(o)
        return o.ok

    def floor(self, rule, n):
        self.floors[rule] = max(n, self.floors.get(rule, 0))

    def count(self, what, n=1):
        self.analysed[what] = self.analysed.get(what, 0) + n

    def assume(self, text):
        if text not in self.assumptions:
            self.assumptions.append(text)

    # -- finishing ---------------------------------------------------------
    def finish(self):
        per_rule = {}
        for o in self.obs:
            d = per_rule.setdefault(o.rule, {"instances": 0, "failed": 0})
            d["instances"] += 1
            if not o.ok:
                d["failed"] += 1
        anyfail = any(not o.ok for o in self.obs)
        for rule, n in self.floors.items():
            got = per_rule.get(rule, {"instances": 0})["instances"]
            per_rule.setdefault(rule, {"instances": 0, "failed": 0})["floor"] = n
            if got < n and self.only_key is None and not anyfail:
                raise AnalysisError(
                    "rule %s matched %d instances, fewer than the %d confirmed"
                    " by hand: the rule no longer sees the code it was written"
                    " for" % (rule, got, n))
        known = load_known()
        failing = [o for o in self.obs if not o.ok]
        if self.only_key is not None:
            failing = [o for o in failing if o.key == self.only_key]
        seen = set()
        violations = 0
        nknown = 0
        for o in failing:
            if o.key in seen:
                continue
            seen.add(o.key)
            kf = known.get((self.prop, o.key))
            if kf is not None and kf.get("status") == "known":
                nknown += 1
                print("KNOWN-FINDING: property=%s %s [%s] %s:%s %s" % (
                    self.prop, kf.get("what", o.note), o.key, o.file, o.line,
                    _short(o.extracted, 160)))
                continue
            violations += 1
            path = write_replay(self.prop, o)
            print("VIOLATION property=%s replay=%s" % (self.prop, path))
            print("  rule=%s key=%s at %s:%s" % (o.rule, o.key, o.file, o.line))
            print("  extracted: %s" % _short(o.extracted, 300))
            print("  expected : %s" % _short(o.expected, 300))
            if o.note:
                print("  note     : %s" % o.note)
        wall = time.time() - self.t0
        if self.only_key is None and not os.environ.get("VSTAT_NO_EVIDENCE"):
            self.write_evidence(per_rule, violations, nknown, wall)
        nob = len(self.obs)
        ndis = len([o for o in self.obs if o.ok])
        print("%s %s: %d obligations, %d discharged, %d known findings, "
              "%d violations, %.1fs" % (self.prop, self.tier, nob, ndis,
                                        nknown, violations, wall))
        return 1 if violations else 0

    def write_evidence(self, per_rule, violations, nknown, wall):
        nob = len(self.obs)
        keys = set(o.key for o in self.obs)
        samples = []
        byrule = {}
        for o in self.obs:
            byrule.setdefault(o.rule, []).append(o)
        for rule in sorted(byrule):
            for o in byrule[rule][:3]:
                samples.append(o.as_dict())
        for o in self.obs:
            if not o.ok:
                samples.append(o.as_dict())
        try:
            seed = int(os.environ.get("VERIF_SEED", "0"))
        except ValueError:
            seed = 0
        ev = {
            "property_id": self.prop,
            "tier": self.tier,
            "seed": seed,
            "level": "other",
            "coverage": {
                "explanation": self.explanation,
                "obligations": nob,
                "discharged": len([o for o in self.obs if o.ok]),
                "evaluations": nob,
                "distinct_nontrivial": len(keys),
                "rule": "one evaluation = one rule instance (obligation) "
                        "evaluated on a construct found in /repo's current "
                        "source; distinct = distinct semantic keys (rule | "
                        "function | subject); every instance is anchored to "
                        "a concrete file:line, so none is trivial",
                "samples": samples[:60],
                "per_rule": per_rule,
                "analysed": self.analysed,
                "known_findings_reported": nknown,
                "not_decided": self.undecided,
                "exhaustive": False,
            },
            "assumptions": self.assumptions + [
                "static analysis only: nothing under /repo is imported or "
                "executed; the verdict covers the structural clauses named in "
                "DESIGN.md section 5 for this property, not the behaviour as "
                "a whole",
            ],
            "wall_s": round(wall, 3),
            "violations": violations,
        }
        os.makedirs(EVID_DIR, exist_ok=True)
        with open(os.path.join(EVID_DIR, self.prop + ".json"), "w") as f:
            json.dump(ev, f, indent=1, sort_keys=True)
            f.write("\n")


def load_known():
    """known_findings.json: list of {property, key, status: known|fixed, what}."""
    res = {}
    if os.path.exists(KNOWN_FILE):
        with open(KNOWN_FILE) as f:
            data = json.load(f)
        for e in data.get("findings", []):
            res[(e["property"], e["key"])] = e
    return res


def write_replay(prop, o):
    d = os.path.join(OUT_DIR, prop)
    os.makedirs(d, exist_ok=True)
    h = hashlib.sha256(o.key.encode()).hexdigest()[:16]
    path = os.path.join(d, h + ".json")
    with open(path, "w") as f:
        json.dump({"property": prop, "rule": o.rule, "key": o.key,
                   "file": o.file, "line": o.line,
                   "extracted": _short(o.extracted, 2000),
                   "expected": _short(o.expected, 2000), "note": o.note},
                  f, indent=1)
        f.write("\n")
    return path
