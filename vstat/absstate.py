"""State of the abstract interpreter: frames of local environments + heap."""
from .absval import (AObj, ABytes, Unknown, UNK, join, same)


class State(object):
    __slots__ = ("frames", "heap", "must", "havoc")

    def __init__(self):
        self.frames = [{}]        # list of dict name -> value
        self.heap = {}            # ident -> dict attr -> value
        self.must = set()         # labels of events that happened on all paths
        self.havoc = set()        # idents whose unknown attrs are Unknown

    # -- cloning preserves aliasing of lists/dicts inside one state ---------
    def clone(self):
        memo = {}
        s = State()
        s.frames = [_copy_dict(f, memo) for f in self.frames]
        s.heap = dict((k, _copy_dict(v, memo)) for k, v in self.heap.items())
        s.must = set(self.must)
        s.havoc = set(self.havoc)
        return s

    def top(self):
        return self.frames[-1]


def _copy_val(v, memo):
    if isinstance(v, list):
        i = id(v)
        if i in memo:
            return memo[i]
        r = type(v)() if type(v) is not list else []      # list subclasses of the models (ADeque) keep their type
        memo[i] = r
        r.extend(_copy_val(x, memo) for x in v)
        return r
    if isinstance(v, dict):
        i = id(v)
        if i in memo:
            return memo[i]
        r = {}
        memo[i] = r
        for k, x in v.items():
            r[k] = _copy_val(x, memo)
        return r
    if isinstance(v, bytearray):
        i = id(v)
        if i in memo:
            return memo[i]
        r = bytearray(v)
        memo[i] = r
        return r
    if isinstance(v, set):
        return set(v)
    return v


def _copy_dict(d, memo):
    i = id(d)
    if i in memo:
        return memo[i]
    r = {}
    memo[i] = r
    for k, v in d.items():
        r[k] = _copy_val(v, memo)
    return r


def join_states(a, b):
    """Join of two states (None = unreachable)."""
    if a is None:
        return b
    if b is None:
        return a
    if a is b:
        return a
    s = State()
    n = min(len(a.frames), len(b.frames))
    s.frames = []
    for i in range(n):
        fa, fb = a.frames[i], b.frames[i]
        if fa is fb:
            s.frames.append(fa)
            continue
        f = {}
        for k in set(fa) | set(fb):
            if k in fa and k in fb:
                if isinstance(k, str) and k.startswith("#minlen:") and \
                        isinstance(fa[k], int) and isinstance(fb[k], int):
                    f[k] = min(fa[k], fb[k])
                else:
                    f[k] = join(fa[k], fb[k])
            elif isinstance(k, str) and k.startswith("#"):
                continue
            else:
                f[k] = UNK
        s.frames.append(f)
    s.heap = {}
    for ident in set(a.heap) | set(b.heap):
        if ident in a.heap and ident in b.heap:
            ha, hb = a.heap[ident], b.heap[ident]
            h = {}
            for k in set(ha) | set(hb):
                if k in ha and k in hb:
                    h[k] = join(ha[k], hb[k])
                else:
                    # attribute set on one path only
                    h[k] = UNK
            s.heap[ident] = h
        else:
            s.heap[ident] = dict(a.heap.get(ident) or b.heap.get(ident) or {})
    s.must = a.must & b.must
    s.havoc = a.havoc | b.havoc
    return s
