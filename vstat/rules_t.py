"""Rule T — typestate extraction for classes with the `_next` idiom.

For every reachable abstract state (the set of method names in `_next`) and
every public method (with its argument classes) the method body is
interpreted with `_next` bound to that state and everything else Unknown.
The outcome is either *refused* (no normal exit reachable; must be TypeError,
raised before any attribute store or native call, `_next` unchanged) or
*allowed* with a statically constant successor state.  The extracted
automaton is compared with the documented one (spec) transition by
transition over the reachable part.
"""
import ast

from .absint import Interp
from .absstate import State
from .absval import UNK, ABytes, is_unk, Unknown
from .core import AnalysisError
from .pydb import params_of, norm


def _as_state(v):
    if isinstance(v, (list, tuple)) and all(isinstance(x, str) for x in v):
        return frozenset(v)
    return None


def init_state(repo, mod, cnode, config):
    """Initial `_next` of a class: the constant assigned in __init__."""
    r = repo.find_method(mod, cnode, "__init__")
    if r is None:
        raise AnalysisError("anchor vanished: %s.__init__" % cnode.name)
    vals = []
    for n in ast.walk(r[1]):
        if isinstance(n, ast.Assign):
            for t in n.targets:
                if norm(t) == "self._next":
                    try:
                        vals.append(frozenset(ast.literal_eval(n.value)))
                    except Exception:
                        raise AnalysisError("initial _next of %s is not a "
                                            "literal" % cnode.name)
    if len(set(vals)) != 1:
        raise AnalysisError("cannot determine the initial _next of %s" %
                            cnode.name)
    return vals[0], r[1]


def run_method(repo, mod, cnode, mname, state, config, argcls, max_depth=5):
    r = repo.find_method(mod, cnode, mname)
    if r is None:
        raise AnalysisError("anchor vanished: method %s.%s" % (cnode.name, mname))
    m2, fn = r
    it = Interp(repo, max_depth=max_depth, watch=("_next",))
    st = State()
    me = it.new_obj(st, mod, cnode, havoc=True)
    st.heap[me.ident]["_next"] = sorted(state)
    for k, v in config.items():
        st.heap[me.ident][k] = v
    args = {}
    for p in params_of(fn)[1:]:
        args[p] = ABytes(None, "bytes")
    a = fn.args
    pos = [x.arg for x in a.args]
    # parameters with a default keep it unless the arg class overrides
    ndef = len(a.defaults)
    for p, d in zip(pos[len(pos) - ndef:], a.defaults):
        if isinstance(d, ast.Constant):
            args[p] = d.value
    args.update(argcls)
    res = it.run(m2, fn, args, self_obj=me, state=st)
    return res, fn, m2


def extract(check, repo, modname, clsname, methods, config, key, spec_init=None):
    """Explore the automaton.  `methods` = list of (label, method, argclass).
    Returns dict state -> dict label -> ('refused', excs) | ('to', set(states))"""
    mod = repo.module(modname)
    cnode = repo.cls(mod, clsname)
    s0, initfn = init_state(repo, mod, cnode, config)
    table = {}
    todo = [s0]
    problems = []
    while todo:
        s = todo.pop()
        if s in table:
            continue
        if len(table) > 40:
            raise AnalysisError("state explosion in %s" % clsname)
        row = {}
        table[s] = row
        for label, mname, argcls in methods:
            res, fn, m2 = run_method(repo, mod, cnode, mname, s, config, argcls)
            rets = res.returns()
            if not rets:
                kill = set(k[1] for k in res.killers if k[0] == "raise") or \
                    set(res.raise_classes())
                row[label] = ("refused", frozenset(kill))
                # guard-first: nothing observable before the refusal
                pre = [e for e in res.events
                       if e.kind in ("store_attr", "store_sub", "ffi")]
                snaps = [o.snap for o in res.raises() if o.snap]
                changed = [sn for sn in snaps
                           if _as_state(sn.get("_next")) != s]
                if pre or changed:
                    problems.append((s, label, fn, m2,
                                     "refusal after an observable effect: %s" %
                                     (pre[0] if pre else "_next changed")))
                continue
            succ = set()
            for o in rets:
                ns = _as_state(o.snap.get("_next")) if o.snap else None
                if ns is None:
                    problems.append((s, label, fn, m2,
                                     "successor state is not a static constant "
                                     "(%r)" % (o.snap,)))
                else:
                    succ.add(ns)
            row[label] = ("to", frozenset(succ))
            # verify() that fails on the MAC comparison (ValueError) must leave the object where a successful verify()
            # leaves it: "digest() and verify() ... never unlock a forbidden operation"
            if mname in ("verify", "hexverify"):
                for o in res.raises():
                    if o.snap and o.exc and "ValueError" in Interp(repo).exc_mro(o.exc, m2):
                        fs = _as_state(o.snap.get("_next"))
                        if fs is not None and succ and not any(fs <= ns for ns in succ):
                            problems.append((s, label, fn, m2,
                                             "a failing %s (MAC check, ValueError) leaves the object in state %s, a successful one in %s" % (
                                                 label, fmt_state(fs), ",".join(fmt_state(x) for x in succ))))
            for ns in succ:
                if ns not in table:
                    todo.append(ns)
    return s0, table, problems, mod, cnode


def fmt_state(s):
    order = ["update", "encrypt", "decrypt", "digest", "verify"]
    return "{" + ",".join(sorted(s, key=lambda x: (order.index(x) if x in order else 9, x))) + "}"


def compare(check, repo, modname, clsname, methods, config, spec, prop_key,
            cfg_label=""):
    """spec: (init_state, dict state -> dict label -> frozenset next | None)."""
    s0, table, problems, mod, cnode = extract(check, repo, modname, clsname,
                                              methods, config, prop_key)
    key = "T|%s.%s%s" % (modname.split(".")[-1], clsname,
                          ("|" + cfg_label) if cfg_label else "")
    spec_init, spec_tab = spec
    check.ob("T", key + "|init", s0 == spec_init, mod.path, cnode.lineno,
             extracted="initial state %s" % fmt_state(s0),
             expected="documented initial state %s" % fmt_state(spec_init))
    check.count("typestate_states", len(table))
    for s in sorted(table, key=lambda x: (-len(x), sorted(x))):
        for label, mname, argcls in methods:
            got = table[s][label]
            want = spec_tab.get(s, {}).get(label, None) if s in spec_tab else "nostate"
            fn = repo.find_method(mod, cnode, mname)[1]
            check.count("typestate_transitions")
            if want == "nostate":
                check.ob("T", key + "|%s|%s" % (fmt_state(s), label), False,
                         mod.path, fn.lineno,
                         extracted="reachable state %s is not a documented state" % fmt_state(s),
                         expected="states %s" % ", ".join(fmt_state(x) for x in spec_tab))
                continue
            if want is None:
                ok = got[0] == "refused" and got[1] and all(
                    "TypeError" in Interp(repo).exc_mro(c, mod) for c in got[1])
                check.ob("T", key + "|%s|%s" % (fmt_state(s), label), ok,
                         mod.path, fn.lineno,
                         extracted="%s in state %s: %s" % (
                             label, fmt_state(s),
                             "refused with " + ",".join(sorted(got[1])) if got[0] == "refused"
                             else "allowed -> " + ",".join(fmt_state(x) for x in got[1])),
                         expected="refused with TypeError (forbidden by the "
                                  "documented state diagram)")
            else:
                ok = got[0] == "to" and got[1] == frozenset([want])
                check.ob("T", key + "|%s|%s" % (fmt_state(s), label), ok,
                         mod.path, fn.lineno,
                         extracted="%s in state %s: %s" % (
                             label, fmt_state(s),
                             "refused with " + ",".join(sorted(got[1])) if got[0] == "refused"
                             else "allowed -> " + ",".join(fmt_state(x) for x in got[1])),
                         expected="allowed -> %s" % fmt_state(want))
    for (s, label, fn, m2, why) in problems:
        check.ob("T", key + "|%s|%s|effect" % (fmt_state(s), label), False,
                 m2.path, fn.lineno, extracted=why,
                 expected="a refused call leaves the object untouched; "
                          "successor states are fixed by the diagram")
    # every documented state must be reachable in the code as well
    for s in spec_tab:
        if s not in table:
            check.ob("T", key + "|%s|reachable" % fmt_state(s), False,
                     mod.path, cnode.lineno,
                     extracted="documented state %s is not reachable in the "
                               "extracted automaton" % fmt_state(s),
                     expected="reachable")
    return table
