"""E-C/eval — abstract interpreter for the C sources over clang's JSON AST.

Nothing is compiled to run: clang is only asked for the syntax tree of a
translation unit (`-fsyntax-only -ast-dump=json` with the flags setup.py
gives that extension) and this module interprets the tree with its own
semantics:

  * integers carry the C type of the AST node (width, signedness): results are
    wrapped exactly as the C abstract machine does on this ABI (LP64, little
    endian); signed overflow, oversized shifts and division by zero are
    recorded as events;
  * memory is a set of byte-addressed objects (locals, parameters, heap blocks,
    globals, string literals); every load and store is bounds-checked, a freed
    object cannot be touched, uninitialised bytes are poison; pointers are
    (object, offset) pairs and survive being stored in memory;
  * bytes may be *symbolic*: XOR-linear combinations of uninterpreted atoms.
    Code that only moves and XORs data (block cipher modes, PBKDF2's
    accumulation) is then interpreted for all data values at once; control
    flow must not depend on a symbolic value (the interpreter stops with
    Undecided if it does);
  * callees are interpreted from their own AST (same TU, headers, or another
    TU of the repository); a rule may replace one by a model (e.g. the block
    cipher behind a mode by an uninterpreted function).

Rules use it in two ways only: on *all* inputs of a small finite domain, or on
region representatives for code that touches its operands through comparisons
and carries; what a table covers is stated by the rule that owns it.
"""
import json
import os
import re
import subprocess

from .core import AnalysisError


class CError(Exception):
    """A defect the evaluator itself detects (memory safety, UB)."""

    def __init__(self, kind, msg, line=None):
        Exception.__init__(self, "%s: %s" % (kind, msg))
        self.kind = kind
        self.msg = msg
        self.line = line


class Undecided(Exception):
    """The evaluator cannot continue soundly (unsupported construct, branch on
    an unknown or symbolic value, budget)."""


# ---------------------------------------------------------------------------
# types
# ---------------------------------------------------------------------------
class CT(object):
    __slots__ = ("k", "size", "signed", "to", "n", "fields", "name", "align")

    def __init__(self, k, size=0, signed=False, to=None, n=0, fields=None, name="", align=None):
        self.k = k              # int | ptr | array | struct | func | void | vec | float
        self.size = size
        self.signed = signed
        self.to = to            # pointee / element
        self.n = n
        self.fields = fields    # name -> (offset, CT)
        self.name = name
        self.align = align if align is not None else (size if k in ("int", "ptr", "float") else 1)

    def __repr__(self):
        if self.k == "int":
            return "%sint%d" % ("" if self.signed else "u", self.size * 8)
        if self.k == "ptr":
            return "ptr(%r)" % (self.to,)
        if self.k == "array":
            return "%r[%d]" % (self.to, self.n)
        return "%s %s" % (self.k, self.name)


VOID = CT("void", 0)
BUILTIN = {
    "char": (1, True), "signed char": (1, True), "unsigned char": (1, False),
    "short": (2, True), "unsigned short": (2, False), "short int": (2, True), "unsigned short int": (2, False),
    "int": (4, True), "unsigned int": (4, False), "unsigned": (4, False), "signed int": (4, True),
    "long": (8, True), "unsigned long": (8, False), "long int": (8, True), "unsigned long int": (8, False),
    "long long": (8, True), "unsigned long long": (8, False), "long long int": (8, True),
    "unsigned long long int": (8, False),
    "_Bool": (1, False), "__int128": (16, True), "unsigned __int128": (16, False),
    "__uint128_t": (16, False), "__int128_t": (16, True),
}


class TUInfo(object):
    """Declarations of one translation unit."""

    def __init__(self, ast):
        self.funcs = {}
        self.typedefs = {}
        self.typedef_rec = {}
        self.rec_by_name = {}
        self.rec_by_id = {}
        self.enums = {}
        self.globals = {}
        self.decl_by_id = {}
        self._tcache = {}
        for d in ast.get("inner", []):
            self._scan(d)

    def _scan(self, d):
        k = d.get("kind")
        if k == "FunctionDecl":
            if any(x.get("kind") == "CompoundStmt" for x in d.get("inner", []) or []):
                self.funcs[d.get("name")] = d
            else:
                self.funcs.setdefault(d.get("name"), d)
        elif k == "TypedefDecl":
            self.typedefs[d.get("name")] = d.get("type", {}).get("qualType", "")
            rid = self._find_record_ref(d)
            if rid:
                self.typedef_rec[d.get("name")] = rid
        elif k == "RecordDecl":
            self.rec_by_id[d.get("id")] = d
            if d.get("completeDefinition"):
                if d.get("name"):
                    self.rec_by_name[(d.get("tagUsed", "struct"), d.get("name"))] = d
                for f in d.get("inner", []) or []:
                    if f.get("kind") == "RecordDecl":
                        self._scan(f)
            elif d.get("name"):
                self.rec_by_name.setdefault((d.get("tagUsed", "struct"), d.get("name")), d)
        elif k == "EnumDecl":
            nxt = 0
            for e in d.get("inner", []) or []:
                if e.get("kind") == "EnumConstantDecl":
                    v = None
                    for x in _walk(e):
                        if x.get("kind") == "ConstantExpr" and "value" in x:
                            v = int(x["value"])
                            break
                        if x.get("kind") == "IntegerLiteral":
                            v = int(x["value"])
                    if v is None:
                        v = nxt
                    self.enums[e.get("name")] = v
                    self.decl_by_id[e.get("id")] = ("enum", v)
                    nxt = v + 1
        elif k == "VarDecl":
            if d.get("name") not in self.globals or d.get("inner"):
                self.globals[d.get("name")] = d

    def _find_record_ref(self, d):
        for x in _walk(d):
            if x.get("kind") == "RecordType" and isinstance(x.get("decl"), dict):
                return x["decl"].get("id")
        return None

    # -- type parsing ------------------------------------------------------------
    def ctype(self, tnode):
        if tnode is None:
            return VOID
        if isinstance(tnode, dict):
            t = tnode.get("_ct")
            if t is not None:
                return t
            s = tnode.get("desugaredQualType") or tnode.get("qualType") or ""
            alt = tnode.get("qualType") or ""
        else:
            s = alt = tnode
        try:
            t = self.parse(s)
        except Undecided:
            if alt == s:
                raise
            t = self.parse(alt)
        if isinstance(tnode, dict):
            tnode["_ct"] = t
        return t

    def parse(self, s):
        s = s.strip()
        t = self._tcache.get(s)
        if t is None:
            t = self._parse(s)
            self._tcache[s] = t
        return t

    def _parse(self, s):
        s = re.sub(r"\b(const|volatile|restrict|__restrict)\b", " ", s)
        s = re.sub(r"\s+", " ", s).strip()
        s = s.replace(" *", "*").replace("* ", "*")
        # function pointer / pointer to array:  RET (*)(ARGS) | T (*)[N]
        m = re.match(r"^(.*?)\(\*+\)\s*(\(.*\)|\[\d*\].*)$", s)
        if m:
            inner = m.group(2)
            if inner.startswith("("):
                return CT("ptr", 8, to=CT("func", 0, name=s))
            return CT("ptr", 8, to=self.parse(m.group(1).strip() + inner))
        m = re.match(r"^(.*?)\((.*)\)$", s)
        if m and not s.startswith("struct (") and not s.startswith("union ("):
            return CT("func", 0, name=s)
        # arrays: T[a][b]
        m = re.match(r"^(.*?)((?:\[\d*\])+)$", s)
        if m:
            base = self.parse(m.group(1))
            dims = [int(x) if x else 0 for x in re.findall(r"\[(\d*)\]", m.group(2))]
            t = base
            for n in reversed(dims):
                t = CT("array", t.size * n, to=t, n=n, align=t.align)
            return t
        if s.endswith("*"):
            return CT("ptr", 8, to=self._lazy(s[:-1].strip()))
        if s in BUILTIN:
            sz, sg = BUILTIN[s]
            return CT("int", sz, sg, name=s)
        if s in ("float", "double", "long double"):
            return CT("float", {"float": 4, "double": 8, "long double": 16}[s], name=s)
        if s == "void":
            return VOID
        if s.startswith("enum "):
            return CT("int", 4, False, name=s)
        if s.startswith("struct ") or s.startswith("union "):
            tag, name = s.split(" ", 1)
            d = self.rec_by_name.get((tag, name))
            if d is None:
                return CT("struct", 0, name=s, fields=None)
            return self._record(d)
        if s in self.typedef_rec and self.typedef_rec[s] in self.rec_by_id:
            d = self.rec_by_id[self.typedef_rec[s]]
            if not d.get("completeDefinition") and d.get("name"):
                d = self.rec_by_name.get((d.get("tagUsed", "struct"), d.get("name")), d)
            return self._record(d)
        if s in self.typedefs:
            return self.parse(self.typedefs[s])
        if s.startswith("__attribute__") or "vector" in s or s.startswith("__m"):
            return CT("vec", 16, name=s)
        raise Undecided("type not understood: %r" % s)

    def _lazy(self, s):
        # pointee types are parsed on demand (self-referential structs)
        try:
            if s.startswith("struct ") or s.startswith("union ") or s in self.typedef_rec:
                return _LazyCT(self, s)
            return self.parse(s)
        except Undecided:
            return _LazyCT(self, s)

    def _record(self, d):
        key = "#rec:%s" % d.get("id")
        t = self._tcache.get(key)
        if t is not None:
            return t
        t = CT("struct", 0, name=d.get("name") or "<anon>", fields={})
        self._tcache[key] = t
        off = 0
        align = 1
        union = d.get("tagUsed") == "union"
        size = 0
        for f in d.get("inner", []) or []:
            if f.get("kind") != "FieldDecl":
                continue
            if f.get("isBitfield"):
                raise Undecided("bit-field in %s" % t.name)
            ft = self.ctype(f.get("type"))
            ft = resolve(ft)
            a = max(1, ft.align)
            align = max(align, a)
            if union:
                t.fields[f.get("name")] = (0, ft)
                size = max(size, ft.size)
            else:
                off = (off + a - 1) // a * a
                t.fields[f.get("name")] = (off, ft)
                off += ft.size
                size = off
        t.size = (size + align - 1) // align * align
        t.align = align
        return t


class _LazyCT(object):
    __slots__ = ("tu", "s", "_t")

    def __init__(self, tu, s):
        self.tu = tu
        self.s = s
        self._t = None

    def get(self):
        if self._t is None:
            self._t = self.tu.parse(self.s)
        return self._t


def resolve(t):
    return t.get() if isinstance(t, _LazyCT) else t


def _walk(n):
    todo = [n]
    while todo:
        x = todo.pop()
        if isinstance(x, dict):
            yield x
            for c in x.get("inner", []) or []:
                todo.append(c)


# ---------------------------------------------------------------------------
# values
# ---------------------------------------------------------------------------
class P(object):
    """Pointer: object id (0 = null / integer-valued) and byte offset."""
    __slots__ = ("obj", "off")

    def __init__(self, obj, off=0):
        self.obj = obj
        self.off = off

    def __eq__(self, o):
        return isinstance(o, P) and o.obj == self.obj and o.off == self.off

    def __ne__(self, o):
        return not self.__eq__(o)

    def __hash__(self):
        return hash((self.obj, self.off))

    def __repr__(self):
        return "NULL" if self.obj == 0 and self.off == 0 else "&%d+%d" % (self.obj, self.off)


NULL = P(0, 0)


class FRef(object):
    __slots__ = ("name",)

    def __init__(self, name):
        self.name = name

    def __eq__(self, o):
        return isinstance(o, FRef) and o.name == self.name

    def __hash__(self):
        return hash(self.name)

    def __repr__(self):
        return "&" + self.name


class S(object):
    """Symbolic byte: XOR of atoms and a constant.  Instances are interned
    (hash-consed), so equality is identity and terms that embed other terms
    (E(E(x) ^ y) ...) are compared in constant time."""
    __slots__ = ("atoms", "c", "__weakref__")
    _table = {}

    def __new__(cls, atoms, c=0):
        if not isinstance(atoms, frozenset):
            atoms = frozenset(atoms)
        c &= 0xFF
        key = (atoms, c)
        o = cls._table.get(key)
        if o is None:
            o = object.__new__(cls)
            o.atoms = atoms
            o.c = c
            cls._table[key] = o
        return o

    def __init__(self, atoms, c=0):
        pass

    def __eq__(self, o):
        return self is o

    def __ne__(self, o):
        return self is not o

    def __hash__(self):
        return id(self)

    def __repr__(self):
        parts = sorted(_short(a) for a in self.atoms)
        if self.c:
            parts.append("0x%02x" % self.c)
        return "^".join(parts) or "0"


def _short(a, depth=0):
    if isinstance(a, tuple) and len(a) == 3 and isinstance(a[1], tuple):
        if depth >= 1:
            return "%s(..)[%s]" % (a[0], a[2])
        return "%s(%s)[%s]" % (a[0], ",".join(
            ("%02x" % c) if isinstance(c, int) else "^".join(sorted(_short(x, depth + 1) for x in c.atoms)) + (
                "^%02x" % c.c if c.c else "") for c in a[1]), a[2])
    if isinstance(a, tuple):
        return "".join(str(x) for x in a)
    return str(a)


def sym(name):
    return S(frozenset([name]))


def bxor(a, b):
    if a is None or b is None:
        return None
    if isinstance(a, int) and isinstance(b, int):
        return a ^ b
    if isinstance(a, int):
        a, b = b, a
    if isinstance(b, int):
        return S(a.atoms, a.c ^ b)
    at = a.atoms ^ b.atoms
    c = a.c ^ b.c
    return S(at, c) if at else c


class W(object):
    """Multi-byte value with at least one symbolic byte (little endian)."""
    __slots__ = ("b",)

    def __init__(self, b):
        self.b = list(b)

    def __eq__(self, o):
        return isinstance(o, W) and o.b == self.b

    def __ne__(self, o):
        return not self.__eq__(o)

    def __hash__(self):
        return hash(tuple(self.b))

    def __repr__(self):
        return "W[%s]" % ",".join(repr(x) for x in self.b)


def to_bytes_le(v, n):
    """int | S | W | None -> list of n byte cells."""
    if v is None:
        return [None] * n
    if isinstance(v, int):
        return list((v & ((1 << (8 * n)) - 1)).to_bytes(n, "little"))
    if isinstance(v, S):
        return [v] + [0] * (n - 1)
    if isinstance(v, W):
        return (v.b + [0] * n)[:n]
    raise Undecided("cannot encode %r in %d bytes" % (v, n))


def from_bytes_le(cells):
    if any(c is None for c in cells):
        return None
    if all(isinstance(c, int) for c in cells):
        r = 0
        for i, c in enumerate(cells):
            r |= c << (8 * i)
        return r
    if len(cells) == 1:
        return cells[0]
    return W(cells)


class Agg(object):
    """Aggregate rvalue (struct / array copied by value)."""
    __slots__ = ("cells",)

    def __init__(self, cells):
        self.cells = cells


class Obj(object):
    __slots__ = ("id", "size", "cells", "name", "kind", "freed", "const")

    def __init__(self, oid, size, name, kind, init=None):
        self.id = oid
        self.size = size
        self.cells = [init] * size
        self.name = name
        self.kind = kind
        self.freed = False
        self.const = False


class _Break(Exception):
    pass


class _Continue(Exception):
    pass


class _Return(Exception):
    def __init__(self, v):
        self.v = v


class _Goto(Exception):
    def __init__(self, label):
        self.label = label


# ---------------------------------------------------------------------------
# program database
# ---------------------------------------------------------------------------
_FILE_RE = re.compile(r'"file": "([^"]*)"')
_INCL_RE = re.compile(r'"includedFrom": \{[^}]*\}')


def prune_ast_text(txt, side_prefix=None, big=120000):
    """Drop function definitions that live in system headers (the x86 intrinsic
    headers alone are 170 MB of JSON) from clang's pretty-printed AST dump.  The
    dump is cut at its top-level declarations (lines '    {' ... '    }'); a
    declaration's file is the last "file" key printed so far (clang omits the
    key when the file does not change).  Types, records, enums and variables
    are kept wherever they come from."""
    lines = txt.split("\n")
    out = []
    cur_file = ""
    i = 0
    n = len(lines)
    # header up to and including '"inner": ['
    while i < n and lines[i] != "    {":
        out.append(lines[i])
        i += 1
    kept = []
    while i < n and lines[i] == "    {":
        j = i + 1
        while j < n and lines[j] not in ("    },", "    }"):
            j += 1
        chunk = lines[i:j + 1]
        text = "\n".join(chunk)
        head = text[:text.find('"range"')] if '"range"' in text else text[:600]
        mh = _FILE_RE.findall(_INCL_RE.sub("", head))
        decl_file = mh[0] if mh else cur_file
        allf = _FILE_RE.findall(_INCL_RE.sub("", text))
        if allf:
            cur_file = allf[-1]
        system = decl_file.startswith(("/usr/", "/lib/", "/opt/")) or "/lib/clang/" in decl_file
        is_func = '"kind": "FunctionDecl"' in head
        if not (system and is_func):
            if is_func and side_prefix and len(text) > big:
                # very large bodies (unrolled round functions) go to a side file and are loaded on first call
                mname = re.search(r'\n      "name": "([^"]+)"', text[:8000])
                if mname:
                    side = "%s%s.json" % (side_prefix, mname.group(1))
                    body = text[:-1] if text.endswith("},") else text
                    body = json.dumps(json.loads(body), separators=(",", ":"))
                    tmp = side + ".%d.tmp" % os.getpid()
                    with open(tmp, "w") as f:
                        f.write(body)
                    os.replace(tmp, side)
                    text = json.dumps({"kind": "FunctionDecl", "name": mname.group(1), "_lazy": os.path.basename(side),
                                       "inner": [{"kind": "CompoundStmt", "inner": []}]})
                    text = "    " + text + ","
                    kept.append(text)
                    i = j + 1
                    continue
            if chunk[-1] == "    }":
                chunk = chunk[:-1] + ["    },"]
            kept.append("\n".join(chunk))
        i = j + 1
    if kept:
        kept[-1] = kept[-1][:-1] if kept[-1].endswith("},") else kept[-1]
    out.append("\n".join(kept))
    out.extend(lines[i:])
    # compact form: a third of the size, faster to load in every worker process
    return json.dumps(json.loads("\n".join(out)), separators=(",", ":"))



class CProgram(object):
    """Lazily loaded ASTs of the repository's translation units."""

    def __init__(self, cdb):
        self.cdb = cdb
        self._tu = {}
        self._where = None

    def tu(self, src):
        t = self.cdb.tu(src)
        key = (t.ext, t.src)
        if key not in self._tu:
            name = "tuastr_%s_%s.json" % (t.ext.split(".")[-1], os.path.basename(t.src))
            side = os.path.join(self.cdb.dir, "fn_%s_%s_" % (t.ext.split(".")[-1], os.path.basename(t.src)))
            txt = self.cdb._cached(name, lambda: prune_ast_text(self.cdb._clang(
                ["-Xclang", "-ast-dump=json", "-fsyntax-only", "-Wno-everything"], t), side))
            info = TUInfo(json.loads(txt))
            info.side_dir = self.cdb.dir
            self._tu[key] = info
        return self._tu[key]

    def find_global(self, name):
        """TUInfo of a translation unit that defines (initialises) the global `name`."""
        for (t, gname, kind, link, line) in self.cdb.globals():
            if gname == name:
                info = self.tu(t.src)
                d = info.globals.get(name)
                if d is not None and _init_of(d):
                    return info
        return None

    def find_extern(self, name):
        """TUInfo of another translation unit that defines `name`."""
        F = self.cdb.functions()
        for f in F.get(name, []):
            if f.linkage == "external" or True:
                return self.tu(f.tu.src)
        return None


# ---------------------------------------------------------------------------
# the machine
# ---------------------------------------------------------------------------
class Machine(object):
    def __init__(self, prog, src, models=None, budget=3000000):
        self.prog = prog
        self.src = src
        self.tu = prog.tu(src)
        self.models = dict(models or {})
        self.objs = {}
        self.next_id = 1
        self.budget = budget
        self.steps = 0
        self.events = []          # (kind, text, line)
        self.globals = {}         # (tu id, name) -> P
        self.frames = []
        self.line = None
        self.depth = 0
        self.strict_uninit = True
        self.fd_stack = []

    # -- memory -----------------------------------------------------------------
    def alloc(self, size, name="", kind="heap", init=None):
        o = Obj(self.next_id, size, name, kind, init)
        self.next_id += 1
        self.objs[o.id] = o
        return P(o.id, 0)

    def alloc_bytes(self, data, name="buf", kind="heap"):
        """data: bytes or list of cells."""
        p = self.alloc(len(data), name, kind)
        self.objs[p.obj].cells = list(data)
        return p

    def _obj(self, p, n, what):
        if not isinstance(p, P):
            raise Undecided("%s through a non-pointer %r" % (what, p))
        if p.obj == 0:
            raise CError("null-deref", "%s of %d bytes through %s" % (
                what, n, "NULL" if p.off == 0 else "the integer %d" % p.off), self.line)
        o = self.objs.get(p.obj)
        if o is None:
            raise CError("use-after-return", "%s of %d bytes through a pointer to a local variable of a function that "
                         "has returned" % (what, n), self.line)
        if o.freed:
            raise CError("use-after-free", "%s of %d bytes in freed %s" % (what, n, o.name), self.line)
        if p.off < 0 or p.off + n > o.size:
            raise CError("out-of-bounds", "%s of %d byte(s) at offset %d of %s (%d bytes, %s)" % (
                what, n, p.off, o.name or "object", o.size, o.kind), self.line)
        return o

    def read_cells(self, p, n):
        if n == 0:
            return []
        o = self._obj(p, n, "read")
        return o.cells[p.off:p.off + n]

    def write_cells(self, p, cells):
        n = len(cells)
        if n == 0:
            return
        o = self._obj(p, n, "write")
        if o.const:
            raise CError("write-to-const", "write of %d bytes into constant %s" % (n, o.name), self.line)
        o.cells[p.off:p.off + n] = cells

    def load(self, p, t):
        t = resolve(t)
        if t.k in ("struct", "array", "vec"):
            return Agg(self.read_cells(p, t.size))
        cells = self.read_cells(p, t.size)
        if t.k == "int":
            try:
                v = int.from_bytes(bytes(cells), "little")
                if t.signed and v >> (8 * t.size - 1):
                    v -= 1 << (8 * t.size)
                return v
            except (TypeError, ValueError):
                pass
        if t.k == "ptr":
            c0 = cells[0]
            if isinstance(c0, tuple) and c0[0] == "p":
                if all(isinstance(c, tuple) and c[0] == "p" and c[1] is c0[1] and c[2] == i for i, c in enumerate(cells)):
                    return c0[1]
                return None
            v = from_bytes_le([c if not isinstance(c, tuple) else None for c in cells])
            if v is None:
                return None
            if isinstance(v, int):
                return P(0, v)
            return None
        if any(isinstance(c, tuple) for c in cells):
            return None
        v = from_bytes_le(cells)
        if isinstance(v, int) and t.k == "int" and t.signed and v >> (8 * t.size - 1):
            v -= 1 << (8 * t.size)
        return v

    def store(self, p, t, v):
        t = resolve(t)
        if isinstance(v, Agg):
            if len(v.cells) != t.size:
                raise Undecided("aggregate size mismatch")
            self.write_cells(p, list(v.cells))
            return
        if t.k == "ptr" or isinstance(v, (P, FRef)):
            if isinstance(v, int):
                v = P(0, v)
            if v is None:
                self.write_cells(p, [None] * t.size)
                return
            if isinstance(v, P) and v.obj == 0:
                self.write_cells(p, to_bytes_le(v.off, t.size))
                return
            self.write_cells(p, [("p", v, i) for i in range(t.size)])
            return
        if t.k in ("struct", "array", "vec"):
            raise Undecided("scalar stored into aggregate")
        self.write_cells(p, to_bytes_le(v, t.size))

    # -- helpers for rules --------------------------------------------------------
    def bytes_at(self, p, n):
        return self.read_cells(p, n)

    def concrete_bytes(self, p, n):
        c = self.read_cells(p, n)
        if not all(isinstance(x, int) for x in c):
            raise Undecided("bytes are not concrete: %r" % (c[:8],))
        return bytes(c)

    def event(self, kind, text):
        self.events.append((kind, text, self.line))

    # -- integer semantics ------------------------------------------------------
    def wrap(self, v, t, what="arithmetic"):
        t = resolve(t)
        if v is None or isinstance(v, (P, FRef, Agg)):
            return v
        if t.k == "ptr":
            return v
        if t.k != "int":
            if t.k == "void":
                return None
            return v
        bits = 8 * t.size
        if isinstance(v, (S, W)):
            cells = to_bytes_le(v, t.size)
            return from_bytes_le(cells)
        if isinstance(v, bool):
            v = int(v)
        if t.name == "_Bool":
            return int(v != 0)
        if t.signed:
            lo, hi = -(1 << (bits - 1)), (1 << (bits - 1)) - 1
            if v < lo or v > hi:
                if what == "arithmetic":
                    self.event("signed-overflow", "signed %d-bit %s overflows (%d)" % (bits, what, v))
                v &= (1 << bits) - 1
                if v >> (bits - 1):
                    v -= 1 << bits
            return v
        return v & ((1 << bits) - 1)

    # -- declarations -----------------------------------------------------------
    def tick(self):
        self.steps += 1
        if self.steps > self.budget:
            raise Undecided("step budget exceeded")

    def lookup_var(self, ref, tu):
        did = ref.get("id")
        for fr in self.frames[-1:]:
            if did in fr:
                return fr[did]
        kind = ref.get("kind")
        name = ref.get("name")
        if kind == "EnumConstantDecl":
            return None
        key = (id(tu), name)
        if key in self.globals:
            return self.globals[key]
        d = tu.globals.get(name)
        if d is None:
            raise Undecided("unknown variable %s" % name)
        if d.get("storageClass") == "extern" and not _init_of(d):
            # defined in another translation unit of the repository
            other = self.prog.find_global(name)
            if other is not None and other is not tu:
                r = self.lookup_var(ref, other)
                self.globals[key] = r
                return r
            raise Undecided("extern variable %s has no definition in the repository" % name)
        t = resolve(tu.ctype(d.get("type")))
        const = "const" in d.get("type", {}).get("qualType", "")
        p = self.alloc(t.size, name, "global", init=0)
        self.globals[key] = (p, t)
        init = _init_of(d)
        if init:
            saved = self.frames
            self.frames = [{}]
            try:
                self.init_object(p, t, init[-1], tu)
            finally:
                self.frames = saved
        self.objs[p.obj].const = const
        return self.globals[key]

    def init_object(self, p, t, init, tu):
        t = resolve(t)
        k = init.get("kind")
        if k == "InitListExpr":
            if t.k == "array":
                et = resolve(t.to)
                items = init.get("inner", []) or []
                filler = None
                if "array_filler" in init:
                    af = init["array_filler"]
                    items = [x for x in af if x.get("kind") != "ImplicitValueInitExpr"]
                    filler = True
                self.write_cells(p, [0] * t.size)
                for i, it in enumerate(items):
                    self.init_object(P(p.obj, p.off + i * et.size), et, it, tu)
                return
            if t.k == "struct":
                self.write_cells(p, [0] * t.size)
                names = list(t.fields)
                for i, it in enumerate(init.get("inner", []) or []):
                    if i < len(names):
                        off, ft = t.fields[names[i]]
                        self.init_object(P(p.obj, p.off + off), ft, it, tu)
                return
            items = init.get("inner", []) or []
            if items:
                self.init_object(p, t, items[0], tu)
            else:
                self.write_cells(p, [0] * t.size)
            return
        if k == "ImplicitValueInitExpr":
            self.write_cells(p, [0] * t.size)
            return
        if k == "StringLiteral" and t.k == "array":
            data = _string_value(init)
            cells = list(data) + [0] * (t.size - len(data))
            self.write_cells(p, cells[:t.size])
            return
        v = self.rv(init, tu)
        self.store(p, t, self.wrap(v, t, "initialiser"))

    # -- calls ------------------------------------------------------------------
    def call(self, name, args, tu=None):
        """Call a C function by name with already evaluated arguments."""
        tu = tu or self.tu
        if name in self.models:
            return self.models[name](self, args)
        b = BUILTINS.get(name)
        fd = tu.funcs.get(name)
        has_body = fd is not None and any(x.get("kind") == "CompoundStmt" for x in fd.get("inner", []) or [])
        if not has_body:
            if b is not None:
                return b(self, args)
            other = self.prog.find_extern(name)
            if other is not None and name in other.funcs and any(
                    x.get("kind") == "CompoundStmt" for x in other.funcs[name].get("inner", []) or []):
                tu = other
                fd = other.funcs[name]
            else:
                raise Undecided("no body and no model for %s()" % name)
        elif b is not None and (name in ("memcpy", "memset", "memcmp", "memmove") or name.startswith("_mm_")):
            return b(self, args)
        return self.run_decl(fd, args, tu)

    def run_decl(self, fd, args, tu):
        if fd.get("_lazy"):
            with open(os.path.join(tu.side_dir, fd["_lazy"])) as f:
                real = json.load(f)
            tu.funcs[fd.get("name")] = real
            fd = real
        self.depth += 1
        if self.depth > 60:
            raise Undecided("call depth")
        params = [x for x in fd.get("inner", []) if x.get("kind") == "ParmVarDecl"]
        body = [x for x in fd.get("inner", []) if x.get("kind") == "CompoundStmt"][0]
        if len(args) != len(params):
            raise Undecided("%s(): %d arguments for %d parameters" % (fd.get("name"), len(args), len(params)))
        fr = {}
        self.fd_stack.append(fd)
        for pd, a in zip(params, args):
            t = resolve(tu.ctype(pd.get("type")))
            if t.k == "array":
                t = CT("ptr", 8, to=t.to)
            p = self.alloc(t.size, pd.get("name"), "param")
            self.store(p, t, self.wrap(a, t, "argument"))
            fr[pd.get("id")] = (p, t)
        self.frames.append(fr)
        saved_line = self.line
        try:
            rt = fd.get("type", {}).get("qualType", "void").split("(")[0].strip()
            try:
                self.exec_body(body, tu)
                ret = None
            except _Return as r:
                ret = r.v
            try:
                rtt = tu.parse(rt)
            except Undecided:
                rtt = VOID
            return self.wrap(ret, rtt, "return") if rtt.k != "void" else None
        finally:
            for (p, t) in fr.values():
                o = self.objs.get(p.obj)
                if o is not None and o.kind in ("local", "param"):
                    del self.objs[p.obj]
            self.frames.pop()
            self.fd_stack.pop()
            self.depth -= 1
            self.line = saved_line

    def exec_body(self, body, tu):
        """Function body with support for forward/backward goto to top-level labels."""
        stmts = body.get("inner", []) or []
        i = 0
        while i < len(stmts):
            try:
                self.ex(stmts[i], tu)
                i += 1
            except _Goto as g:
                tgt = None
                for j, s in enumerate(stmts):
                    if s.get("kind") == "LabelStmt" and s.get("name") == g.label:
                        tgt = j
                if tgt is None:
                    raise Undecided("goto %s: label is not at the top level of the function" % g.label)
                i = tgt

    # -- statements ---------------------------------------------------------------
    def ex(self, s, tu):
        self.tick()
        k = s.get("kind")
        if k is None:
            return
        ln = s.get("range", {}).get("begin", {}).get("line")
        if ln:
            self.line = ln
        if k == "CompoundStmt":
            for x in s.get("inner", []) or []:
                self.ex(x, tu)
            return
        if k == "DeclStmt":
            for d in s.get("inner", []) or []:
                if d.get("kind") == "VarDecl":
                    self.declare(d, tu)
            return
        if k == "IfStmt":
            inner = s["inner"]
            c = self.truth(self.rv(inner[0], tu))
            if c:
                self.ex(inner[1], tu)
            elif len(inner) > 2:
                self.ex(inner[2], tu)
            return
        if k == "ForStmt":
            init, _cv, cond, inc, body = (s["inner"] + [{}] * 5)[:5]
            if init.get("kind"):
                self.ex(init, tu)
            while True:
                if cond.get("kind") and not self.truth(self.rv(cond, tu)):
                    break
                try:
                    self.ex(body, tu)
                except _Break:
                    break
                except _Continue:
                    pass
                if inc.get("kind"):
                    self.rv(inc, tu)
                self.tick()
            return
        if k == "WhileStmt":
            cond, body = s["inner"][-2], s["inner"][-1]
            while self.truth(self.rv(cond, tu)):
                try:
                    self.ex(body, tu)
                except _Break:
                    break
                except _Continue:
                    pass
                self.tick()
            return
        if k == "DoStmt":
            body, cond = s["inner"][0], s["inner"][1]
            while True:
                try:
                    self.ex(body, tu)
                except _Break:
                    break
                except _Continue:
                    pass
                if not self.truth(self.rv(cond, tu)):
                    break
                self.tick()
            return
        if k == "ReturnStmt":
            inner = s.get("inner") or []
            raise _Return(self.rv(inner[0], tu) if inner else None)
        if k == "BreakStmt":
            raise _Break()
        if k == "ContinueStmt":
            raise _Continue()
        if k == "NullStmt":
            return
        if k == "GotoStmt":
            tgt = s.get("targetLabelDeclId")
            name = None
            for fr in ():
                pass
            raise _Goto(self._label_name(tgt, tu))
        if k == "LabelStmt":
            for x in s.get("inner", []) or []:
                self.ex(x, tu)
            return
        if k == "SwitchStmt":
            return self.ex_switch(s, tu)
        if k in ("CaseStmt", "DefaultStmt"):
            # reached by fall-through
            self.ex(s["inner"][-1], tu)
            return
        if k == "AttributedStmt":
            self.ex(s["inner"][-1], tu)
            return
        # expression statement
        self.rv(s, tu)

    def _label_name(self, decl_id, tu):
        fd = self.fd_stack[-1] if self.fd_stack else None
        cache = fd.get("_labels") if fd is not None else None
        if cache is None:
            cache = {}
            for x in _walk(fd or {}):
                if x.get("kind") == "LabelStmt":
                    cache[x.get("declId")] = x.get("name")
            if fd is not None:
                fd["_labels"] = cache
        if decl_id not in cache:
            raise Undecided("goto target not found")
        return cache[decl_id]

    def ex_switch(self, s, tu):
        inner = s["inner"]
        v = self.rv(inner[-2], tu)
        if not isinstance(v, int):
            raise Undecided("switch on a non-concrete value")
        body = inner[-1]
        stmts = body.get("inner", []) or []
        # flatten labels: list of (label values or 'default', statement index, nested stmt)
        start = None
        default = None

        def labels(st):
            """yield (value|'default', innermost statement) for a (nested) case chain"""
            out = []
            cur = st
            while cur.get("kind") in ("CaseStmt", "DefaultStmt"):
                if cur.get("kind") == "CaseStmt":
                    out.append(self.rv(cur["inner"][0], tu))
                else:
                    out.append("default")
                cur = cur["inner"][-1]
            return out, cur
        for i, st in enumerate(stmts):
            if st.get("kind") in ("CaseStmt", "DefaultStmt"):
                ls, _ = labels(st)
                if v in [x for x in ls if x != "default"] and start is None:
                    start = i
                if "default" in ls:
                    default = i
        if start is None:
            start = default
        if start is None:
            return
        try:
            for st in stmts[start:]:
                if st.get("kind") in ("CaseStmt", "DefaultStmt"):
                    _, inner_st = labels(st)
                    self.ex(inner_st, tu)
                else:
                    self.ex(st, tu)
        except _Break:
            pass

    def declare(self, d, tu):
        t = resolve(tu.ctype(d.get("type")))
        if d.get("storageClass") == "static":
            key = (id(tu), "static:" + d.get("id"))
            if key not in self.globals:
                p = self.alloc(t.size, d.get("name"), "global", init=0)
                self.globals[key] = (p, t)
                init = _init_of(d)
                if init:
                    self.init_object(p, t, init[-1], tu)
                if "const" in d.get("type", {}).get("qualType", ""):
                    self.objs[p.obj].const = True
            self.frames[-1][d.get("id")] = self.globals[key]
            return
        p = self.alloc(t.size, d.get("name"), "local", init=None)
        self.frames[-1][d.get("id")] = (p, t)
        init = _init_of(d)
        if init and d.get("init"):
            self.init_object(p, t, init[-1], tu)

    def truth(self, v):
        if isinstance(v, bool):
            return v
        if isinstance(v, int):
            return v != 0
        if isinstance(v, P):
            return not (v.obj == 0 and v.off == 0)
        if isinstance(v, FRef):
            return True
        if v is None:
            raise Undecided("branch on an unknown / uninitialised value (line %s)" % self.line)
        raise Undecided("branch on a symbolic value %r (line %s)" % (v, self.line))

    # -- lvalues ------------------------------------------------------------------
    def lv(self, n, tu):
        k = n.get("kind")
        if k == "ParenExpr":
            return self.lv(n["inner"][0], tu)
        if k == "DeclRefExpr":
            ref = n.get("referencedDecl", {})
            if ref.get("kind") == "FunctionDecl":
                raise Undecided("function used as lvalue")
            r = self.lookup_var(ref, tu)
            return r
        if k == "UnaryOperator" and n.get("opcode") == "*":
            p = self.rv(n["inner"][0], tu)
            return (p, resolve(tu.ctype(n.get("type"))))
        if k == "UnaryOperator" and n.get("opcode") == "__extension__":
            return self.lv(n["inner"][0], tu)
        if k == "ArraySubscriptExpr":
            a = self.rv(n["inner"][0], tu)
            b = self.rv(n["inner"][1], tu)
            if isinstance(b, P) and not isinstance(a, P):
                a, b = b, a
            t = resolve(tu.ctype(n.get("type")))
            if not isinstance(a, P) or not isinstance(b, int):
                raise Undecided("subscript with non-concrete operands (%r[%r], line %s)" % (a, b, self.line))
            return (P(a.obj, a.off + b * t.size), t)
        if k == "MemberExpr":
            base = n["inner"][0]
            if n.get("isArrow"):
                bp = self.rv(base, tu)
                bt = resolve(tu.ctype(base.get("type")))
                st = resolve(bt.to) if bt.k == "ptr" else bt
            else:
                bp, st = self.lv(base, tu)
                st = resolve(st)
            if st.fields is None or n.get("name") not in st.fields:
                st2 = resolve(tu.ctype(base.get("type")))
                if st2.k == "ptr":
                    st2 = resolve(st2.to)
                st = st2
            if st.fields is None or n.get("name") not in st.fields:
                raise Undecided("member %s of incomplete type %s" % (n.get("name"), st.name))
            off, ft = st.fields[n.get("name")]
            if not isinstance(bp, P):
                raise Undecided("member access through %r" % (bp,))
            return (P(bp.obj, bp.off + off), resolve(ft))
        if k in ("ImplicitCastExpr", "CStyleCastExpr") and n.get("castKind") in ("NoOp", "LValueBitCast"):
            p, _t = self.lv(n["inner"][0], tu)
            return (p, resolve(tu.ctype(n.get("type"))))
        if k == "CompoundLiteralExpr":
            t = resolve(tu.ctype(n.get("type")))
            p = self.alloc(t.size, "<compound literal>", "local")
            self.init_object(p, t, n["inner"][0], tu)
            return (p, t)
        if k == "PredefinedExpr":
            p = self.alloc_bytes(list(b"<function>\0"), "<__func__>", "string")
            self.objs[p.obj].const = True
            return (p, resolve(tu.ctype(n.get("type"))))
        if k == "StringLiteral":
            data = _string_value(n) + b"\0"
            p = self.alloc_bytes(list(data), "<string>", "string")
            self.objs[p.obj].const = True
            return (p, resolve(tu.ctype(n.get("type"))))
        raise Undecided("lvalue kind %s%s (line %s)" % (k, " " + str(n.get("opcode")) if n.get("opcode") else "", self.line))

    # -- rvalues ------------------------------------------------------------------
    def rv(self, n, tu):
        self.tick()
        k = n.get("kind")
        m = getattr(self, "rv_" + k, None) if k else None
        if m is None:
            raise Undecided("expression kind %s (line %s)" % (k, self.line))
        return m(n, tu)

    def rv_ParenExpr(self, n, tu):
        return self.rv(n["inner"][0], tu)

    def rv_ConstantExpr(self, n, tu):
        if "value" in n:
            try:
                return self.wrap(int(n["value"]), tu.ctype(n.get("type")), "constant")
            except ValueError:
                pass
        return self.rv(n["inner"][0], tu)

    def rv_IntegerLiteral(self, n, tu):
        return int(n["value"])

    def rv_CharacterLiteral(self, n, tu):
        return int(n["value"])

    def rv_StringLiteral(self, n, tu):
        return self.lv(n, tu)[0]

    def rv_GNUNullExpr(self, n, tu):
        return NULL

    def rv_ImplicitValueInitExpr(self, n, tu):
        return 0

    def rv_DeclRefExpr(self, n, tu):
        ref = n.get("referencedDecl", {})
        if ref.get("kind") == "FunctionDecl":
            return FRef(ref.get("name"))
        if ref.get("kind") == "EnumConstantDecl":
            if ref.get("name") in tu.enums:
                return tu.enums[ref.get("name")]
            raise Undecided("enum constant %s" % ref.get("name"))
        p, t = self.lookup_var(ref, tu)
        return self.load(p, t)

    def rv_UnaryExprOrTypeTraitExpr(self, n, tu):
        if n.get("name") == "sizeof":
            if "argType" in n:
                return resolve(tu.ctype(n["argType"])).size
            return resolve(tu.ctype(n["inner"][0].get("type"))).size
        if n.get("name") in ("alignof", "_Alignof", "__alignof"):
            t = resolve(tu.ctype(n.get("argType") or n["inner"][0].get("type")))
            return t.align
        raise Undecided("type trait %s" % n.get("name"))

    def rv_ImplicitCastExpr(self, n, tu):
        return self.cast(n, tu)

    def rv_CStyleCastExpr(self, n, tu):
        return self.cast(n, tu)

    def cast(self, n, tu):
        ck = n.get("castKind")
        sub = n["inner"][0]
        if ck == "LValueToRValue":
            p, t = self.lv(sub, tu)
            v = self.load(p, t)
            if v is None and self.strict_uninit and t.k in ("int", "ptr"):
                o = self.objs.get(p.obj) if isinstance(p, P) else None
                cells = self.read_cells(p, t.size)
                if all(c is None for c in cells) and o is not None and o.kind in ("local", "heap"):
                    self.event("uninit-read", "read of uninitialised %s (%s)" % (o.name, o.kind))
            return v
        if ck in ("ArrayToPointerDecay",):
            p, t = self.lv(sub, tu)
            return p
        if ck in ("FunctionToPointerDecay", "BuiltinFnToFnPtr"):
            return self.rv(sub, tu)
        if ck == "ToVoid":
            self.rv(sub, tu)
            return None
        v = self.rv(sub, tu)
        t = resolve(tu.ctype(n.get("type")))
        if ck in ("NoOp", "BitCast", "LValueBitCast"):
            return v
        if ck == "NullToPointer":
            return NULL
        if ck == "IntegralCast":
            return self.wrap(v, t, "conversion")
        if ck == "IntegralToBoolean":
            if v is None:
                return None
            if isinstance(v, (S, W)):
                raise Undecided("truth value of symbolic data")
            return int(v != 0)
        if ck == "PointerToBoolean":
            return int(self.truth(v))
        if ck == "IntegralToPointer":
            if isinstance(v, P):
                return v
            if v is None:
                return None
            if isinstance(v, int):
                return P(0, v) if v else NULL
            raise Undecided("symbolic integer to pointer")
        if ck == "PointerToIntegral":
            if isinstance(v, P):
                if v.obj == 0:
                    return self.wrap(v.off, t, "conversion")
                # keep the pointer: only round trips and alignment tests are supported
                return v
            return v
        if ck in ("IntegralToFloating", "FloatingToIntegral", "FloatingCast"):
            raise Undecided("floating point")
        raise Undecided("cast kind %s" % ck)

    def rv_UnaryOperator(self, n, tu):
        op = n.get("opcode")
        sub = n["inner"][0]
        if op == "&":
            if sub.get("kind") == "DeclRefExpr" and sub.get("referencedDecl", {}).get("kind") == "FunctionDecl":
                return FRef(sub["referencedDecl"]["name"])
            return self.lv(sub, tu)[0]
        if op == "*":
            t = resolve(tu.ctype(n.get("type")))
            if t.k == "func":
                return self.rv(sub, tu)
            p = self.rv(sub, tu)
            return self.load(p, t)
        if op in ("++", "--"):
            p, t = self.lv(sub, tu)
            old = self.load(p, t)
            d = 1 if op == "++" else -1
            if isinstance(old, P):
                step = resolve(resolve(t).to).size or 1
                new = P(old.obj, old.off + d * step)
            elif isinstance(old, int):
                new = self.wrap(old + d, t)
            else:
                new = None
            self.store(p, t, new)
            return old if n.get("isPostfix") else new
        v = self.rv(sub, tu)
        t = resolve(tu.ctype(n.get("type")))
        if op == "!":
            if v is None:
                return None
            return int(not self.truth(v))
        if v is None:
            return None
        if op == "-":
            if isinstance(v, int):
                return self.wrap(-v, t)
            return None
        if op == "+":
            return v
        if op == "~":
            if isinstance(v, int):
                return self.wrap(~v, t, "complement")
            if isinstance(v, (S, W)):
                return from_bytes_le([bxor(c, 0xFF) for c in to_bytes_le(v, t.size)])
            return None
        if op == "__extension__":
            return v
        raise Undecided("unary %s" % op)

    def rv_ConditionalOperator(self, n, tu):
        c = self.truth(self.rv(n["inner"][0], tu))
        return self.rv(n["inner"][1 if c else 2], tu)

    def rv_BinaryOperator(self, n, tu):
        op = n.get("opcode")
        l, r = n["inner"][0], n["inner"][1]
        if op == "=":
            p, t = self.lv(l, tu)
            v = self.rv(r, tu)
            v = self.wrap(v, t, "assignment")
            self.store(p, t, v)
            return v
        if op == ",":
            self.rv(l, tu)
            return self.rv(r, tu)
        if op == "&&":
            a = self.rv(l, tu)
            if not self.truth(a):
                return 0
            return int(self.truth(self.rv(r, tu)))
        if op == "||":
            a = self.rv(l, tu)
            if self.truth(a):
                return 1
            return int(self.truth(self.rv(r, tu)))
        a = self.rv(l, tu)
        b = self.rv(r, tu)
        t = resolve(tu.ctype(n.get("type")))
        return self.arith(op, a, b, t, resolve(tu.ctype(l.get("type"))), resolve(tu.ctype(r.get("type"))))

    def rv_CompoundAssignOperator(self, n, tu):
        op = n.get("opcode")[:-1]
        l, r = n["inner"][0], n["inner"][1]
        p, t = self.lv(l, tu)
        old = self.load(p, t)
        b = self.rv(r, tu)
        ct = resolve(tu.ctype(n.get("computeResultType") or n.get("type")))
        lt = resolve(tu.ctype(n.get("computeLHSType") or l.get("type")))
        if not isinstance(old, P):
            old = self.wrap(old, lt, "conversion")
        v = self.arith(op, old, b, ct if not isinstance(old, P) else t, lt if not isinstance(old, P) else t,
                       resolve(tu.ctype(r.get("type"))))
        v = self.wrap(v, t, "assignment")
        self.store(p, t, v)
        return v

    def arith(self, op, a, b, t, lt, rt):
        # pointers
        if isinstance(a, P) or isinstance(b, P):
            if op in ("==", "!="):
                if a is None or b is None:
                    return None
                pa = a if isinstance(a, P) else P(0, a)
                pb = b if isinstance(b, P) else P(0, b)
                return int((pa == pb) == (op == "=="))
            if op in ("<", ">", "<=", ">="):
                if isinstance(a, P) and isinstance(b, P) and a.obj == b.obj:
                    return int({"<": a.off < b.off, ">": a.off > b.off, "<=": a.off <= b.off, ">=": a.off >= b.off}[op])
                raise Undecided("ordering of unrelated pointers")
            if op == "+" or op == "-":
                if isinstance(a, P) and isinstance(b, P):
                    if op == "-" and a.obj == b.obj:
                        sz = resolve(lt.to).size if lt.k == "ptr" else 1
                        return (a.off - b.off) // (sz or 1)
                    raise Undecided("pointer arithmetic on unrelated pointers")
                if isinstance(b, P):
                    a, b, lt = b, a, rt
                if not isinstance(b, int):
                    raise Undecided("pointer offset is not concrete (line %s)" % self.line)
                sz = resolve(lt.to).size if lt.k == "ptr" else 1
                if lt.k == "ptr" and resolve(lt.to).k == "void":
                    sz = 1
                return P(a.obj, a.off + (b if op == "+" else -b) * (sz or 1))
            if op in ("&", "%") and isinstance(a, P) and isinstance(b, int):
                # alignment tests on addresses: objects are maximally aligned
                return (a.off & b) if op == "&" else (a.off % b)
            raise Undecided("pointer operator %s" % op)
        if isinstance(a, FRef) or isinstance(b, FRef):
            if op in ("==", "!="):
                return int((a == b) == (op == "=="))
            raise Undecided("function pointer arithmetic")
        if a is None or b is None:
            return None
        if isinstance(a, (S, W)) or isinstance(b, (S, W)):
            return self.sym_arith(op, a, b, t, lt)
        if op == "+":
            return self.wrap(a + b, t)
        if op == "-":
            return self.wrap(a - b, t)
        if op == "*":
            return self.wrap(a * b, t)
        if op in ("/", "%"):
            if b == 0:
                raise CError("division-by-zero", "integer division by zero", self.line)
            q = abs(a) // abs(b)
            if (a < 0) != (b < 0):
                q = -q
            return self.wrap(q if op == "/" else a - q * b, t)
        if op in ("<<", ">>"):
            bits = 8 * t.size
            if b < 0 or b >= bits:
                self.event("bad-shift", "shift of a %d-bit value by %d" % (bits, b))
                return None
            if op == "<<":
                if t.signed and (a < 0 or (a << b) >> (bits - 1)):
                    self.event("signed-overflow", "left shift of a signed value overflows")
                return self.wrap(a << b, t, "shift")
            return self.wrap(a >> b, t, "shift")
        if op == "&":
            return self.wrap(a & b, t, "bitop")
        if op == "|":
            return self.wrap(a | b, t, "bitop")
        if op == "^":
            return self.wrap(a ^ b, t, "bitop")
        if op == "<":
            return int(a < b)
        if op == ">":
            return int(a > b)
        if op == "<=":
            return int(a <= b)
        if op == ">=":
            return int(a >= b)
        if op == "==":
            return int(a == b)
        if op == "!=":
            return int(a != b)
        raise Undecided("binary %s" % op)

    def sym_arith(self, op, a, b, t, lt):
        n = t.size if t.k == "int" else 8
        if op in ("==", "!="):
            n = max(lt.size, 1)
            ca, cb = to_bytes_le(a, n), to_bytes_le(b, n)
            if ca == cb:
                return int(op == "==")
            raise Undecided("comparison of symbolic data (line %s)" % self.line)
        if op == "^":
            return from_bytes_le([bxor(x, y) for x, y in zip(to_bytes_le(a, n), to_bytes_le(b, n))])
        if op in ("&", "|"):
            if isinstance(a, int):
                a, b = b, a
            ca = to_bytes_le(a, n)
            if not isinstance(b, int):
                cb = to_bytes_le(b, n)
                out = []
                for x, y in zip(ca, cb):
                    if isinstance(x, int) and isinstance(y, int):
                        out.append(x & y if op == "&" else x | y)
                    elif isinstance(y, int) and y in (0, 0xFF):
                        out.append((x if y else 0) if op == "&" else (0xFF if y else x))
                    elif isinstance(x, int) and x in (0, 0xFF):
                        out.append((y if x else 0) if op == "&" else (0xFF if x else y))
                    elif x == y:
                        out.append(x)
                    else:
                        return None
                return from_bytes_le(out)
            out = []
            for i, x in enumerate(ca):
                m = (b >> (8 * i)) & 0xFF
                if isinstance(x, int):
                    out.append(x & m if op == "&" else x | m)
                elif op == "&" and m in (0, 0xFF):
                    out.append(x if m else 0)
                elif op == "|" and m in (0, 0xFF):
                    out.append(0xFF if m else x)
                else:
                    return None
            return from_bytes_le(out)
        if op in ("<<", ">>") and isinstance(b, int) and b % 8 == 0 and not (t.signed and op == ">>"):
            ca = to_bytes_le(a, n)
            k = b // 8
            if k >= n:
                return 0
            if op == "<<":
                return from_bytes_le([0] * k + ca[:n - k])
            return from_bytes_le(ca[k:] + [0] * k)
        return None

    def rv_ArraySubscriptExpr(self, n, tu):
        p, t = self.lv(n, tu)
        return self.load(p, t)

    def rv_MemberExpr(self, n, tu):
        p, t = self.lv(n, tu)
        return self.load(p, t)

    def rv_CompoundLiteralExpr(self, n, tu):
        p, t = self.lv(n, tu)
        return self.load(p, t)

    def rv_InitListExpr(self, n, tu):
        t = resolve(tu.ctype(n.get("type")))
        p = self.alloc(t.size, "<init list>", "local")
        self.init_object(p, t, n, tu)
        return self.load(p, t)

    def rv_StmtExpr(self, n, tu):
        body = n["inner"][0]
        last = None
        for s in body.get("inner", []) or []:
            if s is body["inner"][-1] and s.get("kind") not in ("DeclStmt", "IfStmt", "ForStmt", "WhileStmt"):
                last = self.rv(s, tu)
            else:
                self.ex(s, tu)
        return last

    def rv_CallExpr(self, n, tu):
        callee = n["inner"][0]
        f = self.rv(callee, tu)
        args = [self.rv(a, tu) for a in n["inner"][1:]]
        if isinstance(f, FRef):
            return self.call(f.name, args, tu)
        if f is None:
            raise Undecided("call through an unknown function pointer (line %s)" % self.line)
        if isinstance(f, P) and f.obj == 0:
            raise CError("null-deref", "call through a null function pointer", self.line)
        raise Undecided("call through %r" % (f,))

    def rv_PredefinedExpr(self, n, tu):
        return self.rv(n["inner"][0], tu)

    def rv_OffsetOfExpr(self, n, tu):
        raise Undecided("offsetof")

    def rv_VAArgExpr(self, n, tu):
        raise Undecided("varargs")


def _init_of(d):
    return [x for x in d.get("inner", []) or [] if isinstance(x, dict) and x.get("kind") and
            "Attr" not in x["kind"] and "Comment" not in x["kind"]]


def _string_value(n):
    v = n.get("value", '""')
    try:
        s = json.loads(v)
        return s.encode("latin-1", "replace")
    except Exception:
        import ast as _ast
        try:
            return _ast.literal_eval("b" + v)
        except Exception:
            return v.strip('"').encode()


# ---------------------------------------------------------------------------
# libc models
# ---------------------------------------------------------------------------
def _b_memcpy(m, a):
    dst, src, n = a[0], a[1], a[2]
    if not isinstance(n, int):
        raise Undecided("memcpy length is not concrete")
    if n:
        cells = m.read_cells(src, n)
        if isinstance(dst, P) and isinstance(src, P) and dst.obj == src.obj and \
                dst.off < src.off + n and src.off < dst.off + n and dst.off != src.off:
            m.event("overlap", "memcpy with overlapping source and destination")
        m.write_cells(dst, list(cells))
    return dst


def _b_memmove(m, a):
    dst, src, n = a[0], a[1], a[2]
    if not isinstance(n, int):
        raise Undecided("memmove length is not concrete")
    if n:
        m.write_cells(dst, list(m.read_cells(src, n)))
    return dst


def _b_memset(m, a):
    dst, c, n = a[0], a[1], a[2]
    if not isinstance(n, int) or not isinstance(c, int):
        raise Undecided("memset arguments are not concrete")
    if n:
        m.write_cells(dst, [c & 0xFF] * n)
    return dst


def _b_memcmp(m, a):
    p, q, n = a[0], a[1], a[2]
    if not isinstance(n, int):
        raise Undecided("memcmp length is not concrete")
    x, y = m.read_cells(p, n), m.read_cells(q, n)
    if x == y:
        return 0
    if all(isinstance(c, int) for c in x + y):
        return -1 if bytes(x) < bytes(y) else 1
    if any(c is None for c in x + y):
        return None
    raise Undecided("memcmp of symbolic data")


def _b_malloc(m, a):
    n = a[0]
    if not isinstance(n, int):
        raise Undecided("allocation size is not concrete")
    if n > (1 << 26):
        return NULL
    return m.alloc(n, "malloc(%d)@%s" % (n, m.line), "heap", init=None)


def _b_calloc(m, a):
    n, s = a[0], a[1]
    if not isinstance(n, int) or not isinstance(s, int):
        raise Undecided("allocation size is not concrete")
    if n * s > (1 << 26):
        return NULL
    return m.alloc(n * s, "calloc(%d,%d)@%s" % (n, s, m.line), "heap", init=0)


def _b_free(m, a):
    p = a[0]
    if isinstance(p, P) and p.obj == 0 and p.off == 0:
        return None
    if not isinstance(p, P):
        if p is None:
            raise CError("bad-free", "free() of an uninitialised pointer", m.line)
        raise Undecided("free of %r" % (p,))
    o = m.objs.get(p.obj)
    if o is None or o.kind != "heap" or p.off != 0:
        raise CError("bad-free", "free() of %s" % (o.name if o else p,), m.line)
    if o.freed:
        raise CError("double-free", "double free of %s" % o.name, m.line)
    o.freed = True
    return None


def _b_posix_memalign(m, a):
    pp, al, n = a[0], a[1], a[2]
    if not isinstance(n, int):
        raise Undecided("allocation size is not concrete")
    p = m.alloc(n, "posix_memalign(%d)@%s" % (n, m.line), "heap", init=None)
    m.store(pp, CT("ptr", 8, to=VOID), p)
    return 0


def _b_strlen(m, a):
    p = a[0]
    n = 0
    while True:
        c = m.read_cells(P(p.obj, p.off + n), 1)[0]
        if not isinstance(c, int):
            raise Undecided("strlen of non-concrete data")
        if c == 0:
            return n
        n += 1


def _b_abort(m, a):
    raise CError("abort", "abort()/assert failure reached", m.line)


def _b_noop(m, a):
    return 0


def _vec(cells):
    return Agg(list(cells))


def _vcells(v):
    if isinstance(v, Agg) and len(v.cells) == 16:
        return v.cells
    raise Undecided("not a 128-bit vector: %r" % (v,))


def _band(x, y):
    if x is None or y is None:
        return None
    if isinstance(x, int) and isinstance(y, int):
        return x & y
    if isinstance(y, int):
        x, y = y, x
    if isinstance(x, int) and x in (0, 0xFF):
        return y if x else 0
    if x is y:
        return x
    return None


def _bor(x, y):
    if x is None or y is None:
        return None
    if isinstance(x, int) and isinstance(y, int):
        return x | y
    if isinstance(y, int):
        x, y = y, x
    if isinstance(x, int) and x in (0, 0xFF):
        return 0xFF if x else y
    if x is y:
        return x
    return None


def _bnot(x):
    return None if x is None else bxor(x, 0xFF)


def _mm_set1_epi64x(m, a):
    c = to_bytes_le(a[0], 8)
    return _vec(c + c)


def _mm_loadu(m, a):
    return _vec(m.read_cells(a[0], 16))


def _mm_storeu(m, a):
    m.write_cells(a[0], list(_vcells(a[1])))
    return None


def _mm_loadl(m, a):
    return _vec(m.read_cells(a[0], 8) + [0] * 8)


def _vint(v):
    """The 128-bit value of a vector whose bytes are all concrete (little-endian lanes as in the register)."""
    c = _vcells(v)
    if not all(isinstance(x, int) for x in c):
        raise Undecided("vector arithmetic on symbolic or uninitialised bytes")
    return int.from_bytes(bytes(c), "little")


def _ivec(x):
    return _vec(list((x & ((1 << 128) - 1)).to_bytes(16, "little")))


def _imm(a, k):
    if not isinstance(a[k], int):
        raise Undecided("non-constant immediate of a vector intrinsic")
    return a[k]


def _mm_clmul(m, a):
    x, y, imm = _vint(a[0]), _vint(a[1]), _imm(a, 2)
    p = (x >> 64) if imm & 0x01 else (x & ((1 << 64) - 1))
    q = (y >> 64) if imm & 0x10 else (y & ((1 << 64) - 1))
    r = 0
    i = 0
    while q >> i:
        if (q >> i) & 1:
            r ^= p << i
        i += 1
    return _ivec(r)


def _mm_shuffle_epi32(m, a):
    c, imm = _vcells(a[0]), _imm(a, 1)
    out = []
    for k in range(4):
        sel = (imm >> (2 * k)) & 3
        out += c[4 * sel: 4 * sel + 4]
    return _vec(out)


def _mm_shuffle_epi8(m, a):
    c, mask = _vcells(a[0]), _vcells(a[1])
    if not all(isinstance(x, int) for x in mask):
        raise Undecided("symbolic shuffle mask")
    return _vec([0 if x & 0x80 else c[x & 15] for x in mask])


def _lanes64(f):
    def g(m, a):
        x, n = _vint(a[0]), _imm(a, 1)
        lo, hi = x & ((1 << 64) - 1), x >> 64
        return _ivec((f(lo, n) & ((1 << 64) - 1)) | ((f(hi, n) & ((1 << 64) - 1)) << 64))
    return g


def _mm_movemask_epi8(m, a):
    c = _vcells(a[0])
    if not all(isinstance(x, int) for x in c):
        raise Undecided("movemask of symbolic bytes")
    return sum(((x >> 7) & 1) << i for i, x in enumerate(c))


# ---- AES-NI, from the instruction definitions of the Intel SDM (vol. 2A); the S-box is computed, not copied
def _gf8_mul(a, b):
    r = 0
    while b:
        if b & 1:
            r ^= a
        a = ((a << 1) ^ 0x11B) if a & 0x80 else a << 1
        b >>= 1
    return r


def _make_sbox():
    sb = [0] * 256
    for x in range(256):
        inv = 0
        if x:
            for y in range(1, 256):
                if _gf8_mul(x, y) == 1:
                    inv = y
                    break
        v = inv
        for k in range(1, 5):
            v ^= ((inv << k) | (inv >> (8 - k))) & 0xFF
        sb[x] = v ^ 0x63
    return sb


_SBOX = []
_ISBOX = []


def _sboxes():
    if not _SBOX:
        _SBOX.extend(_make_sbox())
        inv = [0] * 256
        for i, v in enumerate(_SBOX):
            inv[v] = i
        _ISBOX.extend(inv)
    return _SBOX, _ISBOX


def _cb(v):
    c = _vcells(v)
    if not all(isinstance(x, int) for x in c):
        raise Undecided("AES-NI instruction on symbolic or uninitialised bytes")
    return list(c)


def _shift_rows(s, inv=False):
    # byte i of the register is row i % 4 of column i // 4
    out = [0] * 16
    for c in range(4):
        for r in range(4):
            src = (c - r) % 4 if inv else (c + r) % 4
            out[4 * c + r] = s[4 * src + r]
    return out


def _mix_columns(s, inv=False):
    m = ((14, 11, 13, 9), (9, 14, 11, 13), (13, 9, 14, 11), (11, 13, 9, 14)) if inv else ((2, 3, 1, 1), (1, 2, 3, 1), (1, 1, 2, 3), (3, 1, 1, 2))
    out = [0] * 16
    for c in range(4):
        col = s[4 * c: 4 * c + 4]
        for r in range(4):
            v = 0
            for k in range(4):
                v ^= _gf8_mul(col[k], m[r][k])
            out[4 * c + r] = v
    return out


def _aes_round(kind):
    def f(m, a):
        sb, isb = _sboxes()
        s, rk = _cb(a[0]), _cb(a[1])
        if kind in ("enc", "enclast"):
            s = [sb[x] for x in _shift_rows(s)]
            if kind == "enc":
                s = _mix_columns(s)
        else:
            s = [isb[x] for x in _shift_rows(s, inv=True)]
            if kind == "dec":
                s = _mix_columns(s, inv=True)
        return _vec([x ^ y for x, y in zip(s, rk)])
    return f


def _aeskeygenassist(m, a):
    sb, _ = _sboxes()
    s, rcon = _cb(a[0]), _imm(a, 1) & 0xFF
    x1, x3 = s[4:8], s[12:16]
    sw1, sw3 = [sb[x] for x in x1], [sb[x] for x in x3]
    rot = lambda w: w[1:] + w[:1]
    r1, r3 = rot(sw1), rot(sw3)
    r1[0] ^= rcon
    r3[0] ^= rcon
    return _vec(sw1 + r1 + sw3 + r3)


def _mm_set1_epi32(m, a):
    c = to_bytes_le(a[0], 4)
    return _vec(c * 4)


BUILTINS = {
    "_mm_aesenc_si128": _aes_round("enc"), "_mm_aesenclast_si128": _aes_round("enclast"),
    "_mm_aesdec_si128": _aes_round("dec"), "_mm_aesdeclast_si128": _aes_round("declast"),
    "__builtin_ia32_aesenc128": _aes_round("enc"), "__builtin_ia32_aesenclast128": _aes_round("enclast"),
    "__builtin_ia32_aesdec128": _aes_round("dec"), "__builtin_ia32_aesdeclast128": _aes_round("declast"),
    "_mm_aesimc_si128": lambda m, a: _vec(_mix_columns(_cb(a[0]), inv=True)), "__builtin_ia32_aesimc128": lambda m, a: _vec(_mix_columns(_cb(a[0]), inv=True)),
    "_mm_aeskeygenassist_si128": _aeskeygenassist, "__builtin_ia32_aeskeygenassist128": _aeskeygenassist,
    "_mm_set1_epi32": _mm_set1_epi32,
    "_mm_cvtsi128_si32": lambda m, a: int.from_bytes(bytes(_cb(a[0])[:4]), "little"),
    "_mm_clmulepi64_si128": _mm_clmul, "__builtin_ia32_pclmulqdq128": _mm_clmul,
    "_mm_shuffle_epi32": _mm_shuffle_epi32, "_mm_shuffle_epi8": _mm_shuffle_epi8,
    "_mm_slli_epi64": _lanes64(lambda v, n: 0 if n > 63 else v << n), "_mm_srli_epi64": _lanes64(lambda v, n: 0 if n > 63 else v >> n),
    "_mm_slli_si128": lambda m, a: _ivec(0 if _imm(a, 1) > 15 else _vint(a[0]) << (8 * _imm(a, 1))),
    "_mm_srli_si128": lambda m, a: _ivec(0 if _imm(a, 1) > 15 else _vint(a[0]) >> (8 * _imm(a, 1))),
    "_mm_bslli_si128": lambda m, a: _ivec(0 if _imm(a, 1) > 15 else _vint(a[0]) << (8 * _imm(a, 1))),
    "_mm_bsrli_si128": lambda m, a: _ivec(0 if _imm(a, 1) > 15 else _vint(a[0]) >> (8 * _imm(a, 1))),
    "_mm_set_epi8": lambda m, a: _vec([x & 0xFF if isinstance(x, int) else x for x in reversed(a[:16])]),
    "_mm_movemask_epi8": _mm_movemask_epi8, "__builtin_ia32_pmovmskb128": _mm_movemask_epi8,
    "__builtin_ia32_pslldqi128_byteshift": lambda m, a: _ivec(0 if _imm(a, 1) > 15 else _vint(a[0]) << (8 * _imm(a, 1))),
    "__builtin_ia32_psrldqi128_byteshift": lambda m, a: _ivec(0 if _imm(a, 1) > 15 else _vint(a[0]) >> (8 * _imm(a, 1))),
    "__builtin_ia32_pshufd": _mm_shuffle_epi32, "__builtin_ia32_pshufb128": _mm_shuffle_epi8,
    "__builtin_ia32_psllqi128": _lanes64(lambda v, n: 0 if n > 63 else v << n), "__builtin_ia32_psrlqi128": _lanes64(lambda v, n: 0 if n > 63 else v >> n),
    "_mm_set1_epi64x": _mm_set1_epi64x,
    "_mm_loadu_si128": _mm_loadu, "_mm_load_si128": _mm_loadu, "_mm_lddqu_si128": _mm_loadu,
    "_mm_storeu_si128": _mm_storeu, "_mm_store_si128": _mm_storeu,
    "_mm_loadl_epi64": _mm_loadl,
    "_mm_setzero_si128": lambda m, a: _vec([0] * 16),
    "_mm_unpacklo_epi64": lambda m, a: _vec(_vcells(a[0])[:8] + _vcells(a[1])[:8]),
    "_mm_and_si128": lambda m, a: _vec([_band(x, y) for x, y in zip(_vcells(a[0]), _vcells(a[1]))]),
    "_mm_andnot_si128": lambda m, a: _vec([_band(_bnot(x), y) for x, y in zip(_vcells(a[0]), _vcells(a[1]))]),
    "_mm_or_si128": lambda m, a: _vec([_bor(x, y) for x, y in zip(_vcells(a[0]), _vcells(a[1]))]),
    "_mm_xor_si128": lambda m, a: _vec([bxor(x, y) for x, y in zip(_vcells(a[0]), _vcells(a[1]))]),
    "memcpy": _b_memcpy, "__builtin_memcpy": _b_memcpy, "__builtin___memcpy_chk": _b_memcpy,
    "memmove": _b_memmove, "__builtin_memmove": _b_memmove, "__builtin___memmove_chk": _b_memmove,
    "memset": _b_memset, "__builtin_memset": _b_memset, "__builtin___memset_chk": _b_memset,
    "memcmp": _b_memcmp, "__builtin_memcmp": _b_memcmp,
    "malloc": _b_malloc, "calloc": _b_calloc, "free": _b_free,
    "posix_memalign": _b_posix_memalign,
    "abort": _b_abort, "__assert_fail": _b_abort, "strlen": _b_strlen, "__builtin_strlen": _b_strlen,
    "printf": _b_noop, "fprintf": _b_noop, "puts": _b_noop,
    "__builtin_expect": lambda m, a: a[0],
    "__builtin_object_size": lambda m, a: (1 << 64) - 1,
}


# ---------------------------------------------------------------------------
# sharded execution of row tables (16 cores)
# ---------------------------------------------------------------------------
class Shard(object):
    """Row filter: take() is called once per row, true for this shard's rows."""

    def __init__(self, i=0, n=1):
        self.i = i
        self.n = n
        self.k = -1

    def take(self):
        self.k += 1
        return self.k % self.n == self.i


_PROGS = {}


def _shard_worker(arg):
    root, modname, fname, i, n = arg
    import importlib
    from .cdb import CDB
    if root not in _PROGS:
        _PROGS[root] = CProgram(CDB(root))
    fn = getattr(importlib.import_module(modname), fname)
    try:
        cnt, wrong = fn(_PROGS[root], Shard(i, n))
        return (cnt, wrong, None)
    except CError as e:
        return (0, ["%s (line %s)" % (e, e.line)], None)
    except Undecided as e:
        return (0, [], str(e))


def run_sharded(root, prog, modname, fnames, shards=8):
    """Run table functions fn(prog, shard) -> (rows, wrong) split over processes.
    Returns {fname: (rows, wrong, undecided or None)}."""
    import concurrent.futures
    import os as _os
    # make sure the ASTs are cached on disk before forking workers
    jobs = [(root, modname, f, i, shards) for f in fnames for i in range(shards)]
    out = dict((f, [0, [], None]) for f in fnames)
    if (_os.cpu_count() or 1) < 2 or _os.environ.get("VSTAT_SERIAL"):
        res = [_shard_worker(j) for j in jobs]
    else:
        with concurrent.futures.ProcessPoolExecutor(min(16, len(jobs))) as ex:
            res = list(ex.map(_shard_worker, jobs))
    for j, (cnt, wrong, und) in zip(jobs, res):
        o = out[j[2]]
        o[0] += cnt
        o[1].extend(wrong)
        o[2] = o[2] or und
    return out
