"""C17 extras: raw-pointer lifetime on the Python side, inclusive loop bounds in C."""
import ast
import os
import re

from ..core import AnalysisError
from ..pydb import norm, walk_no_nested, params_of

# for-loops with an inclusive bound that were read and are correct (file, normalised header): reason
LOOP_REVIEWED = {
    ("AESNI.c", "for(k=0;k<=rounds;k++)"): "the expanded key has rounds+1 round keys",
    ("raw_ocb.c", "for(i=1;i<=64;i++)"): "L[1..64] of a 65-entry table; index starts at 1",
}


def run(check, ctx):
    repo = ctx.repo
    foreign_handles(check, repo)
    buffer_request_flags(check, repo)
    # ---- raw pointers taken with .get() must not be held across a re-binding of the owner -------------
    nget = 0
    for mname, mod in sorted(repo.modules.items()):
        for q, f in sorted(mod.funcs.items()):
            stmts = [n for n in walk_no_nested(f) if isinstance(n, ast.Assign)]
            for a in stmts:
                v = a.value
                if not (isinstance(v, ast.Call) and isinstance(v.func, ast.Attribute) and v.func.attr == "get"
                        and isinstance(v.func.value, ast.Attribute) and not v.args
                        and len(a.targets) == 1 and isinstance(a.targets[0], ast.Name)):
                    continue
                owner_attr = v.func.value.attr
                if not owner_attr.startswith("_"):
                    continue
                name = a.targets[0].id
                nget += 1
                uses = [n for n in walk_no_nested(f) if isinstance(n, ast.Name) and n.id == name and
                        isinstance(n.ctx, ast.Load) and n.lineno > a.lineno]
                if not uses:
                    continue
                last = max(u.lineno for u in uses)
                rebinds = [s for s in stmts if a.lineno < s.lineno <= last and any(
                    isinstance(t, ast.Attribute) and t.attr == owner_attr for t in s.targets)]
                ok = not rebinds
                if not ok or nget <= 2:
                    check.ob("F", "F|ptr-lifetime|%s.%s|%s" % (mname.split(".")[-1], q, name), ok, mod.path, a.lineno,
                             extracted="`%s = %s` %s" % (name, norm(v), "is used after `%s` is re-bound at line %d (the "
                                                         "old owner may be freed: the same object can be reached through "
                                                         "another name)" % (norm(rebinds[0].targets[0]), rebinds[0].lineno)
                                                         if rebinds else "is used before any owner is re-bound"),
                             expected="a raw native pointer is not kept across the release of the SmartPointer that owns it")
    check.count("raw_pointer_locals", nget)
    # ---- inclusive loop bounds in C -----------------------------------------------------------------------
    src = os.path.join(ctx.root, "src")
    nloops = 0
    rx = re.compile(r"for\s*\(([^;{}]*);([^;{}]*);([^{}()]*(?:\([^()]*\))?[^{}()]*)\)")
    for fn in sorted(os.listdir(src)):
        if not fn.endswith((".c", ".h")) or fn.endswith("_table.c") or fn.startswith("make_"):
            continue
        text = open(os.path.join(src, fn), errors="replace").read()
        text = re.sub(r"/\*.*?\*/", lambda m: " " * len(m.group(0)), text, flags=re.S)
        for m in rx.finditer(text):
            nloops += 1
            cond = m.group(2)
            if "<=" not in cond:
                continue
            rhs = cond.split("<=", 1)[1].strip()
            hdr = re.sub(r"\s+", "", m.group(0))
            line = text.count("\n", 0, m.start()) + 1
            if re.match(r"^\d+$", rhs.split("&&")[0].strip()) and (fn, hdr) not in LOOP_REVIEWED:
                # constant inclusive bound: array sizes are visible next to it; reviewed only when variable
                pass
            if re.search(r"-\s*1\s*$", rhs.split("&&")[0].strip()):
                continue                    # i <= n - 1 is the exclusive bound
            ok = (fn, hdr) in LOOP_REVIEWED
            if not ok and re.match(r"^\d+$", rhs.split("&&")[0].strip()):
                ok = False
            check.ob("M", "M|loop-bound|%s|%s" % (fn, hdr[:60]), ok, "src/" + fn, line,
                     extracted="`%s`%s" % (hdr[:80], " — reviewed: " + LOOP_REVIEWED[(fn, hdr)] if ok else
                                           " iterates one element past a length-bounded object unless the object has bound+1 elements"),
                     expected="loops over caller-sized objects use an exclusive bound (inclusive bounds are reviewed one by one)")
    check.count("c_for_loops_scanned", nloops)
    if nloops < 300:
        raise AnalysisError("only %d for-loops scanned in src/" % nloops)


def foreign_handles(check, repo):
    """A native routine that takes two object handles interprets both with its own structure layout.  Where a method
    passes the handle of another object (a parameter) next to its own, the two objects must be known to be of the same
    native kind: a dominating test that relates self._curve and <other>._curve (or an isinstance test plus such a test).
    Without it `Ed25519 point == P-256 point` reads outside the smaller structure."""
    n = 0
    for mname in ("Crypto.PublicKey._point",):
        mod = repo.module(mname)
        for q, f in sorted(mod.funcs.items()):
            params = [a.arg for a in f.args.args[1:]]
            if not params:
                continue
            # names that hold the handle of a parameter:  p2 = point._point.get()
            handle_of = {}
            for st in walk_no_nested(f):
                if isinstance(st, ast.Assign) and len(st.targets) == 1 and isinstance(st.targets[0], ast.Name):
                    v = st.value
                    if isinstance(v, ast.Call) and isinstance(v.func, ast.Attribute) and v.func.attr == "get" and \
                            isinstance(v.func.value, ast.Attribute) and isinstance(v.func.value.value, ast.Name):
                        handle_of[st.targets[0].id] = v.func.value.value.id
            # which object's curve a callee comes from:  cmp_func = self._curve.rawlib.cmp
            lib_of = {}
            for st in walk_no_nested(f):
                if isinstance(st, ast.Assign) and len(st.targets) == 1 and isinstance(st.targets[0], ast.Name):
                    v = st.value
                    if isinstance(v, ast.Attribute) and isinstance(v.value, ast.Attribute) and v.value.attr == "rawlib" and \
                            isinstance(v.value.value, ast.Attribute) and v.value.value.attr == "_curve" and \
                            isinstance(v.value.value.value, ast.Name):
                        lib_of[st.targets[0].id] = v.value.value.value.id
            for c in walk_no_nested(f):
                if not isinstance(c, ast.Call):
                    continue
                owners = set()
                for a in c.args:
                    if isinstance(a, ast.Call) and isinstance(a.func, ast.Attribute) and a.func.attr == "get" and \
                            isinstance(a.func.value, ast.Attribute) and isinstance(a.func.value.value, ast.Name) and \
                            a.func.value.attr == "_point":
                        owners.add(a.func.value.value.id)
                    elif isinstance(a, ast.Name) and a.id in handle_of:
                        owners.add(handle_of[a.id])
                foreign = sorted(o for o in owners if o in params)
                if not foreign:
                    continue
                callee_lib = lib_of.get(c.func.id) if isinstance(c.func, ast.Name) else None
                if callee_lib is None:
                    continue
                other = foreign[0]
                # fine by construction: the routine comes from the curve of the only object whose handle it receives
                if "self" not in owners and callee_lib == other:
                    n += 1
                    check.ob("F", "F|foreign-handle|%s" % q, True, mod.path, c.lineno,
                             extracted="%s hands the native handle of `%s` to a routine of %s's own curve" % (q, other, other),
                             expected="two handles given to one native routine come from objects of the same curve")
                    continue
                n += 1
                guarded = False
                for t in walk_no_nested(f):
                    if isinstance(t, ast.If) and t.lineno < c.lineno:
                        names = set()
                        for x in ast.walk(t.test):
                            if isinstance(x, ast.Attribute) and x.attr == "_curve" and isinstance(x.value, ast.Name):
                                names.add(x.value.id)
                        leaves = any(isinstance(y, (ast.Return, ast.Raise)) for b in t.body for y in ast.walk(b))
                        if "self" in names and other in names and leaves:
                            guarded = True
                check.ob("F", "F|foreign-handle|%s" % q, guarded, mod.path, c.lineno,
                         extracted="%s passes the native handle of `%s` to a routine of %s's curve %s" % (
                             q, other, callee_lib, "after checking that both belong to the same curve" if guarded else
                             "WITHOUT relating self._curve to %s._curve (the routine would read a structure of another layout)" % other),
                         expected="two handles given to one native routine come from objects of the same curve")
    if n < 5:
        raise AnalysisError("only %d native calls with a foreign handle found in _point.py (confirmed: 5)" % n)


def buffer_request_flags(check, repo):
    """c_uint8_ptr (ctypes back-end) turns a buffer object into (address, length) and the native code reads `length`
    consecutive bytes from there: the buffer must have been requested in a form that guarantees contiguity.  Any flag
    set that contains PyBUF_STRIDES (0x10) lets a strided or reversed memoryview through."""
    mod = repo.module("Crypto.Util._raw_api")
    consts = {}
    for n in ast.walk(mod.tree):
        if isinstance(n, ast.Assign) and len(n.targets) == 1 and isinstance(n.targets[0], ast.Name) and \
                isinstance(n.value, ast.Constant) and isinstance(n.value.value, int):
            consts.setdefault(n.targets[0].id, []).append(n.value.value)
    sites = []
    for n in ast.walk(mod.tree):
        if isinstance(n, ast.Call) and isinstance(n.func, ast.Name) and n.func.id == "_PyObject_GetBuffer" and len(n.args) >= 3:
            a = n.args[2]
            if isinstance(a, ast.Constant):
                vals = [a.value]
            elif isinstance(a, ast.Name):
                vals = consts.get(a.id)
            else:
                vals = None
            sites.append((n.lineno, norm(a), vals))
    if not sites:
        raise AnalysisError("anchor vanished: PyObject_GetBuffer call in Crypto.Util._raw_api")
    for (ln, txt, vals) in sites:
        ok = vals is not None and len(set(vals)) == 1 and isinstance(vals[0], int) and not (vals[0] & 0x10) and not (vals[0] & 0x100)
        check.ob("F", "F|buffer-request|%d" % len([x for x in sites if x[0] <= ln]), ok, mod.path, ln,
                 extracted="PyObject_GetBuffer(obj, &view, %s) with %s = %s" % (txt, txt, "?" if not vals else "/".join(hex(v) for v in vals)),
                 expected="a request without PyBUF_STRIDES / PyBUF_INDIRECT (PyBUF_SIMPLE, possibly with WRITABLE/FORMAT/ND): the exporter "
                          "must then hand out contiguous memory or refuse with BufferError")
