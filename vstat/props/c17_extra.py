"""C17 extras: raw-pointer lifetime on the Python side, inclusive loop bounds in C."""
import ast
import os
import re

from ..core import AnalysisError
from ..pydb import norm, walk_no_nested, params_of

# for-loops with an inclusive bound that were read and are correct (file, normalised header): reason
LOOP_REVIEWED = {
    ("AESNI.c", "for(k=0;k<=rounds;k++)"): "the expanded key has rounds+1 round keys",
    ("raw_ocb.c", "for(i=1;i<=64;i++)"): "L[1..64] of a 65-entry table; index starts at 1",
}


def run(check, ctx):
    repo = ctx.repo
    foreign_handles(check, repo)
    handle_pairing(check, repo, ctx.cdb)
    rawlib_arity(check, repo, ctx.cdb)
    strxor_buffer_rows(check, repo)
    ffi_argument_lifetime(check, repo)
    buffer_request_flags(check, repo)
    # ---- raw pointers taken with .get() must not be held across a re-binding of the owner -------------
    nget = 0
    for mname, mod in sorted(repo.modules.items()):
        for q, f in sorted(mod.funcs.items()):
            stmts = [n for n in walk_no_nested(f) if isinstance(n, ast.Assign)]
            for a in stmts:
                v = a.value
                if not (isinstance(v, ast.Call) and isinstance(v.func, ast.Attribute) and v.func.attr == "get"
                        and isinstance(v.func.value, ast.Attribute) and not v.args
                        and len(a.targets) == 1 and isinstance(a.targets[0], ast.Name)):
                    continue
                owner_attr = v.func.value.attr
                if not owner_attr.startswith("_"):
                    continue
                name = a.targets[0].id
                nget += 1
                uses = [n for n in walk_no_nested(f) if isinstance(n, ast.Name) and n.id == name and
                        isinstance(n.ctx, ast.Load) and n.lineno > a.lineno]
                if not uses:
                    continue
                last = max(u.lineno for u in uses)
                rebinds = [s for s in stmts if a.lineno < s.lineno <= last and any(
                    isinstance(t, ast.Attribute) and t.attr == owner_attr for t in s.targets)]
                ok = not rebinds
                if not ok or nget <= 2:
                    check.ob("F", "F|ptr-lifetime|%s.%s|%s" % (mname.split(".")[-1], q, name), ok, mod.path, a.lineno,
                             extracted="`%s = %s` %s" % (name, norm(v), "is used after `%s` is re-bound at line %d (the "
                                                         "old owner may be freed: the same object can be reached through "
                                                         "another name)" % (norm(rebinds[0].targets[0]), rebinds[0].lineno)
                                                         if rebinds else "is used before any owner is re-bound"),
                             expected="a raw native pointer is not kept across the release of the SmartPointer that owns it")
    check.count("raw_pointer_locals", nget)
    # ---- inclusive loop bounds in C -----------------------------------------------------------------------
    src = os.path.join(ctx.root, "src")
    nloops = 0
    rx = re.compile(r"for\s*\(([^;{}]*);([^;{}]*);([^{}()]*(?:\([^()]*\))?[^{}()]*)\)")
    for fn in sorted(os.listdir(src)):
        if not fn.endswith((".c", ".h")) or fn.endswith("_table.c") or fn.startswith("make_"):
            continue
        text = open(os.path.join(src, fn), errors="replace").read()
        text = re.sub(r"/\*.*?\*/", lambda m: " " * len(m.group(0)), text, flags=re.S)
        for m in rx.finditer(text):
            nloops += 1
            cond = m.group(2)
            if "<=" not in cond:
                continue
            rhs = cond.split("<=", 1)[1].strip()
            hdr = re.sub(r"\s+", "", m.group(0))
            line = text.count("\n", 0, m.start()) + 1
            if re.match(r"^\d+$", rhs.split("&&")[0].strip()) and (fn, hdr) not in LOOP_REVIEWED:
                # constant inclusive bound: array sizes are visible next to it; reviewed only when variable
                pass
            if re.search(r"-\s*1\s*$", rhs.split("&&")[0].strip()):
                continue                    # i <= n - 1 is the exclusive bound
            ok = (fn, hdr) in LOOP_REVIEWED
            if not ok and re.match(r"^\d+$", rhs.split("&&")[0].strip()):
                ok = False
            check.ob("M", "M|loop-bound|%s|%s" % (fn, hdr[:60]), ok, "src/" + fn, line,
                     extracted="`%s`%s" % (hdr[:80], " — reviewed: " + LOOP_REVIEWED[(fn, hdr)] if ok else
                                           " iterates one element past a length-bounded object unless the object has bound+1 elements"),
                     expected="loops over caller-sized objects use an exclusive bound (inclusive bounds are reviewed one by one)")
    check.count("c_for_loops_scanned", nloops)
    if nloops < 300:
        raise AnalysisError("only %d for-loops scanned in src/" % nloops)


def handle_pairing(check, repo, cdb):
    """Every native handle is released by the routine that belongs to the one that created it.  For each
    `SmartPointer(<h>.get(), <destructor>)` site the constructor is the native call that received `<h>.address_of()`;
    both callees are resolved (library variable + symbol, through local names bound in if/else branches, class
    attributes such as EcLib.free_context, module-level names) and every combination of definitions that can reach the
    site together must come from one library and one C translation unit (AES_start_operation's state is malloc'ed,
    AESNI_start_operation's is an aligned block with a different layout and deallocator).  A destructor chosen
    independently of the branch that chose the constructor (e.g. once at import time) pairs with both branches."""
    F = cdb.functions()

    def tu_of(sym):
        cands = F.get(sym)
        return sorted(set(c.tu for c in cands)) if cands else None

    def lib_names(mod, f):
        from .. import ffi as _ffi
        libs = dict((k, k) for k in _ffi.ffi_libs(mod))
        scope = [f] if f is not None else []
        for sc in scope + [mod.tree]:
            for n in ast.walk(sc):
                if isinstance(n, ast.Assign) and isinstance(n.value, ast.Call) and norm(n.value.func).split(".")[-1] in _ffi.LOADERS:
                    for t in n.targets:
                        if isinstance(t, ast.Name):
                            libs[t.id] = t.id
        # a library object imported from the module that loads it
        for n in mod.tree.body:
            if isinstance(n, ast.ImportFrom) and n.module:
                src = repo.modules.get(n.module) or repo.modules.get("Crypto." + n.module)
                if src is None and n.level:
                    base = mod.name.rsplit(".", n.level)[0]
                    src = repo.modules.get(base + "." + n.module)
                if src is not None:
                    sl = _ffi.ffi_libs(src)
                    for a in n.names:
                        if a.name in sl:
                            libs[a.asname or a.name] = a.name
        return libs

    def ctx_of(node, f):
        """Chain of (If id, branch index) that encloses `node` inside f."""
        out = []
        cur = node
        while cur is not None and cur is not f:
            par = getattr(cur, "_parent", None)
            if isinstance(par, ast.If):
                out.append((id(par), 0 if cur in par.body else 1))
            cur = par
        return tuple(out)

    def compatible(c1, c2):
        d1 = dict(c1)
        return all(d1.get(k, b) == b for k, b in c2)

    def resolve(mod, f, expr, depth=0):
        """-> list of (kind, lib/base, symbol/attr, branch context)"""
        if depth > 4:
            return []
        libs = lib_names(mod, f)
        if isinstance(expr, ast.Attribute):
            base = expr.value
            if isinstance(base, ast.Name) and base.id in libs:
                return [("sym", base.id, expr.attr, ())]
            if norm(base).endswith("._curve.rawlib"):
                return [("rawlib", norm(base), expr.attr, ())]
            if isinstance(base, ast.Name) and f is not None and base.id in params_of(f):
                # a table of native functions handed in by the caller (one library per table)
                return [("rawlib", base.id, expr.attr, ())]
            if isinstance(base, ast.Name):
                # a class (module level or local to the function) whose attribute is a native symbol
                for sc in ([f] if f is not None else []) + [mod.tree]:
                    for n in ast.walk(sc):
                        if isinstance(n, ast.ClassDef) and n.name == base.id:
                            for b in n.body:
                                if isinstance(b, ast.Assign) and any(isinstance(t, ast.Name) and t.id == expr.attr for t in b.targets):
                                    return resolve(mod, f, b.value, depth + 1)
            return []
        if isinstance(expr, ast.Name):
            out = []
            if f is not None:
                for n in walk_no_nested(f):
                    if isinstance(n, ast.Assign) and any(isinstance(t, ast.Name) and t.id == expr.id for t in n.targets):
                        for r in resolve(mod, f, n.value, depth + 1):
                            out.append(r[:3] + (ctx_of(n, f) + r[3],))
            if out:
                return out
            for n in ast.walk(mod.tree):
                if isinstance(n, ast.Assign) and any(isinstance(t, ast.Name) and t.id == expr.id for t in n.targets) and \
                        not any(isinstance(a, (ast.FunctionDef, ast.ClassDef)) for a in _ancestors(n)):
                    for r in resolve(mod, None, n.value, depth + 1):
                        out.append(r[:3] + ((),))
            return out
        return []

    def _ancestors(n):
        cur = getattr(n, "_parent", None)
        while cur is not None:
            yield cur
            cur = getattr(cur, "_parent", None)
    nsites = 0
    npairs = 0
    for mname, mod in sorted(repo.modules.items()):
        if ".SelfTest" in mname or mname.endswith("_raw_api"):
            continue
        for q, f in sorted(mod.funcs.items()):
            for c in walk_no_nested(f):
                if not (isinstance(c, ast.Call) and norm(c.func).split(".")[-1] == "SmartPointer" and len(c.args) == 2):
                    continue
                h = c.args[0]
                if not (isinstance(h, ast.Call) and isinstance(h.func, ast.Attribute) and h.func.attr == "get"):
                    continue
                nsites += 1
                htxt = norm(h.func.value)
                # the native call that filled the handle: the last one before this site with <h>.address_of() among its arguments
                ctors = [k for k in walk_no_nested(f) if isinstance(k, ast.Call) and k.lineno <= c.lineno and k is not c and
                         any(isinstance(a, ast.Call) and isinstance(a.func, ast.Attribute) and a.func.attr == "address_of" and norm(a.func.value) == htxt for a in k.args)]
                key = "F|pairing|%s.%s|%s" % (mname.split(".")[-1], q, htxt)
                if not ctors:
                    check.ob("F", key, False, mod.path, c.lineno, extracted="no native call receives %s.address_of() before the handle is wrapped" % htxt,
                             expected="the handle wrapped by SmartPointer was produced by a native constructor in the same function")
                    continue
                ctor = ctors[-1]
                C = resolve(mod, f, ctor.func)
                D = resolve(mod, f, c.args[1])
                if not C or not D:
                    check.ob("F", key, False, mod.path, c.lineno,
                             extracted="%s of the handle %s cannot be resolved to a native symbol (`%s`)" % ("constructor" if not C else "destructor", htxt, norm(ctor.func if not C else c.args[1])),
                             expected="constructor and destructor of a native handle are resolvable native symbols of one library")
                    continue
                bad = []
                for cc in C:
                    for dd in D:
                        if not compatible(cc[3], dd[3]):
                            continue
                        npairs += 1
                        if cc[0] != dd[0] or cc[1] != dd[1]:
                            bad.append("created by %s.%s, released by %s.%s" % (cc[1], cc[2], dd[1], dd[2]))
                        elif cc[0] == "sym":
                            tc, td = tu_of(cc[2]), tu_of(dd[2])
                            if tc is None or td is None:
                                pre = lambda x: x.split("_")[0]
                                if pre(cc[2]) != pre(dd[2]):
                                    bad.append("created by %s.%s, released by %s.%s" % (cc[1], cc[2], dd[1], dd[2]))
                            elif not set(tc) & set(td):
                                bad.append("created by %s (%s), released by %s (%s)" % (cc[2], ",".join(tc), dd[2], ",".join(td)))
                        elif not any(w in dd[2] for w in ("free", "destroy", "stop")):
                            bad.append("created by %s.%s, released by %s.%s" % (cc[1], cc[2], dd[1], dd[2]))
                if bad or nsites <= 3:
                    check.ob("F", key, not bad, mod.path, c.lineno,
                             extracted=("the handle %s may be " % htxt + "; or ".join(sorted(set(bad))[:2])) if bad else
                             "%s: constructor %s, destructor %s" % (htxt, sorted(set(x[2] for x in C)), sorted(set(x[2] for x in D))),
                             expected="a native handle is released by the destructor of the library and translation unit that created it, on every path")
    check.count("smartpointer_sites", nsites)
    check.count("constructor_destructor_pairs", npairs)
    if nsites < 45:
        raise AnalysisError("only %d SmartPointer sites found" % nsites)


def rawlib_arity(check, repo, cdb):
    """The point classes call the native library of *their curve* through `self._curve.rawlib.<op>(...)`; the five
    Weierstrass / Edwards libraries and the two Montgomery ones have different prototypes (new_point takes x and y, or
    x only).  For every (point class, curve) pair the constructor is interpreted over a recording library: either it
    refuses the curve with ValueError before any native call, or every native call it and the other methods make has
    exactly the number of arguments of the C prototype bound by that curve's EcLib class (and the operation exists).
    A call with one argument too many makes the callee read a length as a pointer."""
    from ..absint import Interp
    from ..absstate import State
    from ..absval import ABuiltin, AObj, UNK
    PT = "Crypto.PublicKey._point"
    mod = repo.module(PT)
    F = cdb.functions()
    # CurveID name -> value, and -> the function that builds the curve
    ids = {}
    for b in repo.cls(mod, "CurveID").body:
        if isinstance(b, ast.Assign) and isinstance(b.value, ast.Constant):
            ids[b.targets[0].id] = b.value.value
    builders = {}
    load = repo.func(mod, "_Curves.load")
    last = {}
    for n in ast.walk(load):
        if isinstance(n, ast.Assign) and isinstance(n.value, ast.Call) and isinstance(n.value.func, ast.Attribute) and isinstance(n.targets[0], ast.Name):
            last[n.targets[0].id] = (norm(n.value.func.value), n.value.func.attr)
        if isinstance(n, ast.Assign) and isinstance(n.targets[0], ast.Attribute) and n.targets[0].attr == "id" and isinstance(n.value, ast.Attribute):
            v = n.targets[0].value
            if isinstance(v, ast.Name) and v.id in last:
                builders[n.value.attr] = last[v.id]
    if len(builders) < 9:
        raise AnalysisError("only %d curve builders found in _Curves.load" % len(builders))
    libs = {}
    for cname, (m, fname) in sorted(builders.items()):
        cm = repo.module("Crypto.PublicKey." + m)
        fn = repo.func(cm, fname)
        ecl = [c for c in ast.walk(fn) if isinstance(c, ast.ClassDef) and c.name == "EcLib"] or [c for c in cm.tree.body if isinstance(c, ast.ClassDef) and c.name == "EcLib"]
        if not ecl:
            raise AnalysisError("no EcLib class for %s" % cname)
        ops = {}
        for b in ecl[0].body:
            if isinstance(b, ast.Assign) and isinstance(b.value, ast.Attribute) and isinstance(b.targets[0], ast.Name):
                ops[b.targets[0].id] = b.value.attr
        libs[cname] = ops

    def nparams(sym):
        c = F.get(sym)
        if not c:
            return None
        ps = c[0].params.strip()
        if not ps or ps == "void":
            return 0
        depth, n = 0, 1
        for ch in ps:
            if ch in "({<":
                depth += 1
            elif ch in ")}>":
                depth -= 1
            elif ch == "," and depth == 0:
                n += 1
        return n
    nrows = 0
    for cls in ("EccPoint", "EccXPoint"):
        cnode = repo.cls(mod, cls)
        for cname in sorted(builders):
            calls = []

            def mk(op):
                def f(i, a, kw, st, node, op=op):
                    calls.append((op, len(a), getattr(node, "lineno", 0)))
                    return 0
                return f
            OPS = ("new_point", "free_point", "clone", "cmp", "get_xy", "get_x", "double", "add", "scalar", "neg", "new_context", "free_context", "normalize", "copy")
            it = Interp(repo, max_depth=4, extra_models=dict(("vstat.rawlib." + op, mk(op)) for op in OPS))
            it.extra_models["Crypto.Random.random.getrandbits"] = lambda i, a, kw, st, node: 5
            st = State()
            lib = it.new_obj(st, label="rawlib", attrs=dict((op, ABuiltin("vstat.rawlib." + op)) for op in OPS if op in libs[cname]))
            curve = it.new_obj(st, label="curve", attrs={"id": ids[cname], "p": (1 << 61) - 1, "b": 3, "order": (1 << 61) - 3, "modulus_bits": 61, "canonical": "C", "name": "C",
                                                         "rawlib": lib, "context": it.new_obj(st, label="ctx"), "is_edwards": cname.startswith("ED"),
                                                         "is_weierstrass": cname.startswith("P"), "is_montgomery": cname.startswith("CURVE")})
            it.inject = {"_curves[curve]": curve}
            it.method_models.update({"get": lambda i, base, a, kw, st, node: ("h", getattr(base, "ident", 0)), "address_of": lambda i, base, a, kw, st, node: ("a", getattr(base, "ident", 0))})
            me = it.new_obj(st, mod, cnode, havoc=False)
            args = {"x": 5, "y": 7, "curve": "C"} if cls == "EccPoint" else {"x": 5, "curve": "C"}
            res = it.run(mod, repo.func(mod, cls + ".__init__"), args, self_obj=me, state=st)
            nrows += 1
            key = "F|rawlib.arity|%s|%s" % (cls, cname)
            if not res.returns():
                ok = not calls and set(res.raise_classes()) == {"ValueError"}
                check.ob("F", key, ok, mod.path, cnode.lineno,
                         extracted="%s on %s: refused with %s %s" % (cls, cname, ",".join(res.raise_classes()), "before any native call" if not calls else "after native calls %s" % calls[:2]),
                         expected="a point class refuses the curves whose native library it cannot drive, with ValueError and before any native call")
                continue
            # admitted: the other methods on an object of this class and curve
            cur = res.returns()[0].state
            for meth, margs in (("set", "other"), ("__eq__", "other"), ("__neg__", None), ("xy", None), ("x", None), ("double", None), ("__iadd__", "other"), ("__imul__", 3), ("copy", None)):
                r = repo.find_method(mod, cnode, meth)
                if r is None:
                    continue
                s2 = cur.clone()
                s2.frames = [{}]
                a2 = {}
                ps = params_of(r[1])[1:]
                if margs == "other":
                    a2[ps[0]] = me
                elif margs is not None:
                    a2[ps[0]] = margs
                it.run(r[0], r[1], a2, self_obj=me, state=s2)
            bad = []
            for (op, n, line) in calls:
                sym = libs[cname].get(op)
                want = nparams(sym) if sym else None
                if sym is None:
                    bad.append("line %d calls rawlib.%s, which the %s library does not bind" % (line, op, cname))
                elif want is None:
                    raise AnalysisError("no C definition of %s" % sym)
                elif n != want:
                    bad.append("line %d calls %s with %d arguments, its prototype has %d" % (line, sym, n, want))
            check.ob("F", key, not bad, mod.path, cnode.lineno,
                     extracted=("%s on %s: " % (cls, cname) + "; ".join(sorted(set(bad))[:3])) if bad else "%s on %s: %d native calls (%s), each with the argument count of its prototype" % (
                         cls, cname, len(calls), ",".join(sorted(set(c[0] for c in calls)))),
                     expected="every native call of the point layer matches the prototype of the library of the object's curve")
    check.count("point_class_curve_pairs", nrows)


def strxor_buffer_rows(check, repo):
    """strxor / strxor_c hand the native loop ONE length for all their buffers: the call is reached only when both terms
    (and the output buffer, when given) have exactly that length - with and without output=, which take different
    paths through the guards.  Otherwise the kernel reads or writes past the shorter buffer."""
    from ..absint import Interp
    from ..absstate import State
    SX = "Crypto.Util.strxor"
    mod = repo.module(SX)
    wrong = []
    n = 0
    for fname in ("strxor", "strxor_c"):
        fn = repo.func(mod, fname)
        for l1 in (0, 1, 16):
            for l2 in ((l1, max(0, l1 - 1), l1 + 1, 0) if fname == "strxor" else (None,)):
                for lo in (None, l1, max(0, l1 - 1), l1 + 3):
                    seen = []

                    def f(i, a, kw, st, node, seen=seen):
                        seen.append([len(x) if isinstance(x, (bytes, bytearray)) else x for x in a])
                        return 0
                    it = Interp(repo, max_depth=3, extra_models={"Crypto.Util._raw_api.create_string_buffer": lambda i, a, kw, st, node: bytearray(a[0]) if a and isinstance(a[0], int) else None,
                                                                 "Crypto.Util._raw_api.get_raw_buffer": lambda i, a, kw, st, node: bytes(a[0]) if a and isinstance(a[0], (bytes, bytearray)) else None,
                                                                 "Crypto.Util._raw_api.is_writeable_buffer": lambda i, a, kw, st, node: isinstance(a[0], bytearray)})
                    it.ffi_models = {"strxor": f, "strxor_c": f}
                    args = {"term1": bytes(l1), "term2": bytes(l2), "output": None if lo is None else bytearray(lo)} if fname == "strxor" else \
                        {"term": bytes(l1), "c": 7, "output": None if lo is None else bytearray(lo)}
                    res = it.run(mod, fn, args)
                    n += 1
                    legal = (l2 is None or l2 == l1) and (lo is None or lo == l1)
                    if legal:
                        if not seen or res.raises():
                            wrong.append("%s(%d bytes%s%s): refused (%s)" % (fname, l1, "" if l2 is None else ", %d bytes" % l2, "" if lo is None else ", output of %d" % lo, res.raise_classes()))
                    else:
                        if seen:
                            a = seen[0]
                            wrong.append("%s(%d bytes%s%s) reaches the native loop with buffers of %s bytes and length %s" % (
                                fname, l1, "" if l2 is None else ", %d bytes" % l2, "" if lo is None else ", output of %d" % lo, [x for x in a[:-1] if not isinstance(x, int) or True][:3], a[-1]))
                        elif set(res.raise_classes()) - {"ValueError"}:
                            wrong.append("%s: unequal lengths raise %s" % (fname, res.raise_classes()))
    fn = repo.func(mod, "strxor")
    check.ob("F", "F|buffers|strxor", not wrong, mod.path, fn.lineno,
             extracted=("%d of %d rows differ: " % (len(wrong), n) + "; ".join(wrong[:3])) if wrong else "%d (term, term, output) length combinations: the native loop is reached only with three buffers of the length it is given" % n,
             expected="unsupported lengths are reported as ValueError before the native call (no read or write past a caller's buffer)")


BYTES_PRODUCERS = ("long_to_bytes", "bytes", "tobytes", "bchr", "to_bytes", "join", "pack", "b", "get_random_bytes", "digest")


def ffi_argument_lifetime(check, repo):
    """The buffer behind c_uint8_ptr(E) must be alive while the native call runs.  With the ctypes back-end
    c_uint8_ptr() of a bytearray / memoryview returns a bare address (`from_address`) and keeps no reference to the
    object, so E must be a binding that outlives the call (a name or attribute), or an expression that always yields
    immutable `bytes` (passed as the object itself, which the argument tuple keeps alive).  A slice, concatenation or
    other temporary of a caller-typed buffer may be a bytearray that is freed before the native code reads it."""
    n = 0
    for mname, mod in sorted(repo.modules.items()):
        if ".SelfTest" in mname or mname.endswith("_raw_api"):
            continue
        for q, f in sorted(mod.funcs.items()):
            for c in walk_no_nested(f):
                if not (isinstance(c, ast.Call) and norm(c.func).split(".")[-1] == "c_uint8_ptr" and len(c.args) == 1):
                    continue
                n += 1
                e = c.args[0]
                ok = isinstance(e, (ast.Name, ast.Attribute)) or (isinstance(e, ast.Constant) and isinstance(e.value, bytes))
                why = "a binding that outlives the call"
                if not ok and isinstance(e, ast.Call) and norm(e.func).split(".")[-1] in BYTES_PRODUCERS:
                    ok, why = True, "the result of %s() is immutable bytes (kept alive as the argument itself)" % norm(e.func)
                if not ok or n <= 2:
                    check.ob("F", "F|ffi-arg-lifetime|%s.%s|%s" % (mname.split(".")[-1], q, norm(e)[:40]), ok, mod.path, c.lineno,
                             extracted="c_uint8_ptr(%s): %s" % (norm(e)[:60], why if ok else "a temporary object whose type follows the caller's buffer: a bytearray is freed before the native call (the ctypes back-end keeps an address only)"),
                             expected="native code never reads a buffer that may have been released")
    check.count("c_uint8_ptr_sites", n)
    if n < 100:
        raise AnalysisError("only %d c_uint8_ptr sites found" % n)


def foreign_handles(check, repo):
    """A native routine that takes two object handles interprets both with its own structure layout.  Where a method
    passes the handle of another object (a parameter) next to its own, the two objects must be known to be of the same
    native kind: a dominating test that relates self._curve and <other>._curve (or an isinstance test plus such a test).
    Without it `Ed25519 point == P-256 point` reads outside the smaller structure."""
    n = 0
    for mname in ("Crypto.PublicKey._point",):
        mod = repo.module(mname)
        for q, f in sorted(mod.funcs.items()):
            params = [a.arg for a in f.args.args[1:]]
            if not params:
                continue
            # names that hold the handle of a parameter:  p2 = point._point.get()
            handle_of = {}
            for st in walk_no_nested(f):
                if isinstance(st, ast.Assign) and len(st.targets) == 1 and isinstance(st.targets[0], ast.Name):
                    v = st.value
                    if isinstance(v, ast.Call) and isinstance(v.func, ast.Attribute) and v.func.attr == "get" and \
                            isinstance(v.func.value, ast.Attribute) and isinstance(v.func.value.value, ast.Name):
                        handle_of[st.targets[0].id] = v.func.value.value.id
            # which object's curve a callee comes from:  cmp_func = self._curve.rawlib.cmp
            lib_of = {}
            for st in walk_no_nested(f):
                if isinstance(st, ast.Assign) and len(st.targets) == 1 and isinstance(st.targets[0], ast.Name):
                    v = st.value
                    if isinstance(v, ast.Attribute) and isinstance(v.value, ast.Attribute) and v.value.attr == "rawlib" and \
                            isinstance(v.value.value, ast.Attribute) and v.value.value.attr == "_curve" and \
                            isinstance(v.value.value.value, ast.Name):
                        lib_of[st.targets[0].id] = v.value.value.value.id
            for c in walk_no_nested(f):
                if not isinstance(c, ast.Call):
                    continue
                owners = set()
                for a in c.args:
                    if isinstance(a, ast.Call) and isinstance(a.func, ast.Attribute) and a.func.attr == "get" and \
                            isinstance(a.func.value, ast.Attribute) and isinstance(a.func.value.value, ast.Name) and \
                            a.func.value.attr == "_point":
                        owners.add(a.func.value.value.id)
                    elif isinstance(a, ast.Name) and a.id in handle_of:
                        owners.add(handle_of[a.id])
                foreign = sorted(o for o in owners if o in params)
                if not foreign:
                    continue
                callee_lib = lib_of.get(c.func.id) if isinstance(c.func, ast.Name) else None
                if callee_lib is None:
                    continue
                other = foreign[0]
                # fine by construction: the routine comes from the curve of the only object whose handle it receives
                if "self" not in owners and callee_lib == other:
                    n += 1
                    check.ob("F", "F|foreign-handle|%s" % q, True, mod.path, c.lineno,
                             extracted="%s hands the native handle of `%s` to a routine of %s's own curve" % (q, other, other),
                             expected="two handles given to one native routine come from objects of the same curve")
                    continue
                n += 1
                guarded = False
                for t in walk_no_nested(f):
                    if isinstance(t, ast.If) and t.lineno < c.lineno:
                        names = set()
                        for x in ast.walk(t.test):
                            if isinstance(x, ast.Attribute) and x.attr == "_curve" and isinstance(x.value, ast.Name):
                                names.add(x.value.id)
                        leaves = any(isinstance(y, (ast.Return, ast.Raise)) for b in t.body for y in ast.walk(b))
                        if "self" in names and other in names and leaves:
                            guarded = True
                check.ob("F", "F|foreign-handle|%s" % q, guarded, mod.path, c.lineno,
                         extracted="%s passes the native handle of `%s` to a routine of %s's curve %s" % (
                             q, other, callee_lib, "after checking that both belong to the same curve" if guarded else
                             "WITHOUT relating self._curve to %s._curve (the routine would read a structure of another layout)" % other),
                         expected="two handles given to one native routine come from objects of the same curve")
    if n < 5:
        raise AnalysisError("only %d native calls with a foreign handle found in _point.py (confirmed: 5)" % n)


def buffer_request_flags(check, repo):
    """c_uint8_ptr (ctypes back-end) turns a buffer object into (address, length) and the native code reads `length`
    consecutive bytes from there: the buffer must have been requested in a form that guarantees contiguity.  Any flag
    set that contains PyBUF_STRIDES (0x10) lets a strided or reversed memoryview through."""
    mod = repo.module("Crypto.Util._raw_api")
    consts = {}
    for n in ast.walk(mod.tree):
        if isinstance(n, ast.Assign) and len(n.targets) == 1 and isinstance(n.targets[0], ast.Name) and \
                isinstance(n.value, ast.Constant) and isinstance(n.value.value, int):
            consts.setdefault(n.targets[0].id, []).append(n.value.value)
    sites = []
    for n in ast.walk(mod.tree):
        if isinstance(n, ast.Call) and isinstance(n.func, ast.Name) and n.func.id == "_PyObject_GetBuffer" and len(n.args) >= 3:
            a = n.args[2]
            if isinstance(a, ast.Constant):
                vals = [a.value]
            elif isinstance(a, ast.Name):
                vals = consts.get(a.id)
            else:
                vals = None
            sites.append((n.lineno, norm(a), vals))
    if not sites:
        raise AnalysisError("anchor vanished: PyObject_GetBuffer call in Crypto.Util._raw_api")
    for (ln, txt, vals) in sites:
        ok = vals is not None and len(set(vals)) == 1 and isinstance(vals[0], int) and not (vals[0] & 0x10) and not (vals[0] & 0x100)
        check.ob("F", "F|buffer-request|%d" % len([x for x in sites if x[0] <= ln]), ok, mod.path, ln,
                 extracted="PyObject_GetBuffer(obj, &view, %s) with %s = %s" % (txt, txt, "?" if not vals else "/".join(hex(v) for v in vals)),
                 expected="a request without PyBUF_STRIDES / PyBUF_INDIRECT (PyBUF_SIMPLE, possibly with WRITABLE/FORMAT/ND): the exporter "
                          "must then hand out contiguous memory or refuse with BufferError")
