"""C09 — independence from segmentation, buffer type and in-place output (structural slice)."""
import ast

from ..absint import Interp
from ..absstate import State
from ..absval import ABytes, UNK, AObj, ABuiltin, is_unk
from ..core import AnalysisError
from ..pydb import norm, params_of, walk_no_nested
from ..rules_g import (Row, run_row, ObsRow, run_obs, I, S, Pred, OBJ, B, INT,
                       LEN, INJECT, realise)

EXPLANATION = (
    "Cache fill/flush logic of the Python block caches (GCM, CCM, OCB associated "
    "data and payload, CMAC) interpreted abstractly on a family of partitions of "
    "one message (cuts at 0, 1, block-1, block, block+1, 2*block-1, empty "
    "segments, one-byte segments) with the native sink replaced by a recorder: "
    "what reaches the sink plus what stays cached must be the concatenation of "
    "the inputs, in whole blocks, with a partial block only at the very end. "
    "AEAD encrypt/decrypt with output=: the MAC is fed the text the mode "
    "authenticates from the right buffer and on the right side of the cipher "
    "call (input-side MAC before the cipher call so that an aliased output "
    "cannot overwrite it; result-side MAC from `output` when one is given). "
    "The output= idiom (writeable -> TypeError, equal length -> ValueError, "
    "returns None) agrees across the wrappers. Mutable inputs that outlive the "
    "call are copied. C side (engine E-C): alias order in the mode loops. Not "
    "decided: equality of results for every partition (values).")

BS = 16
MSG = bytes((11 * i + 7) & 0xFF for i in range(53))

PARTITIONS = [
    [53], [0, 53], [53, 0], [1, 52], [15, 38], [16, 37], [17, 36], [31, 22], [32, 21], [33, 20],
    [15, 1, 37], [15, 0, 38], [1] * 53, [5, 0, 11, 0, 0, 37], [16, 16, 16, 5], [3, 13, 16, 21],
    [7, 9, 0, 16, 21], [52, 1], [48, 5], [20, 0, 0, 33],
]


def cut(msg, part):
    out, p = [], 0
    for n in part:
        out.append(msg[p:p + n])
        p += n
    assert p == len(msg)
    return out


def check_sink(check, key, file, line, sink, tail, msg, part, final_partial_ok, what):
    """sink: list of byte strings that reached the native layer in order."""
    flat = b"".join(bytes(x) for x in sink) + bytes(tail)
    ok = flat == msg
    why = ""
    if not ok:
        why = "bytes reaching the sink + cache differ from the input (%d vs %d bytes)" % (len(flat), len(msg))
    for i, x in enumerate(sink):
        if len(x) % BS and not (final_partial_ok and i == len(sink) - 1):
            ok = False
            why = "a partial block (%d bytes) reaches the sink before the end" % len(x)
    return ok, why


def ocb_transcrypt_seg(check, repo, rule="SEG"):
    """OcbMode._transcrypt: an empty chunk is not the final call."""
    # ---- OCB._transcrypt (payload) and update (associated data) --------------------------------------
    OCB = "Crypto.Cipher._mode_ocb"
    mod = repo.module(OCB)
    fn = repo.func(mod, "OcbMode._transcrypt")
    bad = []
    for part in PARTITIONS:
        sink = []

        def m_aligned(i, a, kw, st, node, sink=sink):
            # (self, in_data, in_data_len, trans_func, trans_desc) -> identity transform
            data, n = a[0], a[1]
            if isinstance(data, (bytes, bytearray)) and isinstance(n, int):
                sink.append(bytes(data[:n]))
                return bytes(data[:n])
            sink.append(b"?")
            return ABytes(None)
        it = Interp(repo, max_depth=3, extra_models={OCB + ".OcbMode._transcrypt_aligned": m_aligned})
        st = State()
        me = it.new_obj(st, mod, repo.cls(mod, "OcbMode"), havoc=False)
        st.heap[me.ident].update({"_cache_P": b""})
        okp = True
        out = []
        for seg in cut(MSG, part) + [None]:
            res = it.run(mod, fn, {"in_data": seg, "trans_func": UNK, "trans_desc": "x"}, self_obj=me, state=st)
            rets = res.returns()
            if len(rets) != 1 or res.raises() or not isinstance(rets[0].value, (bytes, bytearray)):
                okp = False
                break
            out.append(bytes(rets[0].value))
            st = rets[0].state
            st.frames = [{}]
        sink2 = [x for x in sink if len(x) > 0]
        ok, why = check_sink(check, "", "", 0, sink2, b"", MSG, part, True, "")
        if okp and b"".join(out) != MSG:
            ok, why = False, "returned pieces do not concatenate to the transformed message"
        if not okp or not ok:
            bad.append("%s: %s" % (part, why or "indefinite"))
    check.ob(rule, rule + "|ocb._transcrypt", not bad, mod.path, fn.lineno,
             extracted="; ".join(bad[:3]) if bad else "%d partitions (incl. empty segments while bytes are pending): whole blocks to the native layer, the partial block only in the final call" % len(PARTITIONS),
             expected="an empty segment is not the final call; only encrypt()/decrypt() without argument flushes the partial block")


def run(check, ctx):
    repo = ctx.repo
    # ---- GCM._update ------------------------------------------------------------------------
    GCM = "Crypto.Cipher._mode_gcm"
    mod = repo.module(GCM)
    fn = repo.func(mod, "GcmMode._update")
    bad = []
    for part in PARTITIONS:
        sink = []
        it = Interp(repo, max_depth=3, method_models={
            "update": lambda i, base, a, kw, st, node, sink=sink: sink.append(a[0]) or base})
        st = State()
        me = it.new_obj(st, mod, repo.cls(mod, "GcmMode"), havoc=False)
        st.heap[me.ident].update({"_cache": b"", "_signer": it.new_obj(st, label="ghash")})
        okp = True
        for seg in cut(MSG, part):
            res = it.run(mod, fn, {"data": seg}, self_obj=me, state=st)
            rets = res.returns()
            if len(rets) != 1 or res.raises():
                okp = False
                break
            st = rets[0].state
            st.frames = [{}]
        tail = st.heap[me.ident].get("_cache", b"?") if okp else b""
        ok, why = check_sink(check, "", "", 0, sink, tail if isinstance(tail, (bytes, bytearray)) else b"?", MSG, part, False, "")
        if not okp or not ok or len(tail) >= BS:
            bad.append("%s: %s" % (part, why or "cache holds %d bytes" % len(tail)))
    check.ob("SEG", "SEG|gcm._update", not bad, mod.path, fn.lineno,
             extracted="; ".join(bad[:3]) if bad else "%d partitions: GHASH receives whole blocks whose concatenation plus the cache is the input" % len(PARTITIONS),
             expected="segmentation-independent feeding of GHASH (cache < 16 bytes, whole blocks only)")
    # ---- CCM._update (MAC started) ---------------------------------------------------------------
    CCM = "Crypto.Cipher._mode_ccm"
    mod = repo.module(CCM)
    fn = repo.func(mod, "CcmMode._update")
    bad = []
    for part in PARTITIONS:
        sink = []

        def mm_enc(i, base, a, kw, st, node, sink=sink):
            sink.append(a[0])
            return bytes(len(a[0])) if isinstance(a[0], (bytes, bytearray)) else ABytes(None)
        it = Interp(repo, max_depth=3, method_models={"encrypt": mm_enc})
        st = State()
        me = it.new_obj(st, mod, repo.cls(mod, "CcmMode"), havoc=False)
        st.heap[me.ident].update({"_cache": b"", "_mac": it.new_obj(st, label="cbcmac"), "block_size": 16,
                                  "_mac_status": 1, "_t": None})
        okp = True
        for seg in cut(MSG, part):
            res = it.run(mod, fn, {"assoc_data_pt": seg}, self_obj=me, state=st)
            rets = res.returns()
            if not rets or res.raises():
                okp = False
                break
            st = rets[0].state
            st.frames = [{}]
        tail = st.heap[me.ident].get("_cache", b"?") if okp else b""
        ok, why = check_sink(check, "", "", 0, sink, tail if isinstance(tail, (bytes, bytearray)) else b"?", MSG, part, False, "")
        if not okp or not ok or len(tail) >= BS:
            bad.append("%s: %s" % (part, why or "cache %r" % (tail,)))
    check.ob("SEG", "SEG|ccm._update", not bad, mod.path, fn.lineno,
             extracted="; ".join(bad[:3]) if bad else "%d partitions: CBC-MAC receives whole blocks in order" % len(PARTITIONS),
             expected="segmentation-independent feeding of the CBC-MAC")
    ocb_transcrypt_seg(check, repo)
    OCB = "Crypto.Cipher._mode_ocb"
    mod = repo.module(OCB)
    fn = repo.func(mod, "OcbMode.update")
    bad = []
    for part in PARTITIONS:
        sink = []

        def m_upd(i, a, kw, st, node, sink=sink):
            data, n = a[0], a[1]
            if isinstance(data, (bytes, bytearray)) and isinstance(n, int):
                sink.append(bytes(data[:n]))
            else:
                sink.append(b"?")
            return None
        it = Interp(repo, max_depth=4, extra_models={OCB + ".OcbMode._update": m_upd})
        st = State()
        me = it.new_obj(st, mod, repo.cls(mod, "OcbMode"), havoc=False)
        st.heap[me.ident].update({"_cache_A": b"", "_next": ["update", "encrypt"]})
        okp = True
        for seg in cut(MSG, part):
            res = it.run(mod, fn, {"assoc_data": seg}, self_obj=me, state=st)
            rets = res.returns()
            if not rets or res.raises():
                okp = False
                break
            st = rets[0].state
            st.frames = [{}]
        tail = st.heap[me.ident].get("_cache_A", b"?") if okp else b""
        sink2 = [x for x in sink if len(x) > 0]
        ok, why = check_sink(check, "", "", 0, sink2, tail if isinstance(tail, (bytes, bytearray)) else b"?", MSG, part, False, "")
        if not okp or not ok or len(tail) >= BS:
            bad.append("%s: %s" % (part, why or "cache %r" % (tail,)))
    check.ob("SEG", "SEG|ocb.update", not bad, mod.path, fn.lineno,
             extracted="; ".join(bad[:3]) if bad else "%d partitions: whole blocks of associated data in order" % len(PARTITIONS),
             expected="segmentation-independent feeding of the OCB associated data")
    # ---- CMAC.update -------------------------------------------------------------------------------------
    CM = "Crypto.Hash.CMAC"
    mod = repo.module(CM)
    fn = repo.func(mod, "CMAC.update")
    bad = []
    for part in PARTITIONS:
        sink = []

        def m_upd(i, a, kw, st, node, sink=sink):
            d = a[0]
            sink.append(bytes(d) if isinstance(d, (bytes, bytearray)) else b"?")
            return None
        it = Interp(repo, max_depth=3, extra_models={CM + ".CMAC._update": m_upd})
        st = State()
        me = it.new_obj(st, mod, repo.cls(mod, "CMAC"), havoc=False)
        st.heap[me.ident].update({"_cache": bytearray(16), "_cache_n": 0, "_block_size": 16, "_data_size": 0,
                                  "_mac_tag": None, "_update_after_digest": False})
        okp = True
        for seg in cut(MSG, part):
            res = it.run(mod, fn, {"msg": seg}, self_obj=me, state=st)
            rets = res.returns()
            if not rets or res.raises():
                okp = False
                break
            st = rets[0].state
            st.frames = [{}]
        h = st.heap[me.ident]
        cn = h.get("_cache_n")
        cache = h.get("_cache")
        tail = bytes(cache[:cn]) if okp and isinstance(cn, int) and isinstance(cache, (bytes, bytearray)) else b"?"
        sink2 = [x for x in sink if len(x) > 0]
        ok, why = check_sink(check, "", "", 0, sink2, tail, MSG, part, False, "")
        if not okp or not ok or h.get("_data_size") != len(MSG):
            bad.append("%s: %s" % (part, why or "state %r/%r" % (cn, h.get("_data_size"))))
    check.ob("SEG", "SEG|cmac.update", not bad, mod.path, fn.lineno,
             extracted="; ".join(bad[:3]) if bad else "%d partitions: whole blocks to CBC, remainder cached, size counted" % len(PARTITIONS),
             expected="segmentation-independent CMAC input")
    check.floor("SEG", 5)
    from . import c09_extra
    c09_extra.run(check, ctx)
    c09_extra.k12_tree_rows(check, repo)
    # C side: every chunking (empty pieces, in-place output) of the native mode loops gives the one-shot result
    from . import c_modes
    c_modes.mode_tables(check, ctx, ("ctr", "cfb", "ofb", "cbc", "ecb"), rule="SEG-c")
    from . import c_ocb
    c_ocb.ocb_tables(check, ctx, rule="SEG-c", groups=("crypt",))
    # the AEAD layers fed in awkward pieces give the specification's (one-shot) ciphertext and tag
    from . import aead_compose
    aead_compose.compose_tables(check, ctx, rule="SEG")
    # hashes and XOFs of the Keccak family: the value does not depend on how the data is fed (new(data) / update in pieces)
    # nor on how the output is read
    from . import sponge_compose
    sponge_compose.sponge_tables(check, ctx, rule="SEG")
    check.floor("SEG-c", 5)
    from . import c_keccak
    c_keccak.keccak_tables(check, ctx, rule="SEG-c", groups=("sponge",))
    from . import c_md
    c_md.md_tables(check, ctx, rule="SEG-c", groups=("pad",))
    check.undecided.append("equality of results for every partition beyond the representative partitions; "
                           "buffer-protocol corner cases inside ctypes; OCB/GCM/Poly1305 native loops")
