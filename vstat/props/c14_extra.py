"""C14 extras: sibling rules over the three Integer back-ends, primality skeleton."""
import ast
import re

from ..absint import Interp
from ..absstate import State
from ..absval import ABytes, UNK, AObj, ABuiltin, AClass, is_unk
from ..core import AnalysisError
from ..pydb import norm, params_of, walk_no_nested

BASE = "Crypto.Math._IntegerBase"
BACKENDS = [("Crypto.Math._IntegerNative", "IntegerNative"), ("Crypto.Math._IntegerGMP", "IntegerGMP"),
            ("Crypto.Math._IntegerCustom", "IntegerCustom")]
PR = "Crypto.Math.Primality"


def sibling_methods(check, repo):
    bmod = repo.module(BASE)
    bcls = repo.cls(bmod, "IntegerBase")
    abstract = []
    for f in bcls.body:
        if isinstance(f, ast.FunctionDef) and any("abstractmethod" in norm(d) for d in f.decorator_list):
            abstract.append(f)
    if len(abstract) < 40:
        raise AnalysisError("only %d abstract methods in IntegerBase (confirmed: 47)" % len(abstract))
    for mname, cname in BACKENDS:
        mod = repo.module(mname)
        c = repo.cls(mod, cname)
        missing, sig = [], []
        for a in abstract:
            r = repo.find_method(mod, c, a.name)
            if r is None or r[1] is a:
                # class-level alias such as __bool__ = __nonzero__ counts
                alias = any(isinstance(b, ast.Assign) and any(isinstance(t, ast.Name) and t.id == a.name for t in b.targets)
                            for m2, c2 in repo.mro(mod, c) for b in c2.body)
                if not alias:
                    missing.append(a.name)
                continue
            pa = [p for p in params_of(a) if p not in ("self", "cls")]
            pb = [p for p in params_of(r[1]) if p not in ("self", "cls")]
            if len(pa) != len(pb):
                sig.append("%s%s vs abstract %s" % (a.name, tuple(pb), tuple(pa)))
        check.ob("S", "S|integer.methods." + cname, not missing and not sig, mod.path, c.lineno,
                 extracted="missing %s; signature differences %s" % (missing or "none", sig or "none"),
                 expected="all %d abstract operations implemented with the abstract signature" % len(abstract))


# (function, argument) -> why the value is below 2^64 without a local test
ULONG_REVIEWED = {
    ("IntegerGMP.__init__", "slots * 32"): "slots*32 <= bit_length() of a Python int, far below 2^64",
}


def gmp_ulong_guards(check, repo):
    """Every c_ulong(E) / c_long(E) argument in IntegerGMP is dominated by a
    range test on E in the same function (values beyond 2^64 would wrap)."""
    mod = repo.module("Crypto.Math._IntegerGMP")
    n = 0
    for q, f in sorted(mod.funcs.items()):
        for c in walk_no_nested(f):
            if isinstance(c, ast.Call) and isinstance(c.func, ast.Name) and c.func.id in ("c_ulong", "c_long") and c.args:
                e = c.args[0]
                names = set(x.id for x in ast.walk(e) if isinstance(x, ast.Name))
                if not names:
                    continue
                n += 1
                if isinstance(e, ast.BinOp) and isinstance(e.op, ast.BitAnd) and any(
                        isinstance(x, ast.Constant) and isinstance(x.value, int) and 0 <= x.value < (1 << 63)
                        for x in (e.left, e.right)):
                    continue        # masked with a small constant
                if (q, norm(e)) in ULONG_REVIEWED:
                    continue
                # an enclosing `if` whose test bounds one of the names from both sides, or an abs()/mask
                guarded = False
                p = getattr(c, "_parent", None)
                while p is not None and p is not f:
                    if isinstance(p, ast.If):
                        t = p.test
                        for cmp_ in ast.walk(t):
                            if isinstance(cmp_, ast.Compare):
                                ids = set(x.id for x in ast.walk(cmp_) if isinstance(x, ast.Name))
                                consts = [x.value for x in ast.walk(cmp_) if isinstance(x, ast.Constant) and isinstance(x.value, int)]
                                if ids & names and consts and max(abs(v) for v in consts) <= (1 << 63):
                                    if len(cmp_.ops) == 2 or any(isinstance(o, (ast.Lt, ast.LtE)) for o in cmp_.ops):
                                        guarded = True
                    p = getattr(p, "_parent", None)
                if not guarded:
                    # dominated by an earlier raising guard on the same name in the function
                    for g in walk_no_nested(f):
                        if isinstance(g, ast.If) and g.lineno < c.lineno and any(isinstance(x, ast.Raise) for b in g.body for x in ast.walk(b)):
                            ids = set(x.id for x in ast.walk(g.test) if isinstance(x, ast.Name))
                            consts = [x.value for x in ast.walk(g.test) if isinstance(x, ast.Constant) and isinstance(x.value, int)]
                            if ids & names and consts:
                                guarded = True
                if not guarded or n <= 2:
                    check.ob("F", "F|gmp.ulong|%s|%s" % (q, norm(e)[:30]), guarded, mod.path, c.lineno,
                             extracted="%s(%s) in %s %s" % (c.func.id, norm(e), q, "under a range test" if guarded else "WITHOUT a range test (ctypes wraps modulo 2^64 silently)"),
                             expected="native unsigned-long fast paths are only taken for operands proven small")
    if n < 10:
        raise AnalysisError("only %d c_ulong sites in IntegerGMP" % n)


def custom_lengths(check, repo):
    mod = repo.module("Crypto.Math._IntegerCustom")
    cls = repo.cls(mod, "IntegerCustom")
    for meth, args, vals in (("inplace_pow", lambda b, e, m: {"exponent": e, "modulus": m}, [
            (3, 5, 7), (3, (1 << 80) + 12345, 89299), (2, 65537, (1 << 127) - 1), ((1 << 70) + 1, 3, 101), (5, (1 << 200) + 1, (1 << 64) + 13)]),):
        fn = repo.func(mod, "IntegerCustom." + meth)
        wrong = []
        for (b, e, m) in vals:
            it = Interp(repo, max_depth=3, extra_models={"Crypto.Random.random.getrandbits": lambda i, a, kw, st, node: 7})
            st = State()
            me = it.new_obj(st, mod, cls, havoc=False)
            st.heap[me.ident]["_value"] = b
            res = it.run(mod, fn, args(b, e, m), self_obj=me, state=st)
            ff = [ev for ev in res.events if ev.kind == "ffi" and ev.name.endswith("monty_pow")]
            if len(ff) != 1:
                wrong.append("monty_pow called %d times for (%d, ~2^%d, %d)" % (len(ff), b, e.bit_length(), m))
                continue
            a = ff[0].args[0]
            need = max((x.bit_length() + 7) // 8 for x in (b % m, e, m))
            lens = [len(x) if isinstance(x, (bytes, bytearray)) else getattr(x, "n", None) for x in a[:4]]
            if len(set(lens)) != 1 or lens[0] != a[4] or lens[0] < need:
                wrong.append("operand lengths %s, length argument %r, %d bytes needed for the largest operand" % (lens, a[4], need))
            elif int.from_bytes(a[2], "big") != e or int.from_bytes(a[3], "big") != m:
                wrong.append("exponent/modulus bytes do not encode the operands")
        check.ob("F", "F|custom.%s.lengths" % meth, not wrong, mod.path, fn.lineno,
                 extracted="; ".join(wrong[:2]) if wrong else "%d operand triples: output, base, exponent and modulus all have the length passed to monty_pow, large enough for the largest operand" % len(vals),
                 expected="monty_pow reads `len` bytes of each operand: all four buffers have that length and no operand is truncated")


def primality(check, repo):
    mod = repo.module(PR)
    fn = repo.func(mod, "test_probable_prime")
    consts = {}
    for name in ("COMPOSITE", "PROBABLY_PRIME"):
        v = mod.top_assign.get(name)
        if not v or not isinstance(v[0], ast.Constant):
            raise AnalysisError("anchor vanished: Primality.%s" % name)
        consts[name] = v[0].value
    C, P = consts["COMPOSITE"], consts["PROBABLY_PRIME"]
    wrong = []
    for mr in (C, P):
        for lu in (C, P):
            calls = []
            it = Interp(repo, max_depth=1, extra_models={
                PR + ".miller_rabin_test": lambda i, a, kw, st, node, mr=mr, calls=calls: calls.append("mr") or mr,
                PR + ".lucas_test": lambda i, a, kw, st, node, lu=lu, calls=calls: calls.append("lucas") or lu})
            res = it.run(mod, fn, {"candidate": (1 << 127) - 1 if True else 0, "randfunc": UNK})
            r = [o for o in res.returns() if "call:miller_rabin_test" in o.must]
            if not r:
                raise AnalysisError("anchor vanished: no exit of test_probable_prime is dominated by miller_rabin_test")
            vals = set(o.value for o in r)
            want = P if (mr == P and lu == P) else C
            if vals != set([want]):
                wrong.append("Miller-Rabin=%s Lucas=%s -> %s (expected %s)" % (
                    "prime" if mr == P else "composite", "prime" if lu == P else "composite",
                    sorted(vals, key=repr), "PROBABLY_PRIME" if want == P else "COMPOSITE"))
            if mr == P and "lucas" not in calls:
                wrong.append("Lucas test not run after a passing Miller-Rabin")
    check.ob("D", "D|primality.combined", not wrong, mod.path, fn.lineno,
             extracted="; ".join(wrong[:3]) if wrong else "4 outcome combinations: PROBABLY_PRIME iff Miller-Rabin and Lucas both pass; Lucas always runs after a passing Miller-Rabin",
             expected="a candidate is declared probably prime only if neither test answers COMPOSITE (FIPS 186-4 C.3)")
    # the Miller-Rabin schedule
    sched = None
    for n in walk_no_nested(fn):
        if isinstance(n, ast.Assign) and any(isinstance(t, ast.Name) and t.id == "mr_ranges" for t in n.targets):
            try:
                sched = ast.literal_eval(n.value)
            except Exception:
                sched = None
    ok = bool(sched) and all(sched[i][0] < sched[i + 1][0] and sched[i][1] >= sched[i + 1][1] for i in range(len(sched) - 1)) \
        and all(x[1] >= 1 for x in sched)
    check.ob("K-pw", "K-pw|primality.mr_schedule", ok, mod.path, fn.lineno, extracted="mr_ranges = %r" % (sched,),
             expected="increasing size thresholds, non-increasing iteration counts, every count >= 1")
    # generate_probable_prime returns only a candidate that passed
    gfn = repo.func(mod, "generate_probable_prime")
    for verdicts, lab in (([C, C, P], "third candidate passes"), ([P], "first candidate passes")):
        seq = list(verdicts)
        drawn = []

        def m_tp(i, a, kw, st, node, seq=seq):
            return seq.pop(0) if seq else P

        def m_rand(i, a, kw, st, node, drawn=drawn):
            v = (1 << 511) + 2 * len(drawn) + 100
            drawn.append(v)
            return v
        it = Interp(repo, max_depth=1, extra_models={PR + ".test_probable_prime": m_tp,
                                                     "Crypto.Math._IntegerGMP.IntegerGMP.random": m_rand,
                                                     "Crypto.Math._IntegerBase.IntegerBase.random": m_rand})
        res = it.run(mod, gfn, {"kwargs": {"exact_bits": 512, "randfunc": UNK}})
        r = res.returns()
        want = (drawn[len(verdicts) - 1] | 1) if len(drawn) >= len(verdicts) else None
        got = r[0].value if len(r) == 1 else "<%d exits>" % len(r)
        check.ob("D", "D|primality.generate|" + lab, got == want and want is not None, mod.path, gfn.lineno,
                 extracted="returns %s after %d candidates" % ("the passing candidate" if got == want else repr(got)[:40], len(drawn)),
                 expected="only a candidate for which test_probable_prime did not answer COMPOSITE is returned; candidates are odd")


def number_rows(check, repo):
    """Crypto.Util.number: exact integer helpers on operands far beyond 2^53 (so that any detour through a float,
    a fixed-width type or a truncating division shows) and at their edges."""
    NM = "Crypto.Util.number"
    mod = repo.module(NM)
    W = 1 << 64
    big = [0, 1, 2, 3, 7, 8, 9, 255, 256, W - 1, W, W + 1, (1 << 53) + 1, (1 << 200) + 1, (1 << 521) - 1, 10 ** 40 + 7]
    rows = []
    for n in big:
        for d in (1, 2, 3, 8, 255, 256, W - 1, W, (1 << 100) + 1, 10 ** 20):
            rows.append(("ceil_div", (n, d), ("v", -(-n // d))))
    rows += [("ceil_div", (5, 0), ("r", "ZeroDivisionError")), ("ceil_div", (-5, 2), ("r", "ValueError")), ("ceil_div", (5, -2), ("r", "ValueError")),
             ("ceil_div", (0, 0), ("r", "ZeroDivisionError"))]
    for n in big:
        rows.append(("size", (n,), ("v", n.bit_length())))
    rows.append(("size", (-1,), ("r", "ValueError")))
    for u, v in ((3, 7), (3, W + 13), (10 ** 30 + 1, (1 << 127) - 1), (-3, 7), (W + 6, 7), (1, 2), (5, (1 << 255) - 19), (0, 1), (12345, 1)):
        rows.append(("inverse", (u, v), ("v", pow(u, -1, v))))
    rows += [("inverse", (3, 0), ("r", "ZeroDivisionError")), ("inverse", (3, -7), ("r", "ValueError")), ("inverse", (6, 9), ("r", "ValueError")),
             ("inverse", (0, 7), ("r", "ValueError"))]
    import math as _m
    for x, y in ((0, 0), (0, 5), (12, 18), (W, 1 << 70), ((1 << 127) - 1, (1 << 61) - 1), (10 ** 40, 10 ** 35 + 10 ** 30), (-12, 18)):
        rows.append(("GCD", (x, y), ("v", _m.gcd(x, y))))
    for n in big + [(1 << 64) - 1, 1 << 63]:
        for bs in (0, 1, 4, 8, 9):
            raw = n.to_bytes(max(1, (n.bit_length() + 7) // 8), "big")
            want = raw if bs == 0 else bytes((-len(raw)) % bs) + raw
            rows.append(("long_to_bytes", (n, bs), ("v", want)))
    rows += [("long_to_bytes", (-1, 0), ("r", "ValueError")), ("long_to_bytes", (5, -1), ("r", "ValueError"))]
    for b in (b"", b"\x00", b"\x01", b"\x00\x00\x01\x00", bytes(range(1, 10)), b"\xff" * 17, bytes(7) + b"\x80" + bytes(40), bytes(range(200, 233))):
        rows.append(("bytes_to_long", (b,), ("v", int.from_bytes(b, "big"))))
    defs = {}
    for node in ast.walk(mod.tree):
        if isinstance(node, ast.FunctionDef) and node.name in ("ceil_div", "size", "inverse", "GCD", "long_to_bytes", "bytes_to_long"):
            defs.setdefault(node.name, []).append(node)
    n = 0
    by = {}
    for fname, args, exp in rows:
        cands = defs.get(fname)
        if not cands:
            if fname == "GCD":
                # bound to math.gcd on every supported interpreter: module-level assignment
                ok = any(isinstance(x, ast.Assign) and norm(x.value) == "math.gcd" and norm(x.targets[0]) == "GCD" for x in ast.walk(mod.tree))
                if not ok:
                    raise AnalysisError("anchor vanished: Crypto.Util.number.GCD")
                continue
            raise AnalysisError("anchor vanished: Crypto.Util.number.%s" % fname)
        for fn in cands:
            it = Interp(repo, max_depth=4)
            it.unroll_limit = 1200
            ps = params_of(fn)
            res = it.run(mod, fn, dict(zip(ps, args)), bind_defaults=True)
            rets, rs = res.returns(), res.raise_classes()
            n += 1
            if exp[0] == "v":
                got = rets[0].value if len(rets) == 1 and not rs else None
                if isinstance(got, bytearray):
                    got = bytes(got)
                good = len(rets) == 1 and not rs and type(got) is type(exp[1]) and got == exp[1]
            else:
                good = not rets and set(rs) == {exp[1]}
            if not good:
                def short(v):
                    t = repr(v)
                    return t if len(t) < 50 else t[:24] + ".." + t[-12:]
                by.setdefault(fname, []).append("%s%s (line %d) -> %s, expected %s" % (
                    fname, short(args), fn.lineno, short([r.value for r in rets]) + (" raises %s" % sorted(rs) if rs else ""), short(exp[1])))
    what = {"ceil_div": "ceil_div(n, d) = ceil(n / d) exactly for operands up to 2^521; zero / negative operands refused",
            "size": "size(N) = bit length of N", "inverse": "inverse(u, v) * u = 1 mod v, reduced to [0, v); non-invertible / zero / negative modulus refused",
            "GCD": "GCD is math.gcd", "long_to_bytes": "long_to_bytes(n, blocksize) = minimal big-endian encoding of n (one zero byte for 0), left-padded to a multiple of blocksize",
            "bytes_to_long": "bytes_to_long(s) = big-endian value of s (empty string: 0)"}
    for fname in ("ceil_div", "size", "inverse", "GCD", "long_to_bytes", "bytes_to_long"):
        bad = by.get(fname, [])
        check.ob("K-pw", "K-pw|number.%s" % fname, not bad, mod.path, (defs.get(fname) or [mod.tree])[0].lineno if defs.get(fname) else 0,
                 extracted=("%d rows differ: " % len(bad) + "; ".join(bad[:3])) if bad else "all rows as the exact integer reference",
                 expected=what[fname])
    check.count("number_rows", n)


def _ref_jacobi(a, n):
    a %= n
    t = 1
    while a:
        while a % 2 == 0:
            a //= 2
            if n % 8 in (3, 5):
                t = -t
        a, n = n, a
        if a % 4 == 3 and n % 4 == 3:
            t = -t
        a %= n
    return t if n == 1 else 0


def _is_prime(n):
    if n < 2:
        return False
    i = 2
    while i * i <= n:
        if n % i == 0:
            return False
        i += 1
    return True


def _isqrt_exact(n):
    import math
    r = math.isqrt(n)
    return r * r == n


def ref_lucas(n):
    """FIPS 186-4 C.3.3 with Selfridge's parameters, U_{n+1} by the plain linear recurrence (no doubling formulas:
    independent of the code under test).  True = PROBABLY_PRIME."""
    if n in (2, 3, 5):
        return True
    if n < 2 or n % 2 == 0 or _isqrt_exact(n):
        return False
    D = 5
    while True:
        if n not in (D, -D):
            j = _ref_jacobi(D, n)
            if j == 0:
                return False
            if j == -1:
                break
        D = -(D + 2) if D > 0 else -(D - 2)
    Q = (1 - D) // 4
    u0, u1 = 0, 1
    for _ in range(n):
        u0, u1 = u1, (u1 - Q * u0) % n
    return u1 == 0


def ref_mr(n, bases):
    """FIPS 186-4 C.3.1 with the given bases.  True = PROBABLY_PRIME."""
    if n in (2, 3, 5):
        return True
    if n < 2 or n % 2 == 0:
        return False
    m, a = n - 1, 0
    while m % 2 == 0:
        m //= 2
        a += 1
    for b in bases:
        z = pow(b, m, n)
        if z in (1, n - 1):
            continue
        for _ in range(a - 1):
            z = z * z % n
            if z == n - 1:
                break
            if z == 1:
                return False
        else:
            return False
    return True


LUCAS_PSP = [323, 377, 1159, 1829, 3827, 5459, 5777, 9071, 9179, 10877, 11419, 11663, 13919, 14839, 16109, 16211, 18407, 18971, 19043]
SPSP2 = [2047, 3277, 4033, 4681, 8321, 15841, 29341, 42799, 49141, 52633]
CARMICHAEL = [561, 1105, 1729, 2465, 2821, 6601, 8911, 10585, 15841, 29341, 41041, 46657, 52633, 62745, 63973, 75361]


def primality_tables(check, repo, thorough=False):
    """miller_rabin_test, lucas_test and test_probable_prime of Crypto.Math.Primality interpreted (over the native
    Integer back-end, Miller-Rabin bases injected) on EVERY candidate below a bound and on the classical adversarial
    families, and compared with the checker's own FIPS 186-4 C.3.1 / C.3.3 and with trial division."""
    from .int_table import Backend
    from ..absval import AClass
    from ..par import pmap
    mod = repo.module(PR)
    be = Backend(repo, "native")
    f_mr, f_lu, f_pp = repo.func(mod, "miller_rabin_test"), repo.func(mod, "lucas_test"), repo.func(mod, "test_probable_prime")
    base_call = [n for n in ast.walk(f_mr) if isinstance(n, ast.Call) and isinstance(n.func, ast.Attribute) and n.func.attr == "random_range"]
    if len(base_call) != 1:
        raise AnalysisError("anchor vanished: the base selection of miller_rabin_test (Integer.random_range call)")
    base_key = norm(base_call[0])
    N = 6000 if thorough else 1300
    # _sieve_base = set(sieve_base[:100]): read from the literal in Crypto.Util.number and the slice in Primality.py
    nmod = repo.module("Crypto.Util.number")
    lit = [n for n in nmod.tree.body if isinstance(n, ast.Assign) and norm(n.targets[0]) == "sieve_base"]
    use = [n for n in mod.tree.body if isinstance(n, ast.Assign) and norm(n.targets[0]) == "_sieve_base"]
    if len(lit) != 1 or len(use) != 1:
        raise AnalysisError("anchor vanished: sieve_base / _sieve_base")
    sieve = ast.literal_eval(lit[0].value)
    m = re.match(r"set\(_sieve_base_large\[:(\d+)\]\)$", norm(use[0].value))
    if not m:
        raise AnalysisError("_sieve_base is no longer set(_sieve_base_large[:N]): %s" % norm(use[0].value))
    sieve_set = frozenset(sieve[:int(m.group(1))])
    not_prime = [x for x in sieve_set if not _is_prime(x)]
    check.ob("K", "K|primality.sieve", not not_prime and len(sieve_set) == int(m.group(1)), nmod.path, lit[0].lineno,
             extracted="%d entries, not prime: %s" % (len(sieve_set), not_prime[:5]), expected="every entry of the trial-division table is a prime (a table hit returns PROBABLY_PRIME at once)")

    def run(job):
        fn, n, bases, extra = job
        it = be.interp()
        st = State()
        seq = list(bases)
        drawn = []

        def draw(i, st2):
            b = seq[min(len(drawn), len(seq) - 1)] if seq else 2
            drawn.append(b)
            return be.make(i, st2, b)
        it.inject.update({"Integer": AClass(be.mod, be.cls), base_key: draw, "_sieve_base": sieve_set})
        it.assert_raises = True
        it.eager_generators = 48
        args = {"candidate": be.make(it, st, n)}
        args.update(extra)
        res = it.run(mod, fn, args, state=st, bind_defaults=True)
        if res.rejected():
            return ("raises",) + tuple(sorted(set(res.raise_classes())))
        rets = res.returns()
        if len(rets) != 1 or res.raises():
            return ("undecided", len(rets), tuple(res.raise_classes()))
        return rets[0].value
    # ---- Lucas
    # domain: n >= 2.  0 and 1 are neither prime nor composite and the property does not speak about them (the
    # repository's own tests pin miller_rabin_test(1) and lucas_test(1) to PROBABLY_PRIME)
    cands = list(range(2, N)) + LUCAS_PSP + CARMICHAEL + SPSP2 + [n * n for n in (37, 41, 101)] + [37 * 41, 101 * 103, 8191, 8191 * 3]
    cands = sorted(set(c for c in cands if c < 80000))
    got = pmap(run, [(f_lu, n, (), {}) for n in cands])
    wrong = []
    for n, g in zip(cands, got):
        want = 1 if ref_lucas(n) else 0
        if g != want or isinstance(g, bool):
            wrong.append("lucas_test(%d) = %r, FIPS 186-4 C.3.3 gives %d%s" % (n, g, want, " (n is %s)" % ("prime" if _is_prime(n) else "not prime")))
    check.ob("K-pw", "K-pw|primality.lucas", not wrong, mod.path, f_lu.lineno,
             extracted=("%d of %d candidates differ: " % (len(wrong), len(cands)) + "; ".join(wrong[:4])) if wrong else
             "%d candidates (all below %d, the Lucas pseudoprimes, Carmichael numbers, squares): as the Lucas test with Selfridge's parameters" % (len(cands), N),
             expected="lucas_test(n) = PROBABLY_PRIME iff U_(n+1) = 0 mod n for Selfridge's (D, P, Q) (FIPS 186-4 C.3.3); never COMPOSITE for a prime (n >= 2)")
    total = len(cands)
    primes_failed = [n for n, g in zip(cands, got) if _is_prime(n) and g != 1]
    check.ob("K-pw", "K-pw|primality.lucas.primes", not primes_failed, mod.path, f_lu.lineno,
             extracted="declared composite: %s" % primes_failed[:8] if primes_failed else "every prime of the table is declared PROBABLY_PRIME",
             expected="no prime is declared composite by the Lucas test")
    # ---- Miller-Rabin with chosen bases
    jobs = []
    for n in list(range(2, 7)) + list(range(7, N // 2, 2)) + [x for x in SPSP2 + CARMICHAEL if x < 70000]:
        if n < 7:
            jobs.append((n, (2,)))
            continue
        for bases in ((2,), (3,), (n - 2,), (n // 2,), (2, 3), (7, 2, 5)):
            if all(2 <= b <= n - 2 for b in bases):
                jobs.append((n, bases))
    got = pmap(run, [(f_mr, n, bases, {"iterations": len(bases)}) for n, bases in jobs])
    wrong, primes_failed = [], []
    for (n, bases), g in zip(jobs, got):
        want = 1 if ref_mr(n, bases) else 0
        if g != want or isinstance(g, bool):
            wrong.append("miller_rabin_test(%d, bases %s) = %r, FIPS 186-4 C.3.1 gives %d" % (n, list(bases), g, want))
        if _is_prime(n) and g != 1:
            primes_failed.append(n)
    total += len(jobs)
    check.ob("K-pw", "K-pw|primality.miller-rabin", not wrong, mod.path, f_mr.lineno,
             extracted=("%d of %d rows differ: " % (len(wrong), len(jobs)) + "; ".join(wrong[:4])) if wrong else
             "%d (candidate, bases) rows: the outcome of FIPS 186-4 C.3.1 for exactly those bases (strong pseudoprimes and Carmichael numbers included)" % len(jobs),
             expected="miller_rabin_test answers COMPOSITE iff one of the drawn bases is a witness; a prime is never declared composite (n >= 2)")
    # ---- the combined test: exact on everything below the bound (no number is both a base-2 strong pseudoprime and a Lucas pseudoprime below 2^64)
    cands = sorted(set(list(range(2, N)) + LUCAS_PSP + CARMICHAEL + SPSP2 + [1009 * 1013, 65537, 65537 * 3, (1 << 61) - 1, ((1 << 61) - 1) * 3, (1 << 64) + 13]))
    got = pmap(run, [(f_pp, n, (2,), {"randfunc": None}) for n in cands])
    known_prime = {(1 << 61) - 1: True, (1 << 89) - 1: True, ((1 << 61) - 1) * 3: False, (1 << 64) + 13: True}
    wrong = []
    for n, g in zip(cands, got):
        isp = known_prime[n] if n in known_prime else _is_prime(n)
        if g != (1 if isp else 0) or isinstance(g, bool):
            wrong.append("test_probable_prime(%d) = %r but %d is %s" % (n, g, n, "prime" if isp else "not prime"))
    total += len(cands)
    check.ob("K-pw", "K-pw|primality.combined", not wrong, mod.path, f_pp.lineno,
             extracted=("%d of %d candidates differ: " % (len(wrong), len(cands)) + "; ".join(wrong[:4])) if wrong else
             "%d candidates (all below %d, pseudoprime families, some 61..89-bit numbers): PROBABLY_PRIME exactly for the primes" % (len(cands), N),
             expected="test_probable_prime(n) = PROBABLY_PRIME iff n is prime, on every candidate below the bound and on Carmichael numbers, strong pseudoprimes to base 2 and Lucas pseudoprimes")
    check.count("primality_rows", total)


def legacy_primality_rows(check, repo, thorough=False):
    """Crypto.Util.number._rabinMillerTest / isPrime (used by getPrime, getStrongPrime and by callers of the legacy
    API): every n below a bound with chosen base sequences (also a repeated base: the `tested` list), compared with
    the checker's Miller-Rabin for those bases, and isPrime on all n below the bound and the pseudoprime families."""
    from ..par import pmap
    NM = "Crypto.Util.number"
    mod = repo.module(NM)
    f_mr, f_ip = repo.func(mod, "_rabinMillerTest"), repo.func(mod, "isPrime")
    draws = [n for n in ast.walk(f_mr) if isinstance(n, ast.Call) and norm(n.func) == "getRandomRange"]
    if len(draws) < 1:
        raise AnalysisError("anchor vanished: base selection of _rabinMillerTest")
    keys = set(norm(d) for d in draws)
    N = 4000 if thorough else 1300
    lit = [n for n in mod.tree.body if isinstance(n, ast.Assign) and norm(n.targets[0]) == "sieve_base"]
    if len(lit) != 1:
        raise AnalysisError("anchor vanished: sieve_base")
    sieve = ast.literal_eval(lit[0].value)

    def run(job):
        fn, args, bases = job
        it = Interp(repo, max_depth=6)
        it.unroll_limit = 12000
        it.for_limit = 12000
        it.assert_raises = True
        drawn = []

        def draw(i, st2):
            b = bases[min(len(drawn), len(bases) - 1)]
            drawn.append(b)
            return b
        it.inject = dict((k, draw) for k in keys)
        it.inject["_fastmath"] = None
        it.inject["sieve_base"] = sieve
        res = it.run(mod, fn, args, bind_defaults=True)
        if res.rejected():
            return ("raises",) + tuple(sorted(set(res.raise_classes())))
        rets = res.returns()
        if len(rets) != 1 or res.raises():
            return ("undecided", len(rets), tuple(res.raise_classes()))
        return rets[0].value
    jobs = []
    for n in list(range(-1, 8)) + list(range(9, N // 2, 2)) + [x for x in SPSP2 + CARMICHAEL if x < 70000]:
        if n < 7:
            jobs.append((n, (2, 3, 4, 5), 1))
            continue
        for bases in ((2,), (3,), (n - 1,), (2, 3), (2, 2, 3), (n - 2, 7, 7, 2)):
            rounds = len(set(bases))
            jobs.append((n, bases, rounds))
    got = pmap(run, [(f_mr, {"n": n, "rounds": r, "randfunc": UNK}, b) for n, b, r in jobs])
    wrong, primes_failed = [], []
    for (n, bases, rounds), g in zip(jobs, got):
        if n < 3 or n % 2 == 0:
            want = (n == 2)
        else:
            distinct = []
            for b in bases:
                if b not in distinct:
                    distinct.append(b)
            want = 1 if ref_mr(n, distinct[:min(rounds, n - 2)]) else 0
        if g != want:
            wrong.append("_rabinMillerTest(%d, %d rounds, bases %s) = %r, Miller-Rabin for those bases gives %r" % (n, rounds, list(bases), g, want))
    check.ob("K-pw", "K-pw|primality.legacy.mr", not wrong, mod.path, f_mr.lineno,
             extracted=("%d of %d rows differ: " % (len(wrong), len(jobs)) + "; ".join(wrong[:4])) if wrong else
             "%d (n, bases) rows: composite iff one of the distinct drawn bases is a witness; n < 3 and even n by the special cases" % len(jobs),
             expected="_rabinMillerTest is the Miller-Rabin test for the drawn bases (a repeated base is drawn again); a prime is never declared composite")
    cands = sorted(set(list(range(-2, N)) + LUCAS_PSP + CARMICHAEL + SPSP2 + [1009 * 1013, 65537, 65537 * 3, 104729, 104729 * 104723, (1 << 61) - 1, ((1 << 31) - 1) * ((1 << 19) - 1)]))
    got = pmap(run, [(f_ip, {"N": n, "randfunc": UNK}, (2, 3, 5, 7, 11, 13, 17, 19, 23, 29, 31, 37)) for n in cands])
    wrong = []
    known = {(1 << 61) - 1: True}
    for n, g in zip(cands, got):
        isp = known[n] if n in known else _is_prime(n) if n < 10 ** 7 else False
        if g is not isp:
            wrong.append("isPrime(%d) = %r but %d is %s" % (n, g, n, "prime" if isp else "not prime"))
    check.ob("K-pw", "K-pw|primality.legacy.isPrime", not wrong, mod.path, f_ip.lineno,
             extracted=("%d of %d candidates differ: " % (len(wrong), len(cands)) + "; ".join(wrong[:4])) if wrong else
             "%d candidates (all from -2 to %d, pseudoprime families, products of two primes beyond the sieve): True exactly for the primes, a bool" % (len(cands), N),
             expected="isPrime(N) is True iff N is prime (bases 2, 3, 5, ... drawn: no composite of the table is a strong pseudoprime to all of them)")
    check.count("legacy_primality_rows", len(jobs) + len(cands))


def run(check, ctx):
    repo = ctx.repo
    sibling_methods(check, repo)
    gmp_ulong_guards(check, repo)
    custom_lengths(check, repo)
    primality(check, repo)
    number_rows(check, repo)
    primality_tables(check, repo, thorough=ctx.tier == "thorough")
    legacy_primality_rows(check, repo, thorough=ctx.tier == "thorough")
    strong_prime_interval(check, repo)
    # generated primes are fresh draws of exactly the requested size
    from .c18_extra import prime_generation_tapes
    prime_generation_tapes(check, repo, prop="C14")


def strong_prime_interval(check, repo):
    """number.getStrongPrime(N): the candidate X is drawn from an interval that makes the result exactly N bits long
    (and the product of two results exactly 2N bits): [~sqrt(2) * 2^(N-1), 2^N - 1].  The arguments of the draw are
    extracted by interpreting the function up to that call for every accepted N from 512 to 2048 (multiples of 128);
    the final search only moves X by less than p1*p2 < 2^204 and aborts at 2^N."""
    NM = "Crypto.Util.number"
    mod = repo.module(NM)
    fn = repo.func(mod, "getStrongPrime")
    wrong = []
    n = 0
    for N in list(range(512, 2048 + 1, 128)) + [4096]:
        seen = []

        def m_range(i, a, kw, st, node, seen=seen):
            seen.append(tuple(a[:2]))
            i._diverged = i.do_raise("StopIteration", st, node)
            return UNK
        it = Interp(repo, max_depth=2, extra_models={NM + ".getRandomRange": m_range})
        it.inject = {"_fastmath": None}
        it.run(mod, fn, {"N": N, "e": 0, "false_positive_prob": 1e-6, "randfunc": ABuiltin("vstat.rand")})
        n += 1
        if len(seen) != 1 or not all(isinstance(x, int) for x in seen[0]):
            wrong.append("N=%d: the interval of the draw is not determined (%r)" % (N, seen[:1]))
            continue
        lo, hi = seen[0]
        if not ((1 << (N - 1)) <= lo < hi <= (1 << N) - 1):
            wrong.append("N=%d: X is drawn from [2^%d.., 2^%d..]: not an interval of %d-bit numbers" % (N, lo.bit_length() - 1, hi.bit_length() - 1 if hi & (hi + 1) else hi.bit_length(), N))
        elif lo * lo < (1 << (2 * N - 1)) - (1 << (2 * N - 50)) or hi != (1 << N) - 1 or lo > (1 << (N - 1)) * 3 // 2:
            wrong.append("N=%d: interval [%#x.., %#x..] is not [sqrt(2) * 2^%d, 2^%d - 1]" % (N, lo >> (N - 16), hi >> (N - 16), N - 1, N))
    for N in (0, 511, 513, 576, 640 + 64, 384):
        it = Interp(repo, max_depth=2, extra_models={NM + ".getRandomRange": lambda i, a, kw, st, node: UNK})
        it.inject = {"_fastmath": None}
        res = it.run(mod, fn, {"N": N, "e": 0, "false_positive_prob": 1e-6, "randfunc": ABuiltin("vstat.rand")})
        n += 1
        if not res.rejected() or set(res.raise_classes()) != {"ValueError"}:
            wrong.append("N=%d is not refused with ValueError" % N)
    check.ob("G", "G|number.getStrongPrime.interval", not wrong, mod.path, fn.lineno,
             extracted="; ".join(wrong[:3]) if wrong else "%d sizes: X drawn from [sqrt(2) * 2^(N-1), 2^N - 1]; sizes that are not multiples of 128 or below 512 refused" % n,
             expected="getStrongPrime(N) returns a prime of exactly N bits (documented), large enough for a 2N-bit product")
