"""C14 extras: sibling rules over the three Integer back-ends, primality skeleton."""
import ast

from ..absint import Interp
from ..absstate import State
from ..absval import ABytes, UNK, AObj, ABuiltin, AClass, is_unk
from ..core import AnalysisError
from ..pydb import norm, params_of, walk_no_nested

BASE = "Crypto.Math._IntegerBase"
BACKENDS = [("Crypto.Math._IntegerNative", "IntegerNative"), ("Crypto.Math._IntegerGMP", "IntegerGMP"),
            ("Crypto.Math._IntegerCustom", "IntegerCustom")]
PR = "Crypto.Math.Primality"


def sibling_methods(check, repo):
    bmod = repo.module(BASE)
    bcls = repo.cls(bmod, "IntegerBase")
    abstract = []
    for f in bcls.body:
        if isinstance(f, ast.FunctionDef) and any("abstractmethod" in norm(d) for d in f.decorator_list):
            abstract.append(f)
    if len(abstract) < 40:
        raise AnalysisError("only %d abstract methods in IntegerBase (confirmed: 47)" % len(abstract))
    for mname, cname in BACKENDS:
        mod = repo.module(mname)
        c = repo.cls(mod, cname)
        missing, sig = [], []
        for a in abstract:
            r = repo.find_method(mod, c, a.name)
            if r is None or r[1] is a:
                # class-level alias such as __bool__ = __nonzero__ counts
                alias = any(isinstance(b, ast.Assign) and any(isinstance(t, ast.Name) and t.id == a.name for t in b.targets)
                            for m2, c2 in repo.mro(mod, c) for b in c2.body)
                if not alias:
                    missing.append(a.name)
                continue
            pa = [p for p in params_of(a) if p not in ("self", "cls")]
            pb = [p for p in params_of(r[1]) if p not in ("self", "cls")]
            if len(pa) != len(pb):
                sig.append("%s%s vs abstract %s" % (a.name, tuple(pb), tuple(pa)))
        check.ob("S", "S|integer.methods." + cname, not missing and not sig, mod.path, c.lineno,
                 extracted="missing %s; signature differences %s" % (missing or "none", sig or "none"),
                 expected="all %d abstract operations implemented with the abstract signature" % len(abstract))


# (function, argument) -> why the value is below 2^64 without a local test
ULONG_REVIEWED = {
    ("IntegerGMP.__init__", "slots * 32"): "slots*32 <= bit_length() of a Python int, far below 2^64",
}


def gmp_ulong_guards(check, repo):
    """Every c_ulong(E) / c_long(E) argument in IntegerGMP is dominated by a
    range test on E in the same function (values beyond 2^64 would wrap)."""
    mod = repo.module("Crypto.Math._IntegerGMP")
    n = 0
    for q, f in sorted(mod.funcs.items()):
        for c in walk_no_nested(f):
            if isinstance(c, ast.Call) and isinstance(c.func, ast.Name) and c.func.id in ("c_ulong", "c_long") and c.args:
                e = c.args[0]
                names = set(x.id for x in ast.walk(e) if isinstance(x, ast.Name))
                if not names:
                    continue
                n += 1
                if isinstance(e, ast.BinOp) and isinstance(e.op, ast.BitAnd) and any(
                        isinstance(x, ast.Constant) and isinstance(x.value, int) and 0 <= x.value < (1 << 63)
                        for x in (e.left, e.right)):
                    continue        # masked with a small constant
                if (q, norm(e)) in ULONG_REVIEWED:
                    continue
                # an enclosing `if` whose test bounds one of the names from both sides, or an abs()/mask
                guarded = False
                p = getattr(c, "_parent", None)
                while p is not None and p is not f:
                    if isinstance(p, ast.If):
                        t = p.test
                        for cmp_ in ast.walk(t):
                            if isinstance(cmp_, ast.Compare):
                                ids = set(x.id for x in ast.walk(cmp_) if isinstance(x, ast.Name))
                                consts = [x.value for x in ast.walk(cmp_) if isinstance(x, ast.Constant) and isinstance(x.value, int)]
                                if ids & names and consts and max(abs(v) for v in consts) <= (1 << 63):
                                    if len(cmp_.ops) == 2 or any(isinstance(o, (ast.Lt, ast.LtE)) for o in cmp_.ops):
                                        guarded = True
                    p = getattr(p, "_parent", None)
                if not guarded:
                    # dominated by an earlier raising guard on the same name in the function
                    for g in walk_no_nested(f):
                        if isinstance(g, ast.If) and g.lineno < c.lineno and any(isinstance(x, ast.Raise) for b in g.body for x in ast.walk(b)):
                            ids = set(x.id for x in ast.walk(g.test) if isinstance(x, ast.Name))
                            consts = [x.value for x in ast.walk(g.test) if isinstance(x, ast.Constant) and isinstance(x.value, int)]
                            if ids & names and consts:
                                guarded = True
                if not guarded or n <= 2:
                    check.ob("F", "F|gmp.ulong|%s|%s" % (q, norm(e)[:30]), guarded, mod.path, c.lineno,
                             extracted="%s(%s) in %s %s" % (c.func.id, norm(e), q, "under a range test" if guarded else "WITHOUT a range test (ctypes wraps modulo 2^64 silently)"),
                             expected="native unsigned-long fast paths are only taken for operands proven small")
    if n < 10:
        raise AnalysisError("only %d c_ulong sites in IntegerGMP" % n)


def custom_lengths(check, repo):
    mod = repo.module("Crypto.Math._IntegerCustom")
    cls = repo.cls(mod, "IntegerCustom")
    for meth, args, vals in (("inplace_pow", lambda b, e, m: {"exponent": e, "modulus": m}, [
            (3, 5, 7), (3, (1 << 80) + 12345, 89299), (2, 65537, (1 << 127) - 1), ((1 << 70) + 1, 3, 101), (5, (1 << 200) + 1, (1 << 64) + 13)]),):
        fn = repo.func(mod, "IntegerCustom." + meth)
        wrong = []
        for (b, e, m) in vals:
            it = Interp(repo, max_depth=3, extra_models={"Crypto.Random.random.getrandbits": lambda i, a, kw, st, node: 7})
            st = State()
            me = it.new_obj(st, mod, cls, havoc=False)
            st.heap[me.ident]["_value"] = b
            res = it.run(mod, fn, args(b, e, m), self_obj=me, state=st)
            ff = [ev for ev in res.events if ev.kind == "ffi" and ev.name.endswith("monty_pow")]
            if len(ff) != 1:
                wrong.append("monty_pow called %d times for (%d, ~2^%d, %d)" % (len(ff), b, e.bit_length(), m))
                continue
            a = ff[0].args[0]
            need = max((x.bit_length() + 7) // 8 for x in (b % m, e, m))
            lens = [len(x) if isinstance(x, (bytes, bytearray)) else getattr(x, "n", None) for x in a[:4]]
            if len(set(lens)) != 1 or lens[0] != a[4] or lens[0] < need:
                wrong.append("operand lengths %s, length argument %r, %d bytes needed for the largest operand" % (lens, a[4], need))
            elif int.from_bytes(a[2], "big") != e or int.from_bytes(a[3], "big") != m:
                wrong.append("exponent/modulus bytes do not encode the operands")
        check.ob("F", "F|custom.%s.lengths" % meth, not wrong, mod.path, fn.lineno,
                 extracted="; ".join(wrong[:2]) if wrong else "%d operand triples: output, base, exponent and modulus all have the length passed to monty_pow, large enough for the largest operand" % len(vals),
                 expected="monty_pow reads `len` bytes of each operand: all four buffers have that length and no operand is truncated")


def primality(check, repo):
    mod = repo.module(PR)
    fn = repo.func(mod, "test_probable_prime")
    consts = {}
    for name in ("COMPOSITE", "PROBABLY_PRIME"):
        v = mod.top_assign.get(name)
        if not v or not isinstance(v[0], ast.Constant):
            raise AnalysisError("anchor vanished: Primality.%s" % name)
        consts[name] = v[0].value
    C, P = consts["COMPOSITE"], consts["PROBABLY_PRIME"]
    wrong = []
    for mr in (C, P):
        for lu in (C, P):
            calls = []
            it = Interp(repo, max_depth=1, extra_models={
                PR + ".miller_rabin_test": lambda i, a, kw, st, node, mr=mr, calls=calls: calls.append("mr") or mr,
                PR + ".lucas_test": lambda i, a, kw, st, node, lu=lu, calls=calls: calls.append("lucas") or lu})
            res = it.run(mod, fn, {"candidate": (1 << 127) - 1 if True else 0, "randfunc": UNK})
            r = [o for o in res.returns() if "call:miller_rabin_test" in o.must]
            if not r:
                raise AnalysisError("anchor vanished: no exit of test_probable_prime is dominated by miller_rabin_test")
            vals = set(o.value for o in r)
            want = P if (mr == P and lu == P) else C
            if vals != set([want]):
                wrong.append("Miller-Rabin=%s Lucas=%s -> %s (expected %s)" % (
                    "prime" if mr == P else "composite", "prime" if lu == P else "composite",
                    sorted(vals, key=repr), "PROBABLY_PRIME" if want == P else "COMPOSITE"))
            if mr == P and "lucas" not in calls:
                wrong.append("Lucas test not run after a passing Miller-Rabin")
    check.ob("D", "D|primality.combined", not wrong, mod.path, fn.lineno,
             extracted="; ".join(wrong[:3]) if wrong else "4 outcome combinations: PROBABLY_PRIME iff Miller-Rabin and Lucas both pass; Lucas always runs after a passing Miller-Rabin",
             expected="a candidate is declared probably prime only if neither test answers COMPOSITE (FIPS 186-4 C.3)")
    # the Miller-Rabin schedule
    sched = None
    for n in walk_no_nested(fn):
        if isinstance(n, ast.Assign) and any(isinstance(t, ast.Name) and t.id == "mr_ranges" for t in n.targets):
            try:
                sched = ast.literal_eval(n.value)
            except Exception:
                sched = None
    ok = bool(sched) and all(sched[i][0] < sched[i + 1][0] and sched[i][1] >= sched[i + 1][1] for i in range(len(sched) - 1)) \
        and all(x[1] >= 1 for x in sched)
    check.ob("K-pw", "K-pw|primality.mr_schedule", ok, mod.path, fn.lineno, extracted="mr_ranges = %r" % (sched,),
             expected="increasing size thresholds, non-increasing iteration counts, every count >= 1")
    # generate_probable_prime returns only a candidate that passed
    gfn = repo.func(mod, "generate_probable_prime")
    for verdicts, lab in (([C, C, P], "third candidate passes"), ([P], "first candidate passes")):
        seq = list(verdicts)
        drawn = []

        def m_tp(i, a, kw, st, node, seq=seq):
            return seq.pop(0) if seq else P

        def m_rand(i, a, kw, st, node, drawn=drawn):
            v = (1 << 511) + 2 * len(drawn) + 100
            drawn.append(v)
            return v
        it = Interp(repo, max_depth=1, extra_models={PR + ".test_probable_prime": m_tp,
                                                     "Crypto.Math._IntegerGMP.IntegerGMP.random": m_rand,
                                                     "Crypto.Math._IntegerBase.IntegerBase.random": m_rand})
        res = it.run(mod, gfn, {"kwargs": {"exact_bits": 512, "randfunc": UNK}})
        r = res.returns()
        want = (drawn[len(verdicts) - 1] | 1) if len(drawn) >= len(verdicts) else None
        got = r[0].value if len(r) == 1 else "<%d exits>" % len(r)
        check.ob("D", "D|primality.generate|" + lab, got == want and want is not None, mod.path, gfn.lineno,
                 extracted="returns %s after %d candidates" % ("the passing candidate" if got == want else repr(got)[:40], len(drawn)),
                 expected="only a candidate for which test_probable_prime did not answer COMPOSITE is returned; candidates are odd")


def number_rows(check, repo):
    """Crypto.Util.number: exact integer helpers on operands far beyond 2^53 (so that any detour through a float,
    a fixed-width type or a truncating division shows) and at their edges."""
    NM = "Crypto.Util.number"
    mod = repo.module(NM)
    W = 1 << 64
    big = [0, 1, 2, 3, 7, 8, 9, 255, 256, W - 1, W, W + 1, (1 << 53) + 1, (1 << 200) + 1, (1 << 521) - 1, 10 ** 40 + 7]
    rows = []
    for n in big:
        for d in (1, 2, 3, 8, 255, 256, W - 1, W, (1 << 100) + 1, 10 ** 20):
            rows.append(("ceil_div", (n, d), ("v", -(-n // d))))
    rows += [("ceil_div", (5, 0), ("r", "ZeroDivisionError")), ("ceil_div", (-5, 2), ("r", "ValueError")), ("ceil_div", (5, -2), ("r", "ValueError")),
             ("ceil_div", (0, 0), ("r", "ZeroDivisionError"))]
    for n in big:
        rows.append(("size", (n,), ("v", n.bit_length())))
    rows.append(("size", (-1,), ("r", "ValueError")))
    for u, v in ((3, 7), (3, W + 13), (10 ** 30 + 1, (1 << 127) - 1), (-3, 7), (W + 6, 7), (1, 2), (5, (1 << 255) - 19), (0, 1), (12345, 1)):
        rows.append(("inverse", (u, v), ("v", pow(u, -1, v))))
    rows += [("inverse", (3, 0), ("r", "ZeroDivisionError")), ("inverse", (3, -7), ("r", "ValueError")), ("inverse", (6, 9), ("r", "ValueError")),
             ("inverse", (0, 7), ("r", "ValueError"))]
    import math as _m
    for x, y in ((0, 0), (0, 5), (12, 18), (W, 1 << 70), ((1 << 127) - 1, (1 << 61) - 1), (10 ** 40, 10 ** 35 + 10 ** 30), (-12, 18)):
        rows.append(("GCD", (x, y), ("v", _m.gcd(x, y))))
    for n in big + [(1 << 64) - 1, 1 << 63]:
        for bs in (0, 1, 4, 8, 9):
            raw = n.to_bytes(max(1, (n.bit_length() + 7) // 8), "big")
            want = raw if bs == 0 else bytes((-len(raw)) % bs) + raw
            rows.append(("long_to_bytes", (n, bs), ("v", want)))
    rows += [("long_to_bytes", (-1, 0), ("r", "ValueError")), ("long_to_bytes", (5, -1), ("r", "ValueError"))]
    for b in (b"", b"\x00", b"\x01", b"\x00\x00\x01\x00", bytes(range(1, 10)), b"\xff" * 17, bytes(7) + b"\x80" + bytes(40), bytes(range(200, 233))):
        rows.append(("bytes_to_long", (b,), ("v", int.from_bytes(b, "big"))))
    defs = {}
    for node in ast.walk(mod.tree):
        if isinstance(node, ast.FunctionDef) and node.name in ("ceil_div", "size", "inverse", "GCD", "long_to_bytes", "bytes_to_long"):
            defs.setdefault(node.name, []).append(node)
    n = 0
    by = {}
    for fname, args, exp in rows:
        cands = defs.get(fname)
        if not cands:
            if fname == "GCD":
                # bound to math.gcd on every supported interpreter: module-level assignment
                ok = any(isinstance(x, ast.Assign) and norm(x.value) == "math.gcd" and norm(x.targets[0]) == "GCD" for x in ast.walk(mod.tree))
                if not ok:
                    raise AnalysisError("anchor vanished: Crypto.Util.number.GCD")
                continue
            raise AnalysisError("anchor vanished: Crypto.Util.number.%s" % fname)
        for fn in cands:
            it = Interp(repo, max_depth=4)
            it.unroll_limit = 1200
            ps = params_of(fn)
            res = it.run(mod, fn, dict(zip(ps, args)), bind_defaults=True)
            rets, rs = res.returns(), res.raise_classes()
            n += 1
            if exp[0] == "v":
                got = rets[0].value if len(rets) == 1 and not rs else None
                if isinstance(got, bytearray):
                    got = bytes(got)
                good = len(rets) == 1 and not rs and type(got) is type(exp[1]) and got == exp[1]
            else:
                good = not rets and set(rs) == {exp[1]}
            if not good:
                def short(v):
                    t = repr(v)
                    return t if len(t) < 50 else t[:24] + ".." + t[-12:]
                by.setdefault(fname, []).append("%s%s (line %d) -> %s, expected %s" % (
                    fname, short(args), fn.lineno, short([r.value for r in rets]) + (" raises %s" % sorted(rs) if rs else ""), short(exp[1])))
    what = {"ceil_div": "ceil_div(n, d) = ceil(n / d) exactly for operands up to 2^521; zero / negative operands refused",
            "size": "size(N) = bit length of N", "inverse": "inverse(u, v) * u = 1 mod v, reduced to [0, v); non-invertible / zero / negative modulus refused",
            "GCD": "GCD is math.gcd", "long_to_bytes": "long_to_bytes(n, blocksize) = minimal big-endian encoding of n (one zero byte for 0), left-padded to a multiple of blocksize",
            "bytes_to_long": "bytes_to_long(s) = big-endian value of s (empty string: 0)"}
    for fname in ("ceil_div", "size", "inverse", "GCD", "long_to_bytes", "bytes_to_long"):
        bad = by.get(fname, [])
        check.ob("K-pw", "K-pw|number.%s" % fname, not bad, mod.path, (defs.get(fname) or [mod.tree])[0].lineno if defs.get(fname) else 0,
                 extracted=("%d rows differ: " % len(bad) + "; ".join(bad[:3])) if bad else "all rows as the exact integer reference",
                 expected=what[fname])
    check.count("number_rows", n)


def run(check, ctx):
    repo = ctx.repo
    sibling_methods(check, repo)
    gmp_ulong_guards(check, repo)
    custom_lengths(check, repo)
    primality(check, repo)
    number_rows(check, repo)
