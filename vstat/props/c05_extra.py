"""C05 extras: RSA.generate prime filters, ECC key/point/import guards."""
import ast
import math

from ..absint import Interp
from ..absstate import State
from ..absval import ABytes, UNK, AObj, ABuiltin, AClass, is_unk, truth
from ..core import AnalysisError
from ..pydb import norm
from ..rules_g import (Row, run_row, ObsRow, run_obs, I, S, Mult, Pred, OBJ, B,
                       INT, LEN, INJECT, BIG, realise)
from ..rules_v import check_decisive_test, check_dominates

RSA = "Crypto.PublicKey.RSA"
ECC = "Crypto.PublicKey.ECC"
PT = "Crypto.PublicKey._point"
P256 = 0xffffffff00000001000000000000000000000000ffffffffffffffffffffffff
P25519 = (1 << 255) - 19
P448 = (1 << 448) - (1 << 224) - 1


def curve_ids(repo):
    m = repo.module(PT)
    c = repo.cls(m, "CurveID")
    ids = {}
    for b in c.body:
        if isinstance(b, ast.Assign) and isinstance(b.value, ast.Constant):
            ids[b.targets[0].id] = b.value.value
    need = ("P256", "ED25519", "ED448", "CURVE25519", "CURVE448")
    for n in need:
        if n not in ids:
            raise AnalysisError("anchor vanished: CurveID.%s" % n)
    return ids


def rsa_generate_filters(check, repo):
    """Extract filter_p / filter_q as closures and evaluate them at the
    FIPS 186-4 B.3.3 boundaries."""
    mod = repo.module(RSA)
    fn = repo.func(mod, "generate")
    for bits in (2048, 1025, 3071, 1024):
        size_q = bits // 2
        size_p = bits - size_q
        lim_p = math.isqrt(1 << (2 * size_p - 1))
        lim_q = math.isqrt(1 << (2 * size_q - 1))
        e = 65537
        # a candidate with gcd(c-1, e) = 1 around the limits: limits are huge, so
        # c-1 is a multiple of 65537 only by accident; pick neighbours and skip those
        calls = []
        P0 = lim_p + 1000
        while math.gcd(P0 - 1, e) != 1:
            P0 += 1

        def m_gpp(i, a, kw, st, node, calls=calls, P0=P0, lim_p=lim_p, lim_q=lim_q, bits=bits):
            f = kw.get("prime_filter")
            idx = len(calls)
            lim = lim_p if idx == 0 else lim_q
            res = {}
            pts = [lim - 1, lim, lim + 1, lim + 2]
            if idx == 1:
                dist = 1 << (bits // 2 - 100)
                pts += [P0 + dist, P0 + dist + 1, P0 - dist, P0 - dist - 1]
            for c in pts:
                if math.gcd(c - 1, 65537) != 1:
                    continue
                v = i.call_value(f, [c], {}, st, node) if f is not None else None
                i._diverged = None
                res[c] = truth(v)
            calls.append((kw.get("exact_bits"), res, kw.get("randfunc")))
            return P0 if idx == 0 else lim_q + 5
        it = Interp(repo, max_depth=2, extra_models={
            "Crypto.Math.Primality.generate_probable_prime": m_gpp})
        RF = ABuiltin("vstat.randfunc")
        it.run(mod, fn, {"bits": bits, "randfunc": RF, "e": 65537})
        ok = len(calls) >= 2
        msgs = []
        if ok:
            (bp, rp, rfp), (bq, rq, rfq) = calls[0], calls[1]
            if bp != size_p or bq != size_q:
                ok = False
                msgs.append("prime sizes %s/%s, expected %d/%d" % (bp, bq, size_p, size_q))
            for c, got in sorted(rp.items()):
                want = c > lim_p
                if got is not want:
                    ok = False
                    msgs.append("filter_p(sqrt2*2^(%d-1)%+d) = %s, B.3.3 step 4.4 requires %s" % (size_p, c - lim_p, got, want))
            dist = 1 << (bits // 2 - 100)
            for c, got in sorted(rq.items()):
                want = c > lim_q and abs(c - P0) > dist
                if got is not want:
                    ok = False
                    msgs.append("filter_q(%s) = %s, B.3.3 steps 5.4/5.5 require %s" % (
                        "limit%+d" % (c - lim_q) if abs(c - lim_q) < 10 else "p%+d*dist%+d" % (
                            (1 if c > P0 else -1), abs(c - P0) - dist), got, want))
            for nm, rf in (("p", rfp), ("q", rfq)):
                if not (isinstance(rf, ABuiltin) and rf.name == "vstat.randfunc"):
                    ok = False
                    msgs.append("prime %s is not drawn from the caller's randfunc" % nm)
        else:
            msgs.append("generate_probable_prime called %d times" % len(calls))
        check.ob("G", "G|rsa.generate.filters.%d" % bits, ok, mod.path, fn.lineno,
                 extracted="; ".join(msgs) if msgs else
                 "bits=%d: both primes > floor(sqrt(2^(2*size-1))) (sizes %d/%d), |p-q| > 2^(bits/2-100), "
                 "both drawn with the caller's randfunc" % (bits, size_p, size_q),
                 expected="FIPS 186-4 B.3.3: p, q >= sqrt(2)*2^(size-1) (so that n has exactly "
                          "`bits` bits, also for odd bits), gcd(p-1,e)=1, |p-q| > 2^(bits/2-100)")


def ecc_rows(repo, ids):
    R = []
    cur = lambda cid, **kw: OBJ(id=cid, order=BIG, canonical="X", **kw)
    inj = lambda cid: {"curve_name not in _curves": False, "_curves[curve_name]": cur(cid)}
    hash_models = {"Crypto.Hash.SHA512.new": lambda i, a, kw, st, node: i.new_obj(st, label="h"),
                   "Crypto.Hash.SHAKE256.new": lambda i, a, kw, st, node: i.new_obj(st, label="h")}
    me = OBJ((ECC, "EccKey"), _havoc=False)
    R.append(Row("ecc.d", "C05", ECC, "EccKey.__init__", I(1, BIG - 1),
                 lambda v: {"args": {"kwargs": {"curve": "X", "d": v}}},
                 self_obj=me, inject=inj(ids["P256"]), extra_points=(BIG, 2 * BIG),
                 cite="SEC 1 3.2.1: private scalar in [1, n-1]"))
    for cname, n in (("ED25519", 32), ("ED448", 57), ("CURVE25519", 32), ("CURVE448", 56)):
        R.append(Row("ecc.seed.len." + cname, "C05", ECC, "EccKey.__init__", S(n),
                     lambda v: {"args": {"kwargs": {"curve": "X", "seed": ABytes(v)}}} if v >= 0 else None,
                     self_obj=me, inject=inj(ids[cname]), models=hash_models,
                     extra_points=(n - 1, n, n + 1, 32, 56, 57, 64),
                     cite="RFC 8032 5.1.5/5.2.5, RFC 7748 5"))
    # d xor seed, right kind for the curve
    cases = []
    for cname in ("P256", "ED25519", "CURVE448"):
        nist = cname == "P256"
        n = {"P256": 0, "ED25519": 32, "CURVE448": 56}[cname]
        for lab, kw, ok in (
                ("d only", {"d": 5}, nist), ("seed only", {"seed": ABytes(n or 32)}, not nist),
                ("d and seed", {"d": 5, "seed": ABytes(n or 32)}, False),
                ("neither, no point", {}, False),
                ("point only", {"point": OBJ(curve="X")}, True)):
            cases.append(("%s: %s" % (cname, lab), (cname, tuple(sorted(kw.items(), key=lambda x: x[0]))), ok))
    table = dict((c[1], c[2]) for c in cases)
    R.append(Row("ecc.seed.xor", "C05", ECC, "EccKey.__init__",
                 Pred(lambda c: table[c], "exactly one of d (NIST curves) / seed (EdDSA, XDH), or a public point"),
                 lambda c: {"args": {"kwargs": dict([("curve", "X")] + list(c[1]))},
                            "inject": inj(ids[c[0]])},
                 self_obj=me, models=hash_models, cases=[(c[0], c[1]) for c in cases],
                 cite="EccKey parameters"))
    # ---- SEC1 / EdDSA / XDH decoding --------------------------------------------------
    reg = {"_curves.items()": [("P-256", OBJ(oid="1.2.840.10045.3.1.7", p=P256, b=5))]}
    cm = {"Crypto.PublicKey.ECC.construct": lambda i, a, kw, st, node: i.new_obj(st, label="key")}
    for ln, okt in ((65, (4,)), (33, (2, 3))):
        R.append(Row("sec1.type.%d" % ln, "C05", ECC, "_import_public_der", S(*okt),
                     INJECT("assign:point_type"),
                     base={"ec_point": ABytes(ln), "curve_oid": None, "curve_name": "P-256"},
                     inject=reg, models=cm, domain=I(0, 255), extra_points=(0, 1, 2, 3, 4, 5, 6, 7),
                     max_depth=1, cite="SEC 1 2.3.4: 02/03 compressed (1+m), 04 uncompressed (1+2m)"))
    for t, n in ((4, 65), (2, 33), (3, 33)):
        R.append(Row("sec1.len.%d" % t, "C05", ECC, "_import_public_der", S(n), LEN("ec_point"),
                     base={"curve_oid": None, "curve_name": "P-256"},
                     inject=dict(reg, **{"assign:point_type": t}), models=cm, domain=I(1, 200),
                     extra_points=(n - 1, n, n + 1, 33, 65, 64, 66), max_depth=1,
                     cite="SEC 1 2.3.4"))
    for fname, n in (("_import_ed25519_public_key", 32), ("_import_ed448_public_key", 57),
                     ("_import_curve25519_public_key", 32), ("_import_curve448_public_key", 56)):
        R.append(Row("pk.len." + fname, "C05", ECC, fname, S(n), LEN("encoded"),
                     inject={"_curves['curve448'].p": P448} if "ed448" in fname else {},
                     extra_points=(n - 1, n, n + 1, 32, 56, 57), max_depth=1,
                     cite="RFC 8032 5.1.3/5.2.3, RFC 7748 5"))
    R.append(Row("ed25519.pk.y", "C05", ECC, "_import_ed25519_public_key", I(None, P25519 - 1),
                 INJECT("assign:point_y"), base={"encoded": ABytes(32)}, domain=I(P25519 - 1, None), exact=False,
                 extra_points=(P25519, P25519 + 18), max_depth=1,
                 cite="RFC 8032 5.1.3 step 1: y < p (non-canonical encodings refused)"))
    R.append(Row("ed448.pk.y", "C05", ECC, "_import_ed448_public_key", I(None, P448 - 1),
                 INJECT("assign:point_y"), base={"encoded": ABytes(57)},
                 inject={"_curves['curve448'].p": P448}, domain=I(P448 - 1, None), exact=False,
                 extra_points=(P448, P448 + 1), max_depth=1, cite="RFC 8032 5.2.3 step 1"))
    return R


def clamp_rows(check, repo, ids):
    cur = lambda cid: OBJ(id=cid, order=BIG, canonical="X")
    ones = b"\xff"
    H512 = bytes(range(0x80, 0xC0))
    H114 = bytes((3 * i + 0x81) & 0xFF for i in range(114))

    def hobj(i, a, kw, st, node):
        return i.new_obj(st, label="h")
    mm = {"digest": lambda i, base, a, kw, st, node: H512,
          "read": lambda i, base, a, kw, st, node: H114[:a[0]] if a and isinstance(a[0], int) else ABytes(None)}
    models = {"Crypto.Hash.SHA512.new": hobj, "Crypto.Hash.SHAKE256.new": hobj}

    def clamp25519(b):
        t = bytearray(b[:32])
        t[0] &= 0xF8
        t[31] = (t[31] & 0x7F) | 0x40
        return int.from_bytes(t, "little")

    def clamp448x(b):
        t = bytearray(b[:56])
        t[0] &= 0xFC
        t[55] |= 0x80
        return int.from_bytes(t, "little")

    def clamp_ed448(b):
        t = bytearray(b[:57])
        t[0] &= 0xFC
        t[55] |= 0x80
        t[56] = 0
        return int.from_bytes(t, "little")
    specs = [
        ("CURVE25519", ones * 32, clamp25519(ones * 32), None),
        ("CURVE25519", bytes(32), clamp25519(bytes(32)), None),
        ("CURVE448", ones * 56, clamp448x(ones * 56), None),
        ("CURVE448", bytes(56), clamp448x(bytes(56)), None),
        ("ED25519", ones * 32, clamp25519(H512), H512[32:]),
        ("ED448", ones * 57, clamp_ed448(H114), H114[57:]),
    ]
    for cname, seed, want_d, want_prefix in specs:
        def obs(res, it):
            outs = [o for o in res.returns() if o.state is not None]
            if len(outs) != 1:
                return "<%d normal exits>" % len(outs)
            h = outs[0].state.heap.get(it.self_obj.ident, {})
            return (h.get("_d"), h.get("_prefix") if want_prefix is not None else None)
        run_obs(check, repo, ObsRow(
            "ecc.clamp.%s.%02x" % (cname, seed[0]), "C05", ECC, "EccKey.__init__", [0], lambda v: {},
            obs, lambda v, w=(want_d, want_prefix): w,
            base={"kwargs": {"curve": "X", "seed": seed}},
            self_obj=OBJ((ECC, "EccKey"), _havoc=False),
            inject={"curve_name not in _curves": False, "_curves[curve_name]": cur(ids[cname])},
            models=models, method_models=mm, rule="K",
            what="private scalar = clamped little-endian integer (and prefix = second half of the hash)",
            cite="RFC 7748 5 (decodeScalar25519/448), RFC 8032 5.1.5 / 5.2.5"))


def run(check, ctx):
    repo = ctx.repo
    # generate(): the private values are drawn from the documented intervals (shared with C18)
    from .c18_extra import elgamal_consumers
    elgamal_consumers(check, repo)
    ids = curve_ids(repo)
    # on-curve test in C: the two sides of the curve equation are compared in full
    from .. import crules
    n = crules.whole_array_compare(check, ctx.cdb, "src/ed25519.c", "ed25519_new_point", rule="D")
    if n < 1:
        raise AnalysisError("anchor vanished: memcmp of the curve equation in ed25519_new_point")
    rsa_generate_filters(check, repo)
    for r in ecc_rows(repo, ids):
        run_row(check, repo, r)
    clamp_rows(check, repo, ids)
    # ---- EccPoint: coordinate size; (range: finding) ----------------------------------
    pm = {"Crypto.PublicKey._point._curves": None}
    curveobj = OBJ(id=ids["P256"], canonical="NIST P-256", rawlib=OBJ(), context=OBJ(), p=P256)
    P521 = (1 << 521) - 1
    curve521 = OBJ(id=ids["P256"], canonical="NIST P-521", rawlib=OBJ(), context=OBJ(), p=P521)
    for coord, other in (("x", "y"), ("y", "x")):
        run_row(check, repo, Row("point.range.p521." + coord, "C05", PT, "EccPoint.__init__", I(0, P521 - 1),
                                 INT(coord), base={other: 5, "curve": "p521"},
                                 self_obj=OBJ((PT, "EccPoint"), _havoc=False),
                                 inject={"_curves[curve]": curve521, "self.size_in_bytes()": 66},
                                 extra_points=(P521 - 1, P521, P521 + 1), domain=I(0, (1 << 528) - 1),
                                 max_depth=1, cite="SEC 1 3.2.2.1 step 2: coordinates in [0, p-1] "
                                 "(66 bytes hold values above p = 2^521-1)"))
    run_row(check, repo, Row("point.len", "C05", PT, "EccPoint.__init__", I(0, (1 << 256) - 1),
                             INT("x"), base={"y": 5, "curve": "p256"},
                             self_obj=OBJ((PT, "EccPoint"), _havoc=False),
                             inject={"_curves[curve]": curveobj, "self.size_in_bytes()": 32},
                             extra_points=((1 << 256) - 1, 1 << 256), max_depth=1, exact=False,
                             cite="coordinates fit the field size"))
    run_row(check, repo, Row("point.range", "C05", PT, "EccPoint.__init__", I(0, P256 - 1),
                             INT("x"), base={"y": 5, "curve": "p256"},
                             self_obj=OBJ((PT, "EccPoint"), _havoc=False),
                             inject={"_curves[curve]": curveobj, "self.size_in_bytes()": 32},
                             extra_points=(P256 - 1, P256, P256 + 1), domain=I(0, (1 << 256) - 1),
                             max_depth=1, cite="SEC 1 3.2.2.1 step 2: coordinates in [0, p-1]",
                             note="layered: Python or the native constructor"))
    # ---- ECC.construct: private/public match, Montgomery validation ---------------------
    mod = repo.module(ECC)
    cobj = lambda cid: OBJ(id=cid, order=BIG, canonical="X", G=OBJ())
    for cname, lab in (("P256", "w"), ("ED25519", "ed")):
        it_inj = {"_curves[curve_name]": cobj(ids[cname])}
        _construct_match(check, repo, ids, cname, lab)
    for cname in ("CURVE25519", "CURVE448"):
        _construct_match(check, repo, ids, cname, "m" + cname[5:])
        _validate_called(check, repo, ids, cname, "construct")
        _validate_called(check, repo, ids, cname, "generate")


def _run_construct(repo, ids, cname, kwargs, fname="construct"):
    mod = repo.module(ECC)
    fn = repo.func(mod, fname)
    models = {
        "Crypto.PublicKey._point.EccPoint": lambda i, a, kw, st, node: i.new_obj(st, label="point"),
        "Crypto.PublicKey._point.EccXPoint": lambda i, a, kw, st, node: i.new_obj(st, label="xpoint"),
        "Crypto.PublicKey.ECC.EccKey": lambda i, a, kw, st, node: i.new_obj(st, label="key"),
    }
    mm = {"has_private": lambda i, base, a, kw, st, node: True,
          "validate": lambda i, base, a, kw, st, node: None}
    it = Interp(repo, max_depth=1, extra_models=models, method_models=mm,
                inject={"_curves[curve_name]": None})
    st = State()
    cobj = it.new_obj(st, label="curve", attrs={"id": ids[cname], "order": BIG})
    it.inject = {"_curves[curve_name]": cobj}
    res = it.run(mod, fn, {"kwargs": kwargs}, state=st)
    return res, it, mod, fn


_VPOINT_SRC = """
class _VPoint(object):
    def __mul__(self, k):
        r = self.__class__()
        r.xy = self.pub_xy
        r.x = self.pub_xy[0]
        r.y = self.pub_xy[1]
        return r
    def __rmul__(self, k):
        return self.__mul__(k)
    def __eq__(self, o):
        return self.xy == o.xy
    def __ne__(self, o):
        return not (self.xy == o.xy)
    def copy(self):
        return self
    def is_point_at_infinity(self):
        return False
"""
_VPOINT = []


def _vpoint_class():
    if not _VPOINT:
        tree = ast.parse(_VPOINT_SRC)
        c = tree.body[0]
        for node in ast.walk(tree):
            for ch in ast.iter_child_nodes(node):
                ch._parent = node
        for f in c.body:
            f._qualname = "_VPoint." + f.name
        c._qualname = "_VPoint"
        c._vmethods = dict((f.name, f) for f in c.body if isinstance(f, ast.FunctionDef))
        _VPOINT.append(c)
    return _VPOINT[0]


def _construct_match(check, repo, ids, cname, lab):
    """With both a private part and a public point, construct() must compare the public point computed from the
    private part with the supplied one: interpreted with a stand-in point class (G * d gives a point with chosen
    coordinates), once with the supplied point equal to G * d and once different."""
    mod = repo.module(ECC)
    fn = repo.func(mod, "construct")
    vcls = _vpoint_class()
    xonly = cname.startswith("CURVE")
    supplied = (7, None) if xonly else (7, 9)
    verdicts = {}
    for scenario, pub in (("match", supplied), ("mismatch in x", (8, supplied[1])), ("mismatch in y", (7, 10))):
        if xonly and scenario == "mismatch in y":
            continue

        def mk_point(i, st, xy):
            o = i.new_obj(st, mod, vcls, havoc=False)
            st.heap[o.ident].update({"xy": xy, "x": xy[0], "y": xy[1]})
            return o

        def m_point(i, a, kw, st, node):
            return mk_point(i, st, (a[0], a[1]) if not xonly else (a[0], None))

        def m_key(i, a, kw, st, node):
            k = i.new_obj(st, label="key")
            st.heap[k.ident].update({"d": 5, "pointQ": kw.get("point"), "_d": 5, "curve": "X"})
            return k
        models = {"Crypto.PublicKey._point.EccPoint": m_point, "Crypto.PublicKey._point.EccXPoint": m_point,
                  "Crypto.PublicKey.ECC.EccKey": m_key}
        mm = {"has_private": lambda i, base, a, kw, st, node: True, "validate": lambda i, base, a, kw, st, node: None}
        it = Interp(repo, max_depth=3, extra_models=models, method_models=mm)
        st = State()
        G = it.new_obj(st, mod, vcls, havoc=False)
        st.heap[G.ident].update({"pub_xy": pub, "xy": (1, 2), "x": 1, "y": 2})
        cobj = it.new_obj(st, label="curve", attrs={"id": ids[cname], "order": BIG, "G": G})
        it.inject = {"_curves[curve_name]": cobj}
        priv = {"d": 5} if cname == "P256" else {"seed": ABytes(32 if "25519" in cname else (57 if cname == "ED448" else 56))}
        kw = dict(curve="X", point_x=7, **priv)
        if not xonly:
            kw["point_y"] = 9
        res = it.run(mod, fn, {"kwargs": kw}, state=st)
        if res.rejected():
            verdicts[scenario] = "refused (%s)" % ",".join(sorted(set(k[1] for k in res.killers if k[0] == "raise")) or res.raise_classes())
        elif res.raises():
            verdicts[scenario] = "undecided"
        else:
            verdicts[scenario] = "accepted"
    ok = verdicts.get("match") == "accepted" and all(v == "refused (ValueError)" for k, v in verdicts.items() if k != "match")
    check.ob("G", "G|ecc.match." + lab, ok, mod.path, fn.lineno,
             extracted="construct(curve=%s, private part d, public point): %s" % (cname, "; ".join("%s -> %s" % kv for kv in sorted(verdicts.items()))),
             expected="the supplied public point is compared with G*d: equal -> accepted, different -> ValueError",
             note="property C05: mismatched private/public parts are refused")


def _validate_called(check, repo, ids, cname, fname):
    if fname == "construct":
        kw = dict(curve="X", point_x=7)
    else:
        kw = dict(curve="X")
    res, it, mod, fn = _run_construct(repo, ids, cname, kw, fname)
    rets = res.returns()
    bad = [o for o in rets if "call:validate" not in o.must]
    check.ob("D", "D|ecc.validate.%s.%s" % (fname, cname), bool(rets) and not bad, mod.path, fn.lineno,
             extracted="%d normal exits of %s() on %s, %d without curve.validate(pointQ)" % (
                 len(rets), fname, cname, len(bad)),
             expected="every Montgomery key handed out passed the low-order deny list "
                      "(RFC 7748 6.1/6.2)")
