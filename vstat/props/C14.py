"""C14 — big-integer arithmetic exact in every back-end; primality tests sound (structural slice)."""
import ast
import math

from ..absint import Interp
from ..absstate import State
from ..absval import ABytes, UNK, AObj, ABuiltin, AClass, is_unk
from ..core import AnalysisError
from ..pydb import norm, params_of, walk_no_nested
from ..rules_g import (Row, run_row, ObsRow, run_obs, I, S, Pred, OBJ, B, INT,
                       LEN, INJECT, realise)

EXPLANATION = (
    "The Python code of the three Integer back-ends is interpreted abstractly, "
    "method by method, on one operand table (about 3400 rows per back-end: 0, "
    "1, small, negative, and values on both sides of the 16-bit, 32-bit and "
    "64-bit fast-path limits and of 2^106 / 2^1024 for square roots) and every "
    "observable result - value, result type, exception class - is compared with "
    "Python's own integers and the checker's number theory (isqrt, gcd, Jacobi "
    "symbol, modular inverse). IntegerNative is interpreted directly; "
    "IntegerGMP over a model of the libgmp entry points it declares (libgmp is "
    "assumed to implement its documented semantics; ctypes' c_ulong wraps modulo "
    "2^64), so a wrapper that takes an unsigned-long fast path for an operand "
    "that does not fit, or picks the wrong rounding primitive, shows as a wrong "
    "row; IntegerCustom over a model of monty_pow that insists on equal operand "
    "lengths. S: every abstract method of IntegerBase is implemented by the "
    "three back-ends with a compatible signature; c_ulong() arguments are under "
    "a range test; IntegerCustom hands monty_pow byte strings of one common "
    "sufficient length. Primality skeleton: test_probable_prime answers "
    "PROBABLY_PRIME iff neither Miller-Rabin nor Lucas answered COMPOSITE (all "
    "four outcome combinations); generate_probable_prime only returns a candidate "
    "that passed; the Miller-Rabin schedule is a decreasing step function. Not "
    "src/bignum.c (ge, sub, addmul) is interpreted on the C evaluator on all "
    "vectors of 1..3 words over {0, 1, 2^64-1}; src/mont.c (encode/decode, add, "
    "sub, mult with the dedicated P-256/P-384/P-521/Ed448 reductions and the "
    "generic one) on boundary operands for seven moduli, against Python's "
    "modular arithmetic; src/modexp.c / modexp_utils.c: the exponent scanners "
    "for every window size, scatter/gather for every index, word/byte "
    "conversion around word boundaries, monty_pow = pow(b, e, m) on "
    "window-boundary exponents for 1..3-word moduli. Not decided: exactness of "
    "libgmp, the C arithmetic beyond those boundary tables, that MR/Lucas as "
    "coded are the mathematical tests.")


def run(check, ctx):
    from . import c14_extra, int_table
    n = 0
    for be in ("native", "gmp", "custom"):
        n += int_table.backend_table(check, ctx.repo, be, refusal_ok=("lshift_big",))
    if n < 9000:
        raise AnalysisError("only %d integer rows interpreted (confirmed: 10095)" % n)
    c14_extra.run(check, ctx)
    # the custom back-end's C arithmetic: multi-word primitives and the Montgomery layer
    from . import c_mont
    c_mont.mont_tables(check, ctx, with_inverse=(ctx.tier == "thorough"))
    from . import c_modexp
    c_modexp.modexp_tables(check, ctx)
    check.undecided.append("exactness of libgmp; C Montgomery results outside the operand tables; primality verdicts beyond the candidate "
                           "tables; the error bound of the Miller-Rabin schedule")
