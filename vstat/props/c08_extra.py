"""C08 extras: writer rows (OpenSSH mpint, PKCS#1, RFC 5915, SPKI) and reader rows."""
import ast

from ..absint import Interp
from ..absstate import State
from ..absval import ABytes, UNK, AObj, is_unk
from ..core import AnalysisError
from ..pydb import norm
from ..rules_g import (ObsRow, run_obs, OBJ, realise, local_at_exit, make_snippet)
from ..spec import der

RSA = "Crypto.PublicKey.RSA"
DSA = "Crypto.PublicKey.DSA"
ECC = "Crypto.PublicKey.ECC"


def top(byte, n=4, tail=0x11):
    """An n-byte integer whose most significant byte is `byte`."""
    return int.from_bytes(bytes([byte]) + bytes([tail]) * (n - 1), "big")


def run(check, ctx):
    repo = ctx.repo
    fixed_width_rows(check, repo)
    roundtrip_rows(check, repo)
    ecc_roundtrip_rows(check, repo)
    sec1_toy_rows(check, repo)
    identifier_tables(check, repo)
    pbes2_roundtrip_rows(check, repo, thorough=ctx.tier == "thorough")
    pem_padding_rows(check, repo)
    passphrase_encoding_siblings(check, repo)
    b64 = {"binascii.b2a_base64": lambda i, a, kw, st, node: b"<B64>\n"}
    # ---- OpenSSH public key writers: RFC 4251 mpint sign byte --------------------------
    for tb in (0x7F, 0x80, 0x81, 0xFF, 0x01):
        e, n = top(tb, 3), top(tb, 5, 0x21)
        want = der.ssh_string(b"ssh-rsa") + der.ssh_string(der.mpint(e)) + der.ssh_string(der.mpint(n))
        run_obs(check, repo, ObsRow(
            "ssh.rsa.mpint.%02x" % tb, "C08", RSA, "RsaKey.export_key", [0], lambda v: {},
            lambda res, it: local_at_exit(res, "keystring"), lambda v, want=want: want,
            base={"format": "OpenSSH", "passphrase": None, "pkcs": 1, "protection": None,
                  "randfunc": None, "prot_params": None},
            self_obj=OBJ((RSA, "RsaKey"), _havoc=False, _e=e, _n=n), models=b64, rule="K",
            what="string 'ssh-rsa', mpint e, mpint n (a 00 byte is prepended iff the top bit is set)",
            cite="RFC 4253 6.6, RFC 4251 5 (mpint)"))
        p, q, g, y = top(tb, 4), top(tb, 3, 0x31), top(tb, 4, 0x41), top(tb, 4, 0x51)
        want = der.ssh_string(b"ssh-dss") + b"".join(der.ssh_string(der.mpint(x)) for x in (p, q, g, y))
        run_obs(check, repo, ObsRow(
            "ssh.dsa.mpint.%02x" % tb, "C08", DSA, "DsaKey.export_key", [0], lambda v: {},
            lambda res, it: local_at_exit(res, "keystring"), lambda v, want=want: want,
            base={"format": "OpenSSH", "pkcs8": None, "passphrase": None, "protection": None,
                  "randfunc": None},
            self_obj=OBJ((DSA, "DsaKey"), _havoc=False, _key={"p": p, "q": q, "g": g, "y": y}),
            models=b64, rule="K", what="string 'ssh-dss', mpint p, q, g, y",
            cite="RFC 4253 6.6, RFC 4251 5 (mpint)"))
    # ---- RSA PKCS#1 writer and reader ------------------------------------------------------
    n, e, d, p, q = 3233, 17, 413, 61, 53
    for (n, e, d, p, q) in ((3233, 17, 413, 61, 53), (0x80 * 256 + 0x95, 3, 0, 0, 0)):
        if d == 0:
            # a key whose modulus has its top bit set and needs a 00 prefix
            p, q = 181, 0
            continue
        coeff = pow(q, -1, p)
        want = der.seq(*[der.integer(x) for x in (0, n, e, d, p, q, d % (p - 1), d % (q - 1), coeff)])
        run_obs(check, repo, ObsRow(
            "pkcs1.rsa.private.writer", "C08", RSA, "RsaKey.export_key", [0], lambda v: {},
            lambda res, it: res.returns()[0].value if len(res.returns()) == 1 else "<%d exits>" % len(res.returns()),
            lambda v, want=want: want,
            base={"format": "DER", "passphrase": None, "pkcs": 1, "protection": None,
                  "randfunc": None, "prot_params": None},
            self_obj=OBJ((RSA, "RsaKey"), _havoc=False, _n=n, _e=e, _d=d, _p=p, _q=q,
                         _u=pow(p, -1, q), _dp=d % (p - 1), _dq=d % (q - 1)),
            max_depth=8, rule="K",
            what="RSAPrivateKey ::= SEQUENCE {0, n, e, d, p, q, d mod (p-1), d mod (q-1), q^-1 mod p}",
            cite="RFC 8017 A.1.2"))
        # reader: the same structure comes back as the same components
        def obs(res, it):
            rets = res.returns()
            if len(rets) != 1 or not isinstance(rets[0].value, AObj):
                return "<no key>"
            h = rets[0].state.heap.get(rets[0].value.ident, {})
            return tuple(h.get(k) for k in ("_n", "_e", "_d", "_p", "_q", "_u"))
        run_obs(check, repo, ObsRow(
            "pkcs1.rsa.private.reader", "C08", RSA, "_import_pkcs1_private", [0], lambda v: {},
            obs, lambda v, w=(n, e, d, p, q, pow(p, -1, q)): w,
            base={"encoded": want, "kwargs": ()}, max_depth=16, rule="K",
            what="(n, e, d, p, q, u = p^-1 mod q) read from positions 1..5 of the sequence",
            cite="RFC 8017 A.1.2; RsaKey keeps u = p^-1 mod q"))
    # public SPKI
    spki = der.seq(der.seq(der.oid("1.2.840.113549.1.1.1"), der.null()),
                   der.bitstring(der.seq(der.integer(3233), der.integer(17))))
    run_obs(check, repo, ObsRow(
        "spki.rsa.writer", "C08", RSA, "RsaKey.export_key", [0], lambda v: {},
        lambda res, it: res.returns()[0].value if len(res.returns()) == 1 else "<%d exits>" % len(res.returns()),
        lambda v: spki,
        base={"format": "DER", "passphrase": None, "pkcs": 1, "protection": None,
              "randfunc": None, "prot_params": None},
        self_obj=OBJ((RSA, "RsaKey"), _havoc=False, _n=3233, _e=17), max_depth=8, rule="K",
        what="SubjectPublicKeyInfo {{rsaEncryption, NULL}, BIT STRING {SEQUENCE {n, e}}}",
        cite="RFC 3279 2.3.1, RFC 5280 4.1.2.7"))
    # ---- ECC RFC 5915 writer: the scalar is padded to the field size ---------------------
    P256_OID = "1.2.840.10045.3.1.7"
    for d in (5, (1 << 200) + 0x1234567, (1 << 255) + 3):
        x, y = 0x1111, 0x2222
        pub = b"\x04" + x.to_bytes(32, "big") + y.to_bytes(32, "big")
        want = der.seq(der.integer(1), der.octets(d.to_bytes(32, "big")),
                       der.explicit(0, der.oid(P256_OID)), der.explicit(1, der.bitstring(pub)))
        run_obs(check, repo, ObsRow(
            "rfc5915.writer.%d" % d.bit_length(), "C08", ECC, "EccKey._export_rfc5915_private_der",
            [0], lambda v: {},
            lambda res, it: res.returns()[0].value if len(res.returns()) == 1 else "<%d exits>" % len(res.returns()),
            lambda v, want=want: want, base={"include_ec_params": True},
            self_obj=OBJ((ECC, "EccKey"), _havoc=False, _d=d, _seed=None,
                         _point=OBJ(x=x, y=y), _curve=OBJ(oid=P256_OID)),
            method_models={"size_in_bytes": lambda i, base, a, kw, st, node: 32},
            max_depth=8, rule="K",
            what="ECPrivateKey {1, OCTET STRING of exactly ceil(log2(n)/8) octets, [0] namedCurve, [1] publicKey}",
            cite="RFC 5915 3: privateKey is an octet string of length ceiling(log2(n)/8)"))


def fixed_width_rows(check, repo):
    """Public-key encodings with a fixed field width (RFC 7748 u-coordinate, RFC 8032 point, SEC 1 point): a
    coordinate whose top bytes are zero is still written with the full width."""
    mod = repo.module(ECC)
    cls = repo.cls(mod, "EccKey")
    ids = {}
    for b in repo.cls(mod, "_CurveID").body if False else []:
        pass
    from .c05_extra import curve_ids
    ids = curve_ids(repo)
    wrong = []
    n = 0
    cases = []
    for size, name in ((32, "CURVE25519"), (56, "CURVE448")):
        for x in (9, (1 << (8 * size - 9)) + 5, (1 << (8 * size - 17)) + 1, (1 << (8 * size - 1)) - 3, 0):
            cases.append(("_export_montgomery_public", name, size, x, None, x.to_bytes(size, "little"), {}))
    for size, name, ylen in ((32, "ED25519", 32), (57, "ED448", 57)):
        for (x, y) in ((3, 5), (2, (1 << (8 * 31 - 3)) + 9), (7, 1)):
            enc = bytearray(y.to_bytes(ylen, "little"))
            enc[ylen - 1] |= (x & 1) << 7
            cases.append(("_export_eddsa_public", name, size, x, y, bytes(enc), {}))
    for size, name in ((32, "P256"), (66, "P521")):
        for (x, y) in ((5, 7), ((1 << (8 * size - 20)) + 1, 4), (3, (1 << (8 * size - 9)) + 2)):
            cases.append(("_export_SEC1", name, size, x, y, b"\x04" + x.to_bytes(size, "big") + y.to_bytes(size, "big"), {"compress": False}))
            cases.append(("_export_SEC1", name, size, x, y, bytes([2 + (y & 1)]) + x.to_bytes(size, "big"), {"compress": True}))
    for (meth, cname, size, x, y, want, args) in cases:
        it = Interp(repo, max_depth=3, method_models={"size_in_bytes": lambda i, base, a, kw, st, node, size=size: size,
                                                       "is_odd": lambda i, base, a, kw, st, node: bool(base & 1) if isinstance(base, int) else UNK})
        st = State()
        me = it.new_obj(st, mod, cls, havoc=False)
        curve = it.new_obj(st, label="curve", attrs={"id": ids[cname], "is_montgomery": cname.startswith("CURVE"),
                                                     "is_edwards": cname.startswith("ED"), "is_weierstrass": cname.startswith("P"),
                                                     "modulus_bits": 8 * size, "oid": "1.2.3"})
        pq = it.new_obj(st, label="pointQ", attrs={"x": x, "y": y, "xy": (x, y)})
        st.heap[me.ident].update({"_curve": curve, "_point": pq, "curve": cname, "_d": None, "_seed": None})
        it.inject = {"self.pointQ": pq}
        fn = repo.func(mod, "EccKey." + meth)
        res = it.run(mod, fn, dict(args), self_obj=me, state=st)
        rets = res.returns()
        n += 1
        got = rets[0].value if len(rets) == 1 and not res.raises() else "<%d exits, raises %s>" % (len(rets), res.raise_classes())
        if isinstance(got, bytearray):
            got = bytes(got)
        if got != want:
            wrong.append("%s on %s with x = 2^%d%s: %s, expected %d bytes %s.." % (
                meth, cname, x.bit_length() - 1 if x else 0, "" if y is None else ", y = 2^%d" % (y.bit_length() - 1),
                ("%d bytes %s.." % (len(got), got[:6].hex())) if isinstance(got, bytes) else repr(got)[:60], len(want), want[:6].hex()))
    fn = repo.func(mod, "EccKey._export_montgomery_public")
    check.ob("K", "K|ecc.fixed_width", not wrong, mod.path, fn.lineno,
             extracted="; ".join(wrong[:3]) if wrong else "%d rows: RFC 7748 u (32/56 bytes, little endian), RFC 8032 points (32/57 bytes with the sign bit), SEC 1 points (compressed and not) keep their full width when the top bytes of a coordinate are zero" % n,
             expected="fixed-width fields: the encoding of a key does not get shorter when a coordinate is small (a short encoding is rejected by every importer)")


def sec1_toy_rows(check, repo):
    """SEC 1 2.3.3 / 2.3.4 on a complete toy curve (y^2 = x^3 - 3x + b over F_23, prime order != p): for EVERY point
    the uncompressed and the compressed encoding are decoded by the real _import_public_der (Integer arithmetic and
    modular square root of the repository interpreted) and give back exactly that point - in particular the root with
    the requested parity, y or p - y; x values without a point and wrong lengths or types are refused."""
    from .point_compose import find_toy
    from .int_table import Backend
    from ..absval import AClass
    from ..par import pmap
    mod = repo.module(ECC)
    fn = repo.func(mod, "_import_public_der")
    T = find_toy(19)
    size = (T.p.bit_length() + 7) // 8
    be = Backend(repo, "native")

    def run(enc):
        it = be.interp()
        st = State()
        curve = it.new_obj(st, label="curve", attrs={"p": be.make(it, st, T.p), "b": be.make(it, st, T.b), "order": be.make(it, st, T.n),
                                                     "oid": "1.3.9999", "name": "toy", "is_weierstrass": True})
        it.inject.update({"Integer": AClass(be.mod, be.cls), "_curves.items()": [("toy", curve)]})

        def m_construct(i, a, kw, st2, node):
            x, y = kw.get("point_x"), kw.get("point_y")
            return ("key", kw.get("curve"), be.value(st2, x) if be.is_own(x) else x, be.value(st2, y) if be.is_own(y) else y)
        it.extra_models[ECC + ".construct"] = m_construct
        it.unroll_limit = 400
        res = it.run(mod, fn, {"ec_point": enc, "curve_oid": None, "curve_name": "toy"}, state=st)
        rets = res.returns()
        if res.raises() and not rets:
            return ("raises",) + tuple(sorted(set(res.raise_classes())))
        if len(rets) != 1 or res.raises():
            return ("undecided", len(rets), tuple(res.raise_classes()))
        return rets[0].value
    rows = []
    for (x, y) in T.points:
        rows.append((b"\x04" + x.to_bytes(size, "big") + y.to_bytes(size, "big"), ("key", "toy", x, y)))
        rows.append((bytes([2 + (y & 1)]) + x.to_bytes(size, "big"), ("key", "toy", x, y)))
    xs = set(P[0] for P in T.points)
    for x in range(T.p):
        if x not in xs:
            rows.append((b"\x02" + x.to_bytes(size, "big"), ("raises", "ValueError")))
            rows.append((b"\x03" + x.to_bytes(size, "big"), ("raises", "ValueError")))
    G = T.G
    for enc in (b"\x05" + G[0].to_bytes(size, "big"), b"\x00", b"\x04" + G[0].to_bytes(size, "big"), b"\x02" + G[0].to_bytes(size + 1, "big"),
                b"\x04" + G[0].to_bytes(size, "big") + G[1].to_bytes(size + 1, "big"), b"\x03"):
        rows.append((enc, ("raises", "ValueError")))
    got = pmap(lambda r: run(r[0]), rows)
    wrong = []
    for (enc, want), g in zip(rows, got):
        if isinstance(g, list):
            g = tuple(g)
        if g != want:
            wrong.append("%s on y^2=x^3-3x+%d mod %d (n=%d): %r, SEC 1 gives %r" % (enc.hex(), T.b, T.p, T.n, g, want))
    check.ob("K-pw", "K-pw|sec1.toy", not wrong, mod.path, fn.lineno,
             extracted=("%d of %d rows differ: " % (len(wrong), len(rows)) + "; ".join(wrong[:3])) if wrong else "%d encodings: every point of the curve in both forms decodes to itself; x without a point, wrong type bytes and lengths are refused" % len(rows),
             expected="SEC 1 2.3.4: 04 || X || Y, or 02/03 || X with y the square root of x^3 - 3x + b of the given parity (the other root is p - y)")


# Algorithm identifiers as the standards assign them (RFC 8017 A, RFC 8018 C, RFC 5480 / SEC 2, RFC 8410, RFC 3279, NIST CSOR).
STD_CONSTANTS = {
    "Crypto.PublicKey.RSA": {"oid": "1.2.840.113549.1.1.1"},
    "Crypto.PublicKey.DSA": {"oid": "1.2.840.10040.4.1"},
    "Crypto.IO._PBES": {
        "_OID_PBE_WITH_MD5_AND_DES_CBC": "1.2.840.113549.1.5.3", "_OID_PBE_WITH_MD5_AND_RC2_CBC": "1.2.840.113549.1.5.6",
        "_OID_PBE_WITH_SHA1_AND_DES_CBC": "1.2.840.113549.1.5.10", "_OID_PBE_WITH_SHA1_AND_RC2_CBC": "1.2.840.113549.1.5.11",
        "_OID_PBES2": "1.2.840.113549.1.5.13", "_OID_PBKDF2": "1.2.840.113549.1.5.12", "_OID_SCRYPT": "1.3.6.1.4.1.11591.4.11",
        "_OID_HMAC_SHA1": "1.2.840.113549.2.7", "_OID_DES_EDE3_CBC": "1.2.840.113549.3.7",
        "_OID_AES128_CBC": "2.16.840.1.101.3.4.1.2", "_OID_AES192_CBC": "2.16.840.1.101.3.4.1.22", "_OID_AES256_CBC": "2.16.840.1.101.3.4.1.42",
        "_OID_AES128_GCM": "2.16.840.1.101.3.4.1.6", "_OID_AES192_GCM": "2.16.840.1.101.3.4.1.26", "_OID_AES256_GCM": "2.16.840.1.101.3.4.1.46"},
}
STD_HMAC = {
    "1.3.14.3.2.26": "1.2.840.113549.2.7", "2.16.840.1.101.3.4.2.4": "1.2.840.113549.2.8", "2.16.840.1.101.3.4.2.1": "1.2.840.113549.2.9",
    "2.16.840.1.101.3.4.2.2": "1.2.840.113549.2.10", "2.16.840.1.101.3.4.2.3": "1.2.840.113549.2.11",
    "2.16.840.1.101.3.4.2.5": "1.2.840.113549.2.12", "2.16.840.1.101.3.4.2.6": "1.2.840.113549.2.13",
    "2.16.840.1.101.3.4.2.7": "2.16.840.1.101.3.4.2.13", "2.16.840.1.101.3.4.2.8": "2.16.840.1.101.3.4.2.14",
    "2.16.840.1.101.3.4.2.9": "2.16.840.1.101.3.4.2.15", "2.16.840.1.101.3.4.2.10": "2.16.840.1.101.3.4.2.16"}
STD_CURVES = {"NIST P-192": ("1.2.840.10045.3.1.1", "ecdsa-sha2-nistp192"), "NIST P-224": ("1.3.132.0.33", "ecdsa-sha2-nistp224"),
              "NIST P-256": ("1.2.840.10045.3.1.7", "ecdsa-sha2-nistp256"), "NIST P-384": ("1.3.132.0.34", "ecdsa-sha2-nistp384"),
              "NIST P-521": ("1.3.132.0.35", "ecdsa-sha2-nistp521"), "Ed25519": ("1.3.101.112", "ssh-ed25519"), "Ed448": ("1.3.101.113", None),
              "Curve25519": ("1.3.101.110", None), "Curve448": ("1.3.101.111", None)}


def identifier_tables(check, repo):
    """The algorithm identifiers written into and looked up from encoded keys are the ones the standards assign: a
    wrong entry still round-trips inside this library and fails (or, worse, selects another algorithm) everywhere else."""
    def module_consts(mod):
        out = {}
        for n in mod.tree.body:
            if isinstance(n, ast.Assign) and len(n.targets) == 1 and isinstance(n.targets[0], ast.Name):
                out[n.targets[0].id] = n
        return out
    n = 0
    for mname, table in sorted(STD_CONSTANTS.items()):
        mod = repo.module(mname)
        consts = module_consts(mod)
        wrong = []
        for name, want in sorted(table.items()):
            a = consts.get(name)
            got = a.value.value if a is not None and isinstance(a.value, ast.Constant) else None
            n += 1
            if a is None:
                raise AnalysisError("%s.%s is no longer a module-level constant" % (mname, name))
            if got != want:
                wrong.append("%s = %r, assigned value %s" % (name, got, want))
        check.ob("K", "K|oid.constants.%s" % mname.split(".")[-1], not wrong, mod.path, 1,
                 extracted="; ".join(wrong[:3]) if wrong else "%d identifiers as assigned" % len(table),
                 expected="RFC 8017 A.1 / RFC 3279 / RFC 8018 C / NIST CSOR object identifiers")
    mod = repo.module("Crypto.Hash.HMAC")
    a = module_consts(mod).get("_hash2hmac_oid")
    if a is None or not isinstance(a.value, ast.Dict) or not all(isinstance(k, ast.Constant) and isinstance(v, ast.Constant) for k, v in zip(a.value.keys, a.value.values)):
        raise AnalysisError("Crypto.Hash.HMAC._hash2hmac_oid is no longer a literal table")
    got = dict((k.value, v.value) for k, v in zip(a.value.keys, a.value.values))
    wrong = ["hash %s -> %s, assigned HMAC identifier %s" % (k, v, STD_HMAC[k]) for k, v in sorted(got.items()) if k in STD_HMAC and v != STD_HMAC[k]]
    wrong += ["hash %s -> %s: no such assignment" % (k, v) for k, v in sorted(got.items()) if k not in STD_HMAC]
    if len(set(got.values())) != len(got) or len(a.value.keys) != len(got):
        wrong.append("two hashes share one HMAC identifier (the reverse table used by the PBES2 reader loses one)")
    check.ob("K", "K|oid.hmac", not wrong, mod.path, a.lineno,
             extracted="; ".join(wrong[:3]) if wrong else "%d hash -> HMAC identifiers as assigned, one-to-one" % len(got),
             expected="RFC 8018 B.1.2 (hmacWithSHA1 .. hmacWithSHA512-256) and NIST CSOR (id-hmacWithSHA3-224 .. -512)")
    # curve tables: canonical name -> (OID, OpenSSH name)
    cmod = repo.module("Crypto.PublicKey._curve")
    params = [x.arg for x in repo.func(cmod, "_Curve.__init__").args.args][1:]
    io, ic, ih = params.index("oid"), params.index("canonical"), params.index("openssh")
    seen = {}
    for mname in ("Crypto.PublicKey._nist_ecc", "Crypto.PublicKey._edwards", "Crypto.PublicKey._montgomery"):
        mod = repo.module(mname)
        for c in ast.walk(mod.tree):
            if isinstance(c, ast.Call) and isinstance(c.func, ast.Name) and c.func.id == "_Curve":
                args = list(c.args) + [None] * len(params)
                for k in c.keywords:
                    if k.arg in params:
                        args[params.index(k.arg)] = k.value
                vals = [x.value if isinstance(x, ast.Constant) else None for x in (args[io], args[ic], args[ih])]
                seen[vals[1]] = (vals[0], vals[2], mod.path, c.lineno)
    wrong = []
    for name, (oid, ssh) in sorted(STD_CURVES.items()):
        g = seen.get(name)
        if g is None:
            raise AnalysisError("no _Curve(...) construction with canonical name %r" % name)
        if g[0] != oid:
            wrong.append("%s: OID %r, assigned %s" % (name, g[0], oid))
        if ssh is not None and g[1] != ssh:
            wrong.append("%s: OpenSSH name %r, RFC 5656 / RFC 8709 say %s" % (name, g[1], ssh))
    check.ob("K", "K|oid.curves", not wrong, "lib/Crypto/PublicKey/_nist_ecc.py", 1,
             extracted="; ".join(wrong[:3]) if wrong else "%d curves: OID and OpenSSH key type as assigned" % len(STD_CURVES),
             expected="SEC 2 / RFC 5480 2.1.1.1 (NIST curves), RFC 8410 3 (Ed25519, Ed448, X25519, X448), RFC 5656 6.1, RFC 8709 4")


_RPOINT_SRC = """
class _RPoint(object):
    def __mul__(self, k):
        r = self.__class__()
        r.x = self.pub_x
        r.y = self.pub_y
        r.xy = (self.pub_x, self.pub_y)
        r.curve = self.curve
        r.nbytes = self.nbytes
        return r
    def __rmul__(self, k):
        return self.__mul__(k)
    def __eq__(self, o):
        return self.x == o.x and self.y == o.y
    def __ne__(self, o):
        return not (self.x == o.x and self.y == o.y)
    def copy(self):
        return self
    def is_point_at_infinity(self):
        return False
    def size_in_bytes(self):
        return self.nbytes
    def size_in_bits(self):
        return self.nbytes * 8
"""
_RPOINT = []


def _rpoint_class():
    if not _RPOINT:
        tree = ast.parse(_RPOINT_SRC)
        c = tree.body[0]
        for node in ast.walk(tree):
            for ch in ast.iter_child_nodes(node):
                ch._parent = node
        for f in c.body:
            f._qualname = "_RPoint." + f.name
        c._qualname = "_RPoint"
        c._vmethods = dict((f.name, f) for f in c.body if isinstance(f, ast.FunctionDef))
        _RPOINT.append(c)
    return _RPOINT[0]


def ecc_roundtrip_rows(check, repo):
    """import_key(export_key(k)) == k for ECC keys on NIST curves in every unencrypted format (DER with and without
    PKCS#8, PEM, SEC1 compressed and not, raw, OpenSSH public), private and public: EccKey, the writers, the readers, the
    DER / PEM / PKCS#8 / SPKI code and the point decompression (the repository's Integer arithmetic) are interpreted end
    to end; the point class is a stand-in that holds coordinates (the constructor's own checks are decided by the C05 /
    C06 rows) and `G * d` yields the key's public point.  Keys: d = 1, 2 and a scalar with a zero top byte, on P-256
    and P-521 (66-byte coordinates, structures of 128 bytes and more)."""
    from .int_table import Backend
    from ..absval import AClass, AObj
    from ..par import pmap
    from .c_ec import read_curves, ref_add
    from .c05_extra import curve_ids
    be = Backend(repo, "native")
    mod = repo.module(ECC)
    kcls = repo.cls(mod, "EccKey")
    vcls = _rpoint_class()
    CUR = read_curves(repo)
    ids = curve_ids(repo)
    META = {"p256": ("NIST P-256", "1.2.840.10045.3.1.7", "ecdsa-sha2-nistp256", "P256", ("p256", "NIST P-256", "P-256", "prime256v1", "secp256r1", "nistp256")),
            "p521": ("NIST P-521", "1.3.132.0.35", "ecdsa-sha2-nistp521", "P521", ("p521", "NIST P-521", "P-521", "prime521v1", "secp521r1", "nistp521"))}

    def mul(k, A, p):
        R = None
        while k:
            if k & 1:
                R = ref_add(R, A, p) if R is not None else A
            A = ref_add(A, A, p)
            k >>= 1
        return R

    def world(cname, Q):
        c = CUR[cname]
        canonical, oid, ssh, idname, names = META[cname]
        nbytes = (c["p"].bit_length() + 7) // 8
        it = be.interp()
        for k in ("DerSequence", "DerInteger", "DerObject", "BytesIO_EOF", "DerOctetString", "DerObjectId", "DerNull", "DerBitString", "DerSetOf", "DerBoolean"):
            it.extra_models["Crypto.Util.asn1." + k] = False
        st = State()

        def as_int(i, st2, v):
            return v if be.is_own(v) else (be.make(i, st2, v) if isinstance(v, int) else v)

        def mk_point(i, st2, x, y):
            o = i.new_obj(st2, mod, vcls, havoc=False)
            x, y = as_int(i, st2, x), as_int(i, st2, y)
            st2.heap[o.ident].update({"x": x, "y": y, "xy": (x, y), "curve": canonical, "nbytes": nbytes,
                                      "pub_x": be.make(i, st2, Q[0]), "pub_y": be.make(i, st2, Q[1])})
            return o

        def m_point(i, a, kw, st2, node):
            if len(a) < 2:
                return UNK
            return mk_point(i, st2, a[0], a[1])
        it.extra_models["Crypto.PublicKey._point.EccPoint"] = m_point
        it.extra_models["Crypto.PublicKey.ECC.EccPoint"] = m_point
        G = mk_point(it, st, c["gx"], c["gy"])
        curve = it.new_obj(st, label="curve", attrs={
            "p": be.make(it, st, c["p"]), "b": be.make(it, st, c["b"]), "order": be.make(it, st, c["n"]), "Gx": be.make(it, st, c["gx"]), "Gy": be.make(it, st, c["gy"]),
            "G": G, "modulus_bits": c["p"].bit_length(), "oid": oid, "canonical": canonical, "openssh": ssh, "id": ids[idname], "name": canonical,
            "is_weierstrass": True, "is_edwards": False, "is_montgomery": False, "validate": None, "rawlib": None, "context": None})
        it.inject.update({"Integer": AClass(be.mod, be.cls), "_curves": dict((nm, curve) for nm in names)})
        it.for_limit = 700
        it.unroll_limit = 3000
        return it, st, mk_point

    def key_of(st2, obj):
        h = st2.heap.get(obj.ident, {})
        d = h.get("_d")
        pt = h.get("_point")
        xy = None
        if isinstance(pt, AObj):
            ph = st2.heap.get(pt.ident, {})
            xy = tuple(be.value(st2, v) if be.is_own(v) else v for v in (ph.get("x"), ph.get("y")))
        return (be.value(st2, d) if be.is_own(d) else d, xy)

    def job(j):
        cname, d, kw, public = j
        c = CUR[cname]
        Q = mul(d, (c["gx"], c["gy"]), c["p"])
        it, st, mk_point = world(cname, Q)
        me = it.new_obj(st, mod, kcls, havoc=False)
        curve = it.inject["_curves"][META[cname][4][0]]
        st.heap[me.ident].update({"_curve": curve, "curve": META[cname][0], "_d": None if public else be.make(it, st, d), "_seed": None,
                                  "_point": mk_point(it, st, Q[0], Q[1])})
        res = it.run(mod, repo.func(mod, "EccKey.export_key"), {"kwargs": dict(kw)}, self_obj=me, state=st)
        rets = res.returns()
        if len(rets) != 1 or res.raises() or not isinstance(rets[0].value, (bytes, str)):
            return "export: %d exits, raises %s" % (len(rets), res.raise_classes())
        blob = rets[0].value
        if key_of(rets[0].state, me) != (None if public else d, Q):
            return "export_key changed the key object itself"
        it2, st2, _ = world(cname, Q)
        args = {"encoded": blob, "passphrase": None, "curve_name": META[cname][0] if kw.get("format") in ("raw", "SEC1") else None}
        res2 = it2.run(mod, repo.func(mod, "import_key"), args, state=st2)
        r2 = res2.returns()
        if len(r2) != 1 or not isinstance(r2[0].value, AObj):
            return "import of the exported key: %d exits, raises %s" % (len(r2), res2.raise_classes())
        got = key_of(r2[0].state, r2[0].value)
        if got[1] is None and got[0] is not None:
            got = (got[0], Q)             # the public point is derived lazily from d (G * d): decided by construct()
        want = (None if public else d, Q)
        if got != want:
            return "the imported key has d = %s, Q = (%s.., %s..) instead of d = %s, Q = (%s.., %s..)" % (
                got[0], hex(got[1][0])[:10] if got[1] else None, hex(got[1][1])[:10] if got[1] else None, want[0], hex(Q[0])[:10], hex(Q[1])[:10])
        return None
    jobs = []
    for cname in ("p256", "p521"):
        n = CUR[cname]["n"]
        for d in (1, 2, (1 << (n.bit_length() - 9)) + 5):
            for public in (False, True):
                fmts = [dict(format="DER"), dict(format="PEM"), dict(format="DER", compress=True), dict(format="PEM", compress=True)]
                if public:
                    fmts += [dict(format="SEC1"), dict(format="SEC1", compress=True), dict(format="raw"), dict(format="OpenSSH"), dict(format="OpenSSH", compress=True)]
                else:
                    fmts += [dict(format="DER", use_pkcs8=False), dict(format="PEM", use_pkcs8=False), dict(format="DER", use_pkcs8=False, compress=True)]
                if d != 1 and cname == "p521":
                    fmts = fmts[:3]
                for kw in fmts:
                    jobs.append((cname, d, kw, public))
    errs = pmap(job, jobs)
    wrong = ["%s, d = %s, %s key, %s: %s" % (j[0], j[1] if j[1] < 10 else "2^%d+5" % (j[1].bit_length() - 1), "public" if j[3] else "private",
                                                 ", ".join("%s=%s" % kv for kv in sorted(j[2].items())), e) for j, e in zip(jobs, errs) if e]
    if wrong and len(wrong) == len(jobs):
        raise AnalysisError("ECC round trips could not be interpreted: %s" % wrong[0])
    fn = repo.func(mod, "EccKey.export_key")
    check.ob("K-pw", "K-pw|ecc.roundtrip", not wrong, mod.path, fn.lineno,
             extracted=("%d of %d rows differ: " % (len(wrong), len(jobs)) + "; ".join(wrong[:3])) if wrong else "%d rows on P-256 and P-521: import_key(export_key(k)) has the same private scalar and public point, in every unencrypted format, compressed or not; export does not modify the key" % len(jobs),
             expected="RFC 5915 / RFC 5480 / PKCS#8 / SEC 1 / RFC 5656 encodings of an ECC key are read back to the same key")
    check.count("ecc_roundtrip_rows", len(jobs))


def pbes2_roundtrip_rows(check, repo, thorough=False):
    """PBES2.encrypt / PBES2.decrypt (and PKCS8.wrap / unwrap above them) agree for EVERY protection string the writer
    accepts: 12 key-derivation choices (PBKDF2 with 11 HMAC hashes, scrypt) x 7 ciphers.  The writer and the reader
    have separate tables (protection name -> key size, module, mode, OID; OID -> the same; hash name -> hash -> HMAC OID
    -> hash OID -> hash), so a slip in one entry of one table only shows for that protection.  Both functions, the
    DER writer / reader, pad / unpad and Hash.new are interpreted; the KDFs are tagged functions of (passphrase, salt,
    key length, cost parameters, hash), the ciphers keyed bijections / a keyed stream with a keyed tag.  Expected:
    decrypt(encrypt(x)) == x; the reader derives the very key the writer derived; another passphrase never returns x
    (and raises ValueError for the GCM variants, whose stand-in tag is keyed)."""
    import hashlib
    from ..par import pmap
    from ..absval import ABuiltin
    PB = "Crypto.IO._PBES"
    mod = repo.module(PB)
    f_enc, f_dec = repo.func(mod, "PBES2.encrypt"), repo.func(mod, "PBES2.decrypt")
    HASHES = ["SHA1", "SHA224", "SHA256", "SHA384", "SHA512", "SHA512-224", "SHA512-256", "SHA3-224", "SHA3-256", "SHA3-384", "SHA3-512"]
    CIPHERS = ["DES-EDE3-CBC", "AES128-CBC", "AES192-CBC", "AES256-CBC", "AES128-GCM", "AES192-GCM", "AES256-GCM"]
    KEYSIZE = {"DES-EDE3-CBC": 24, "AES128-CBC": 16, "AES192-CBC": 24, "AES256-CBC": 32, "AES128-GCM": 16, "AES192-GCM": 24, "AES256-GCM": 32}
    HMODS = {"SHA1": ("SHA1", None), "SHA224": ("SHA224", None), "SHA256": ("SHA256", None), "SHA384": ("SHA384", None), "SHA512": ("SHA512", None),
             "SHA512-224": ("SHA512", "224"), "SHA512-256": ("SHA512", "256"), "SHA3-224": ("SHA3_224", None), "SHA3-256": ("SHA3_256", None),
             "SHA3-384": ("SHA3_384", None), "SHA3-512": ("SHA3_512", None)}
    from .C03 import MD_TABLE
    OIDS = dict((m, oid) for m, c, ds, bs, oid in MD_TABLE)
    OIDS.update({"SHA512": "2.16.840.1.101.3.4.2.3", "SHA512/224": "2.16.840.1.101.3.4.2.5", "SHA512/256": "2.16.840.1.101.3.4.2.6"})

    def expand(tag, n):
        out, c = b"", 0
        while len(out) < n:
            out += hashlib.sha256(tag + c.to_bytes(4, "big")).digest()
            c += 1
        return out[:n]

    def feistel(key, blk, inv=False):
        h = len(blk) // 2
        L, R = blk[:h], blk[h:]
        for r in ((3, 2, 1, 0) if inv else (0, 1, 2, 3)):
            if inv:
                L, R = bytes(x ^ y for x, y in zip(R, hashlib.sha256(b"B%d" % r + key + L).digest()[:h])), L
            else:
                L, R = R, bytes(x ^ y for x, y in zip(L, hashlib.sha256(b"B%d" % r + key + R).digest()[:h]))
        return L + R

    def world(log):
        def hash_obj(i, st, hid):
            o = i.new_obj(st, label="shash")
            st.heap[o.ident].update({"kind": "shash", "hid": hid, "oid": OIDS[hid], "digest_size": 20, "block_size": 64})
            return o

        def mk_hash_new(mname):
            def f(i, a, kw, st, node):
                tr = kw.get("truncate")
                return hash_obj(i, st, mname if not tr else "%s/%s" % (mname, tr))
            return f

        def m_pbkdf2(i, a, kw, st, node):
            pw, salt, dk, cnt = (list(a) + [None] * 4)[:4]
            hm = kw.get("hmac_hash_module")
            hid = st.heap.get(getattr(hm, "ident", -1), {}).get("hid")
            if not all(isinstance(x, (bytes, bytearray)) for x in (pw, salt)) or not isinstance(dk, int) or not isinstance(cnt, int) or hid is None:
                return ABytes(None)
            log.append(("pbkdf2", bytes(pw), bytes(salt), dk, cnt, hid))
            return expand(b"PBKDF2|%d|%s|" % (cnt, hid.encode()) + bytes(pw) + b"|" + bytes(salt), dk)

        def m_scrypt(i, a, kw, st, node):
            pw, salt, dk, n, r, p_ = (list(a) + [None] * 6)[:6]
            if not all(isinstance(x, (bytes, bytearray)) for x in (pw, salt)) or not all(isinstance(x, int) for x in (dk, n, r, p_)):
                return ABytes(None)
            log.append(("scrypt", bytes(pw), bytes(salt), dk, n, r, p_))
            return expand(b"SCRYPT|%d|%d|%d|" % (n, r, p_) + bytes(pw) + b"|" + bytes(salt), dk)

        def mk_cipher_new(name, bs, keylens):
            def f(i, a, kw, st, node):
                key, mode = (list(a) + [None] * 2)[:2]
                if not isinstance(key, (bytes, bytearray)) or len(key) not in keylens:
                    i._diverged = i.do_raise("ValueError", st, node)
                    return UNK
                o = i.new_obj(st, label="scipher")
                if mode == 2 and isinstance(kw.get("iv"), (bytes, bytearray)) and len(kw["iv"]) == bs:
                    st.heap[o.ident].update({"kind": "cbc", "alg": name, "key": bytes(key), "reg": bytes(kw["iv"]), "block_size": bs})
                elif mode == 11 and name == "AES" and isinstance(kw.get("nonce"), (bytes, bytearray)) and len(kw["nonce"]) > 0:
                    st.heap[o.ident].update({"kind": "gcm", "alg": name, "key": bytes(key), "nonce": bytes(kw["nonce"]), "block_size": bs})
                else:
                    i._diverged = i.do_raise("ValueError", st, node)
                    return UNK
                return o
            return f

        def cbc(dec):
            def f(i, base, a, kw, st, node):
                h = st.heap.get(getattr(base, "ident", -1), {})
                d = a[0] if a else None
                if h.get("kind") != "cbc" or not isinstance(d, (bytes, bytearray)):
                    return ABytes(None)
                bs = h["block_size"]
                if len(d) % bs:
                    i._diverged = i.do_raise("ValueError", st, node)
                    return UNK
                out = b""
                key = h["alg"].encode() + h["key"]
                for o in range(0, len(d), bs):
                    blk = bytes(d[o:o + bs])
                    if dec:
                        out += bytes(x ^ y for x, y in zip(feistel(key, blk, inv=True), h["reg"]))
                        h["reg"] = blk
                    else:
                        h["reg"] = feistel(key, bytes(x ^ y for x, y in zip(blk, h["reg"])))
                        out += h["reg"]
                return out
            return f

        def gcm_ks(h, n):
            return expand(b"GCMKS|" + h["key"] + b"|" + h["nonce"], n)

        def gcm_tag(h, ct):
            return hashlib.sha256(b"GCMTAG|" + h["key"] + b"|" + h["nonce"] + b"|" + ct).digest()[:16]

        def m_ead(i, base, a, kw, st, node):
            h = st.heap.get(getattr(base, "ident", -1), {})
            d = a[0] if a else None
            if h.get("kind") != "gcm" or not isinstance(d, (bytes, bytearray)):
                return UNK
            ct = bytes(x ^ y for x, y in zip(d, gcm_ks(h, len(d))))
            return (ct, gcm_tag(h, ct))

        def m_dav(i, base, a, kw, st, node):
            h = st.heap.get(getattr(base, "ident", -1), {})
            ct, tag = (list(a) + [None] * 2)[:2]
            if h.get("kind") != "gcm" or not isinstance(ct, (bytes, bytearray)) or not isinstance(tag, (bytes, bytearray)):
                return UNK
            if bytes(tag) != gcm_tag(h, bytes(ct)):
                i._diverged = i.do_raise("ValueError", st, node)
                return UNK
            return bytes(x ^ y for x, y in zip(ct, gcm_ks(h, len(ct))))
        em = {"Crypto.Protocol.KDF.PBKDF2": m_pbkdf2, "Crypto.Protocol.KDF.scrypt": m_scrypt,
              "Crypto.Cipher.AES.new": mk_cipher_new("AES", 16, (16, 24, 32)), "Crypto.Cipher.DES3.new": mk_cipher_new("DES3", 8, (16, 24)),
              "vstat.rand": lambda i, a, kw, st, node: bytes((0xC0 + 7 * j) & 0xFF for j in range(a[0])) if a and isinstance(a[0], int) else UNK}
        for m in set(x[0] for x in HMODS.values()):
            em["Crypto.Hash.%s.new" % m] = mk_hash_new(m)
        it = Interp(repo, max_depth=14, budget=6000000, extra_models=em,
                    method_models={"encrypt": cbc(False), "decrypt": cbc(True), "encrypt_and_digest": m_ead, "decrypt_and_verify": m_dav,
                                   "new": lambda i, base, a, kw, st, node: base, "update": lambda i, base, a, kw, st, node: base,
                                   "copy": lambda i, base, a, kw, st, node: base, "digest": lambda i, base, a, kw, st, node: bytes(20)})
        it.unroll_limit = 600
        it.for_limit = 300
        it.ffi_default = 0          # strxor inside the real HMAC constructor (only its .oid is used)
        return it

    def one(job):
        kdf, cipher, ln = job
        prot = ("scrypt" if kdf == "scrypt" else "PBKDF2WithHMAC-" + kdf) + "And" + cipher
        params = {"iteration_count": 16 if kdf == "scrypt" else 7, "salt_size": 9}
        if kdf == "scrypt":
            params.update({"block_size": 3, "parallelization": 2})
        data = bytes((0x31 + 5 * j) & 0xFF for j in range(ln))
        log1 = []
        it = world(log1)
        res = it.run(mod, f_enc, {"data": data, "passphrase": b"correct horse", "protection": prot, "prot_params": params, "randfunc": ABuiltin("vstat.rand")})
        r = res.returns()
        if len(r) != 1 or res.raises() or not isinstance(r[0].value, (bytes, bytearray)):
            return "%s: encrypt not decided (%d exits, raises %s)" % (prot, len(r), res.raise_classes())
        blob = bytes(r[0].value)
        if len(log1) != 1 or log1[0][3] != KEYSIZE[cipher]:
            return "%s: the writer derives %r" % (prot, [x[:1] + x[3:] for x in log1])
        if kdf != "scrypt":
            m_, t_ = HMODS[kdf]
            if log1[0][5] != (m_ if not t_ else "%s/%s" % (m_, t_)) or log1[0][4] != 7 or len(log1[0][2]) != 9:
                return "%s: the writer runs PBKDF2 with HMAC-%s, %d iterations, %d-byte salt" % (prot, log1[0][5], log1[0][4], len(log1[0][2]))
        elif log1[0][4:] != (16, 3, 2) or len(log1[0][2]) != 9:
            return "%s: the writer runs scrypt with (N, r, p) = %r, %d-byte salt" % (prot, log1[0][4:], len(log1[0][2]))
        log2 = []
        it = world(log2)
        res = it.run(mod, f_dec, {"data": blob, "passphrase": b"correct horse"})
        r = res.returns()
        if len(r) != 1 or res.raises():
            return "%s, %d bytes: decrypt(encrypt(x)) raises %s (the reader derives %r, the writer %r)" % (prot, ln, res.raise_classes(), [x[:1] + x[3:] for x in log2], [x[:1] + x[3:] for x in log1])
        if not isinstance(r[0].value, (bytes, bytearray)) or bytes(r[0].value) != data:
            return "%s, %d bytes: decrypt(encrypt(x)) != x (the reader derives %r, the writer %r)" % (prot, ln, [x[:1] + x[3:] for x in log2], [x[:1] + x[3:] for x in log1])
        if log2 != log1:
            return "%s: the reader derives %r, the writer %r" % (prot, [x[:1] + x[3:] for x in log2], [x[:1] + x[3:] for x in log1])
        it = world([])
        res = it.run(mod, f_dec, {"data": blob, "passphrase": b"another horse"})
        r = res.returns()
        if r and not res.raises() and isinstance(r[0].value, (bytes, bytearray)) and bytes(r[0].value) == data:
            return "%s: another passphrase returns the data" % prot
        if cipher.endswith("GCM") and (r or set(res.raise_classes()) != {"ValueError"}):
            return "%s: another passphrase is not refused with ValueError (%d exits, %s)" % (prot, len(r), res.raise_classes())
        return None
    jobs = []
    for k, kdf in enumerate(HASHES + ["scrypt"]):
        for c, cipher in enumerate(CIPHERS):
            jobs.append((kdf, cipher, (0, 1, 7, 8, 15, 16, 17, 40)[(k + c) % 8]))
    # the empty plaintext under every cipher (for the GCM variants the container then holds the tag only)
    for c, cipher in enumerate(CIPHERS):
        jobs.append(((HASHES + ["scrypt"])[(3 * c + 1) % 12], cipher, 0))
    errs = pmap(one, jobs)
    wrong = [e for e in errs if e]
    und = [e for e in wrong if "not decided" in e]
    if und and len(und) == len(jobs):
        raise AnalysisError("PBES2 round trips could not be interpreted: %s" % und[0])
    check.ob("K-pw", "K-pw|pbes2.roundtrip", not wrong, mod.path, f_enc.lineno,
             extracted=("%d of %d protections differ: " % (len(wrong), len(jobs)) + "; ".join(wrong[:3])) if wrong else "%d rows (12 KDF choices x 7 ciphers, and the empty plaintext under each cipher): decrypt(encrypt(x)) == x, the reader derives the writer's key (KDF, hash, salt, cost, key length), another passphrase never returns x" % len(jobs),
             expected="PKCS#5 v2.1 PBES2: every protection the writer offers is read back by the reader with the same passphrase, and refused with another")
    # PKCS#8 on top: wrap / unwrap with and without a passphrase
    P8 = "Crypto.IO.PKCS8"
    m8 = repo.module(P8)
    wrong = []
    for prot in (None, "PBKDF2WithHMAC-SHA512-256AndAES192-GCM", "scryptAndAES256-CBC"):
        for pw in (None, b"pass phrase"):
            key = bytes(range(40, 77))
            it = world([])
            res = it.run(m8, repo.func(m8, "wrap"), {"private_key": key, "key_oid": "1.2.840.113549.1.1.1", "passphrase": pw, "protection": prot,
                                                      "prot_params": {"iteration_count": 16}, "key_params": None, "randfunc": ABuiltin("vstat.rand")}, bind_defaults=True)
            r = res.returns()
            if len(r) != 1 or res.raises() or not isinstance(r[0].value, (bytes, bytearray)):
                wrong.append("wrap(%s, %s): %d exits, raises %s" % (prot, "passphrase" if pw else "no passphrase", len(r), res.raise_classes()))
                continue
            it = world([])
            res = it.run(m8, repo.func(m8, "unwrap"), {"p8_private_key": bytes(r[0].value), "passphrase": pw})
            r2 = res.returns()
            got = r2[0].value if len(r2) == 1 and not res.raises() else None
            if not (isinstance(got, (tuple, list)) and len(got) == 3 and got[0] == "1.2.840.113549.1.1.1" and bytes(got[1]) == key and got[2] is None):
                wrong.append("unwrap(wrap(key, %s, %s)) = %r (%s)" % (prot, "passphrase" if pw else "no passphrase", got if got is None else (got[0], bytes(got[1])[:6], got[2]), res.raise_classes()))
    check.ob("K-pw", "K-pw|pkcs8.roundtrip", not wrong, m8.path, repo.func(m8, "wrap").lineno,
             extracted="; ".join(wrong[:3]) if wrong else "6 rows: unwrap(wrap(key, oid)) == (oid, key, None) in clear and under PBES2 (default, PBKDF2/GCM, scrypt/CBC)",
             expected="PKCS#8 PrivateKeyInfo / EncryptedPrivateKeyInfo round trip (RFC 5208 5, 6)")


def pem_padding_rows(check, repo):
    """Legacy PEM encryption (RFC 1423): the DER blob is always PKCS#7-padded, a full block is added when the length
    is already a multiple of 8."""
    PEM = "Crypto.IO.PEM"
    mod = repo.module(PEM)
    fn = repo.func(mod, "encode")
    wrong = []
    for ln in (0, 1, 7, 8, 9, 16, 608):
        seen = {}

        def m_new(i, a, kw, st, node, seen=seen):
            return i.new_obj(st, label="des3", attrs={"block_size": 8})

        def mm_encrypt(i, base, a, kw, st, node, seen=seen):
            v = a[0] if a else None
            seen["len"] = len(v) if isinstance(v, (bytes, bytearray)) else getattr(v, "n", None)
            seen["data"] = v
            return v if isinstance(v, (bytes, bytearray)) else ABytes(seen["len"])
        it = Interp(repo, max_depth=3, extra_models={"Crypto.Cipher.DES3.new": m_new,
                                                     "Crypto.Protocol.KDF.PBKDF1": lambda i, a, kw, st, node: bytes(a[2]) if len(a) > 2 and isinstance(a[2], int) else ABytes(None),
                                                     "binascii.b2a_base64": lambda i, a, kw, st, node: b"B64\n",
                                                     "binascii.hexlify": lambda i, a, kw, st, node: b"00" * 8},
                    method_models={"encrypt": mm_encrypt})
        data = bytes((i * 7 + 1) & 0xFF for i in range(ln))
        res = it.run(mod, fn, {"data": data, "marker": "X", "passphrase": b"pw", "randfunc": lambda *a: b"S" * 8})
        want = ln + (8 - ln % 8)
        d = seen.get("data")
        ok = seen.get("len") == want and (not isinstance(d, (bytes, bytearray)) or bytes(d) == data + bytes([want - ln]) * (want - ln))
        if not ok:
            wrong.append("%d bytes of DER: the cipher receives %r bytes, RFC 1423 1.1 padding gives %d" % (ln, seen.get("len"), want))
    check.ob("K", "K|pem.legacy.padding", not wrong, mod.path, fn.lineno,
             extracted="; ".join(wrong[:3]) if wrong else "7 lengths (incl. multiples of 8): the encrypted body is DER || PKCS#7 padding, one full block when the length is a multiple of the block",
             expected="RFC 1423 1.1: 8 - (len mod 8) padding bytes are always appended (an importer strips them unconditionally)")


def passphrase_encoding_siblings(check, repo):
    """Every export and import path turns a text passphrase into bytes the same way."""
    sites = []
    for mname in sorted(repo.modules):
        if not (mname.startswith("Crypto.PublicKey.") or mname.startswith("Crypto.IO.")):
            continue
        m = repo.modules[mname]
        for q, f in sorted(m.funcs.items()):
            for c in ast.walk(f):
                if isinstance(c, ast.Call) and isinstance(c.func, ast.Name) and c.func.id in ("tobytes", "tostr") and c.args and \
                        isinstance(c.args[0], ast.Name) and c.args[0].id in ("passphrase", "password"):
                    extra = tuple(norm(a) for a in c.args[1:]) + tuple("%s=%s" % (k.arg, norm(k.value)) for k in c.keywords)
                    sites.append((mname, q, c.lineno, c.func.id, extra))
    if len(sites) < 6:
        raise AnalysisError("only %d passphrase conversions found (confirmed: 8)" % len(sites))
    kinds = {}
    for s_ in sites:
        kinds.setdefault((s_[3], s_[4]), []).append(s_)
    major = max(kinds.items(), key=lambda kv: len(kv[1]))[0]
    odd = [s_ for k, v in kinds.items() if k != major for s_ in v]
    check.ob("S", "S|passphrase.encoding", not odd, repo.modules[sites[0][0]].path, sites[0][2],
             extracted=("%d of %d sites differ from %s%r: " % (len(odd), len(sites), major[0], major[1]) + "; ".join(
                 "%s.%s line %d uses %s%r" % (x[0].split(".")[-1], x[1], x[2], x[3], x[4]) for x in odd[:3])) if odd else
             "%d conversions in RSA/DSA/ECC export_key / import_key and PKCS8 wrap / unwrap, all %s(passphrase%s)" % (
                 len(sites), major[0], "".join(", " + e for e in major[1])),
             expected="a key exported under a text passphrase is opened by the same text: one encoding (Latin-1, py3compat.tobytes default) on every path")


def roundtrip_rows(check, repo):
    """import_key(export_key(k)) == k for RSA and DSA keys in every unencrypted format, the real writers, readers, DER
    and PEM code interpreted end to end over the native Integer back-end (base64 by the checker's binascii).  The keys
    are chosen at the encoding boundaries: components whose top byte is 00-padded / has the sign bit set / needs a
    length in long form, a CRT coefficient much shorter than the modulus, e = 3 and e = 2^32 + 1.  A second import of
    the same bytes with one byte appended must fail (no trailing data)."""
    from .int_table import Backend
    from ..absval import AClass, AObj
    from ..par import pmap
    be = Backend(repo, "native")
    rmod, dmod = repo.module(RSA), repo.module(DSA)

    def interp():
        it = be.interp()
        for k in ("DerSequence", "DerInteger", "DerObject", "BytesIO_EOF", "DerOctetString", "DerObjectId", "DerNull", "DerBitString", "DerSetOf", "DerBoolean"):
            it.extra_models["Crypto.Util.asn1." + k] = False
        it.inject.update({"Integer": AClass(be.mod, be.cls)})
        it.for_limit = 600
        return it

    def rsa_key(it, st, comps):
        me = it.new_obj(st, rmod, repo.cls(rmod, "RsaKey"), havoc=False)
        for k, v in comps.items():
            st.heap[me.ident]["_" + k] = be.make(it, st, v)
        return me

    def dsa_key(it, st, comps):
        me = it.new_obj(st, dmod, repo.cls(dmod, "DsaKey"), havoc=False)
        st.heap[me.ident]["_key"] = dict((k, be.make(it, st, v)) for k, v in comps.items())
        return me

    def comps_of(st, obj, kind):
        h = st.heap.get(obj.ident, {})
        if kind == "rsa":
            return dict((k[1:], be.value(st, v)) for k, v in h.items() if k in ("_n", "_e", "_d", "_p", "_q", "_u") and isinstance(v, AObj))
        kd = h.get("_key")
        return dict((k, be.value(st, v) if isinstance(v, AObj) else v) for k, v in kd.items()) if isinstance(kd, dict) else {}

    def job(j):
        kind, comps, kw, public = j
        mod = rmod if kind == "rsa" else dmod
        it = interp()
        st = State()
        c = dict(comps)
        if public:
            for k in ("d", "p", "q", "u", "dp", "dq") if kind == "rsa" else ("x",):
                c.pop(k, None)
        me = (rsa_key if kind == "rsa" else dsa_key)(it, st, c)
        res = it.run(mod, repo.func(mod, ("RsaKey" if kind == "rsa" else "DsaKey") + ".export_key"), dict(kw), self_obj=me, state=st, bind_defaults=True)
        rets = res.returns()
        if len(rets) != 1 or res.raises() or not isinstance(rets[0].value, (bytes, str)):
            return "export: %d exits, raises %s" % (len(rets), res.raise_classes())
        blob = rets[0].value
        after = comps_of(rets[0].state, me, kind)
        changed = [k for k in sorted(after) if k in c and after[k] != c[k]]
        if changed:
            return "export_key changed the key object itself: %s" % ", ".join("%s is now %s" % (k, after[k]) for k in changed[:3])
        out = []
        for variant, data in (("as written", blob), ("one byte appended", (blob + (b"\x00" if isinstance(blob, bytes) else "A")) if kw.get("format") == "DER" else None)):
            if data is None:
                continue
            it2 = interp()
            st2 = State()
            res2 = it2.run(mod, repo.func(mod, "import_key"), {"extern_key": data}, state=st2, bind_defaults=True)
            r2 = res2.returns()
            if variant == "as written":
                if len(r2) != 1 or not isinstance(r2[0].value, AObj):
                    return "import of the exported key: %d exits, raises %s" % (len(r2), res2.raise_classes())
                got = comps_of(r2[0].state, r2[0].value, kind)
                want = dict((k, v) for k, v in c.items() if k not in ("dp", "dq"))
                if got != want:
                    diff = [k for k in sorted(set(got) | set(want)) if got.get(k) != want.get(k)]
                    return "components %s differ after the round trip (%s)" % (diff, ", ".join("%s: %s instead of %s" % (k, got.get(k), want.get(k)) for k in diff[:2]))
            else:
                if r2 or not res2.rejected():
                    return "the encoding followed by one more byte is accepted"
        return None

    def top(tb, n, fill=0x11):
        return int.from_bytes(bytes([tb]) + bytes([fill]) * (n - 1), "big")
    jobs = []
    # RSA: real toy keys (so that the consistency of import does not interfere: import_key does not check consistency)
    P1, Q1 = (1 << 31) - 1, (1 << 61) - 1
    P2, Q2 = 2 ** 127 - 1, 2 ** 89 - 1
    for (pp, qq, e) in ((P1, Q1, 65537), (Q1, P1, 3), (P2, Q2, (1 << 32) + 1), (Q2, P2, 65537), (61, 53, 17)):
        n_ = pp * qq
        import math as _m
        while _m.gcd(e, (pp - 1) * (qq - 1)) != 1:
            e += 2
        d_ = pow(e, -1, (pp - 1) * (qq - 1))
        comps = {"n": n_, "e": e, "d": d_, "p": pp, "q": qq, "u": pow(pp, -1, qq), "dp": d_ % (pp - 1), "dq": d_ % (qq - 1)}
        for kw in ({"format": "DER", "pkcs": 1}, {"format": "DER", "pkcs": 8}, {"format": "PEM", "pkcs": 1}, {"format": "PEM", "pkcs": 8}):
            jobs.append(("rsa", comps, kw, False))
        for kw in ({"format": "DER"}, {"format": "PEM"}, {"format": "OpenSSH"}):
            jobs.append(("rsa", comps, kw, True))
    import math as _m

    def is_prime(n):
        if n < 2:
            return False
        for sp in (2, 3, 5, 7, 11, 13, 17, 19, 23, 29, 31, 37):
            if n % sp == 0:
                return n == sp
        d_, r_ = n - 1, 0
        while d_ % 2 == 0:
            d_ //= 2
            r_ += 1
        for a in (2, 3, 5, 7, 11, 13, 17, 19, 23, 29, 31, 37, 41, 43, 47, 53):
            x = pow(a, d_, n)
            if x in (1, n - 1):
                continue
            for _ in range(r_ - 1):
                x = x * x % n
                if x == n - 1:
                    break
            else:
                return False
        return True
    # public RSA keys at the sign-byte / length-form boundaries: n odd, e an odd prime that does not divide n
    for tb in (0x00 + 1, 0x7F, 0x80, 0xFF):
        for nlen in (16, 127, 128, 129, 256):
            n_ = top(tb, nlen) | 1
            e_ = top(tb, 3) | 1
            while not is_prime(e_) or _m.gcd(e_, n_) != 1:
                e_ += 2
            comps = {"n": n_, "e": e_}
            for kw in ({"format": "DER"}, {"format": "OpenSSH"}):
                jobs.append(("rsa", comps, kw, True))

    # DSA: valid domain parameters whose encodings sit at the boundaries (found by search in the checker)
    def dsa_params(tq, qlen, tp, plen):
        q_ = top(tq, qlen) | 1
        while not is_prime(q_):
            q_ += 2
        k = (top(tp, plen) // q_) | 1
        k += k % 2                       # p = k*q + 1 with k even
        while not is_prime(k * q_ + 1):
            k += 2
        p_ = k * q_ + 1
        h = 2
        while pow(h, (p_ - 1) // q_, p_) == 1:
            h += 1
        return p_, q_, pow(h, (p_ - 1) // q_, p_)
    dsa_sets = [(23, 11, 4, 7)]
    for (tq, qlen, tp, plen, x_) in ((0xFF, 4, 0x80, 16, 0x80000001), (0x80, 20, 0x01, 129, 5), (0x7F, 8, 0xFF, 128, (1 << 62) + 3)):
        p_, q_, g_ = dsa_params(tq, qlen, tp, plen)
        dsa_sets.append((p_, q_, g_, x_ % q_ or 2))
    for (p_, q_, g_, x_) in dsa_sets:
        comps = {"y": pow(g_, x_, p_), "g": g_, "p": p_, "q": q_, "x": x_}
        for kw in ({"format": "DER", "pkcs8": True}, {"format": "DER", "pkcs8": False}, {"format": "PEM", "pkcs8": True}, {"format": "PEM", "pkcs8": False}):
            jobs.append(("dsa", comps, kw, False))
        for kw in ({"format": "DER"}, {"format": "PEM"}, {"format": "OpenSSH"}):
            jobs.append(("dsa", comps, kw, True))
    errs = pmap(job, jobs)
    for kind, mod in (("rsa", rmod), ("dsa", dmod)):
        wrong = ["%s %s key, %s: %s" % (kind.upper(), "public" if j[3] else "private", ", ".join("%s=%s" % kv for kv in sorted(j[2].items())), e)
                 for j, e in zip(jobs, errs) if e and j[0] == kind]
        cnt = sum(1 for j in jobs if j[0] == kind)
        check.ob("K-pw", "K-pw|roundtrip.%s" % kind, not wrong, mod.path, repo.func(mod, "import_key").lineno,
                 extracted=("%d of %d rows differ: " % (len(wrong), cnt) + "; ".join(wrong[:3])) if wrong else "%d (key, format) rows: import_key(export_key(k)) has the components of k; one trailing byte after a DER encoding is refused" % cnt,
                 expected="export/import identity in every unencrypted format (PKCS#1, PKCS#8, SubjectPublicKeyInfo, OpenSSH; DER and PEM) at the encoding boundaries of the components")
    check.count("roundtrip_rows", len(jobs))
