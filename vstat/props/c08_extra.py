"""C08 extras: writer rows (OpenSSH mpint, PKCS#1, RFC 5915, SPKI) and reader rows."""
import ast

from ..absint import Interp
from ..absstate import State
from ..absval import ABytes, UNK, AObj, is_unk
from ..core import AnalysisError
from ..pydb import norm
from ..rules_g import (ObsRow, run_obs, OBJ, realise, local_at_exit, make_snippet)
from ..spec import der

RSA = "Crypto.PublicKey.RSA"
DSA = "Crypto.PublicKey.DSA"
ECC = "Crypto.PublicKey.ECC"


def top(byte, n=4, tail=0x11):
    """An n-byte integer whose most significant byte is `byte`."""
    return int.from_bytes(bytes([byte]) + bytes([tail]) * (n - 1), "big")


def run(check, ctx):
    repo = ctx.repo
    b64 = {"binascii.b2a_base64": lambda i, a, kw, st, node: b"<B64>\n"}
    # ---- OpenSSH public key writers: RFC 4251 mpint sign byte --------------------------
    for tb in (0x7F, 0x80, 0x81, 0xFF, 0x01):
        e, n = top(tb, 3), top(tb, 5, 0x21)
        want = der.ssh_string(b"ssh-rsa") + der.ssh_string(der.mpint(e)) + der.ssh_string(der.mpint(n))
        run_obs(check, repo, ObsRow(
            "ssh.rsa.mpint.%02x" % tb, "C08", RSA, "RsaKey.export_key", [0], lambda v: {},
            lambda res, it: local_at_exit(res, "keystring"), lambda v, want=want: want,
            base={"format": "OpenSSH", "passphrase": None, "pkcs": 1, "protection": None,
                  "randfunc": None, "prot_params": None},
            self_obj=OBJ((RSA, "RsaKey"), _havoc=False, _e=e, _n=n), models=b64, rule="K",
            what="string 'ssh-rsa', mpint e, mpint n (a 00 byte is prepended iff the top bit is set)",
            cite="RFC 4253 6.6, RFC 4251 5 (mpint)"))
        p, q, g, y = top(tb, 4), top(tb, 3, 0x31), top(tb, 4, 0x41), top(tb, 4, 0x51)
        want = der.ssh_string(b"ssh-dss") + b"".join(der.ssh_string(der.mpint(x)) for x in (p, q, g, y))
        run_obs(check, repo, ObsRow(
            "ssh.dsa.mpint.%02x" % tb, "C08", DSA, "DsaKey.export_key", [0], lambda v: {},
            lambda res, it: local_at_exit(res, "keystring"), lambda v, want=want: want,
            base={"format": "OpenSSH", "pkcs8": None, "passphrase": None, "protection": None,
                  "randfunc": None},
            self_obj=OBJ((DSA, "DsaKey"), _havoc=False, _key={"p": p, "q": q, "g": g, "y": y}),
            models=b64, rule="K", what="string 'ssh-dss', mpint p, q, g, y",
            cite="RFC 4253 6.6, RFC 4251 5 (mpint)"))
    # ---- RSA PKCS#1 writer and reader ------------------------------------------------------
    n, e, d, p, q = 3233, 17, 413, 61, 53
    for (n, e, d, p, q) in ((3233, 17, 413, 61, 53), (0x80 * 256 + 0x95, 3, 0, 0, 0)):
        if d == 0:
            # a key whose modulus has its top bit set and needs a 00 prefix
            p, q = 181, 0
            continue
        coeff = pow(q, -1, p)
        want = der.seq(*[der.integer(x) for x in (0, n, e, d, p, q, d % (p - 1), d % (q - 1), coeff)])
        run_obs(check, repo, ObsRow(
            "pkcs1.rsa.private.writer", "C08", RSA, "RsaKey.export_key", [0], lambda v: {},
            lambda res, it: res.returns()[0].value if len(res.returns()) == 1 else "<%d exits>" % len(res.returns()),
            lambda v, want=want: want,
            base={"format": "DER", "passphrase": None, "pkcs": 1, "protection": None,
                  "randfunc": None, "prot_params": None},
            self_obj=OBJ((RSA, "RsaKey"), _havoc=False, _n=n, _e=e, _d=d, _p=p, _q=q,
                         _u=pow(p, -1, q), _dp=d % (p - 1), _dq=d % (q - 1)),
            max_depth=8, rule="K",
            what="RSAPrivateKey ::= SEQUENCE {0, n, e, d, p, q, d mod (p-1), d mod (q-1), q^-1 mod p}",
            cite="RFC 8017 A.1.2"))
        # reader: the same structure comes back as the same components
        def obs(res, it):
            rets = res.returns()
            if len(rets) != 1 or not isinstance(rets[0].value, AObj):
                return "<no key>"
            h = rets[0].state.heap.get(rets[0].value.ident, {})
            return tuple(h.get(k) for k in ("_n", "_e", "_d", "_p", "_q", "_u"))
        run_obs(check, repo, ObsRow(
            "pkcs1.rsa.private.reader", "C08", RSA, "_import_pkcs1_private", [0], lambda v: {},
            obs, lambda v, w=(n, e, d, p, q, pow(p, -1, q)): w,
            base={"encoded": want, "kwargs": ()}, max_depth=16, rule="K",
            what="(n, e, d, p, q, u = p^-1 mod q) read from positions 1..5 of the sequence",
            cite="RFC 8017 A.1.2; RsaKey keeps u = p^-1 mod q"))
    # public SPKI
    spki = der.seq(der.seq(der.oid("1.2.840.113549.1.1.1"), der.null()),
                   der.bitstring(der.seq(der.integer(3233), der.integer(17))))
    run_obs(check, repo, ObsRow(
        "spki.rsa.writer", "C08", RSA, "RsaKey.export_key", [0], lambda v: {},
        lambda res, it: res.returns()[0].value if len(res.returns()) == 1 else "<%d exits>" % len(res.returns()),
        lambda v: spki,
        base={"format": "DER", "passphrase": None, "pkcs": 1, "protection": None,
              "randfunc": None, "prot_params": None},
        self_obj=OBJ((RSA, "RsaKey"), _havoc=False, _n=3233, _e=17), max_depth=8, rule="K",
        what="SubjectPublicKeyInfo {{rsaEncryption, NULL}, BIT STRING {SEQUENCE {n, e}}}",
        cite="RFC 3279 2.3.1, RFC 5280 4.1.2.7"))
    # ---- ECC RFC 5915 writer: the scalar is padded to the field size ---------------------
    P256_OID = "1.2.840.10045.3.1.7"
    for d in (5, (1 << 200) + 0x1234567, (1 << 255) + 3):
        x, y = 0x1111, 0x2222
        pub = b"\x04" + x.to_bytes(32, "big") + y.to_bytes(32, "big")
        want = der.seq(der.integer(1), der.octets(d.to_bytes(32, "big")),
                       der.explicit(0, der.oid(P256_OID)), der.explicit(1, der.bitstring(pub)))
        run_obs(check, repo, ObsRow(
            "rfc5915.writer.%d" % d.bit_length(), "C08", ECC, "EccKey._export_rfc5915_private_der",
            [0], lambda v: {},
            lambda res, it: res.returns()[0].value if len(res.returns()) == 1 else "<%d exits>" % len(res.returns()),
            lambda v, want=want: want, base={"include_ec_params": True},
            self_obj=OBJ((ECC, "EccKey"), _havoc=False, _d=d, _seed=None,
                         _point=OBJ(x=x, y=y), _curve=OBJ(oid=P256_OID)),
            method_models={"size_in_bytes": lambda i, base, a, kw, st, node: 32},
            max_depth=8, rule="K",
            what="ECPrivateKey {1, OCTET STRING of exactly ceil(log2(n)/8) octets, [0] namedCurve, [1] publicKey}",
            cite="RFC 5915 3: privateKey is an octet string of length ceiling(log2(n)/8)"))
