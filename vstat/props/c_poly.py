"""src/poly1305.c interpreted on the C evaluator, compared with RFC 8439 2.5
computed with Python integers.

The limb code touches its operands through additions, carries
(`g < h`, `tmp >> 32`) and masks; the rows put every limb on both sides of each
carry/borrow boundary (0, 4/5 for the +5, 0xFFFFFFFA..0xFFFFFFFF, all-ones
chains) and h[4] over its whole range, so a wrong carry, a wrong mask or a
wrong fold shows as a wrong row.  This is a boundary table, not a proof of the
arithmetic for all 2^160 states; the rule says what it covers.
Shared by C01 (Poly1305 tag of ChaCha20-Poly1305) and C03 (Poly1305 MAC).
"""
import itertools

from ..ceval import CProgram, Machine, CError, Undecided, P, Shard, run_sharded
from ..core import AnalysisError

SRC = "src/poly1305.c"
PRIME = (1 << 130) - 5
M32 = 0xFFFFFFFF


def limbs(v, n=5):
    return [(v >> (32 * i)) & M32 for i in range(n)]


def put_words(m, words, name):
    p = m.alloc(4 * len(words), name, "heap", init=0)
    for i, w in enumerate(words):
        m.write_cells(P(p.obj, 4 * i), list(w.to_bytes(4, "little")))
    return p


def get_words(m, p, n):
    return [int.from_bytes(m.concrete_bytes(P(p.obj, p.off + 4 * i), 4), "little") for i in range(n)]


def val(words):
    return sum(w << (32 * i) for i, w in enumerate(words))


def clamp(r):
    return r & 0x0ffffffc0ffffffc0ffffffc0fffffff


def ref_tag(key_r, key_s, msg):
    r = clamp(int.from_bytes(key_r, "little"))
    s = int.from_bytes(key_s, "little")
    acc = 0
    for i in range(0, len(msg), 16):
        blk = msg[i:i + 16]
        n = int.from_bytes(blk + b"\x01", "little")
        acc = ((acc + n) * r) % PRIME
    return ((acc + s) & ((1 << 128) - 1)).to_bytes(16, "little")


def _bad_events(m):
    return [e for e in m.events if e[0] in ("signed-overflow", "bad-shift", "uninit-read", "overlap")]


def reduce_rows(prog, sh=None):
    sh = sh or Shard()
    wrong = []
    n = 0
    lo = (0, 4, 5, 0xFFFFFFFA, 0xFFFFFFFB, 0xFFFFFFFC, 0xFFFFFFFF)
    mid = (0, 0xFFFFFFFE, 0xFFFFFFFF)
    for h0 in lo:
        for h1, h2, h3 in itertools.product(mid, repeat=3):
            for h4 in range(8):
                h = [h0, h1, h2, h3, h4]
                if not sh.take():
                    continue
                m = Machine(prog, SRC)
                p = put_words(m, h, "h")
                m.call("poly1305_reduce", [p])
                got = val(get_words(m, p, 5))
                n += 1
                want = val(h) % PRIME
                if got != want or _bad_events(m):
                    wrong.append("reduce(h4=%d, h3..h1=%08x %08x %08x, h0=%08x) = %x, expected %x" % (h4, h3, h2, h1, h0, got, want))
    return n, wrong


def accumulate_rows(prog, sh=None):
    sh = sh or Shard()
    wrong = []
    n = 0
    vals = (0, 1, 0x80000000, 0xFFFFFFFF)
    for hs in itertools.product(vals, repeat=4):
        for ms in ((0, 0, 0, 0), (1, 0, 0, 0), (M32, M32, M32, M32), (1, M32, M32, M32), (0x80000000, 0x7FFFFFFF, M32, 0),
                   (M32, 0, 0, M32)):
            for h4, m4 in ((0, 0), (7, 1), (3, 0)):
                h = list(hs) + [h4]
                mm = list(ms) + [m4]
                if not sh.take():
                    continue
                m = Machine(prog, SRC)
                ph, pm = put_words(m, h, "h"), put_words(m, mm, "m")
                m.call("poly1305_accumulate", [ph, pm])
                got = val(get_words(m, ph, 5))
                n += 1
                if got != val(h) + val(mm) or _bad_events(m):
                    wrong.append("accumulate(%x, %x) = %x" % (val(h), val(mm), got))
    return n, wrong


def multiply_rows(prog, sh=None):
    sh = sh or Shard()
    wrong = []
    n = 0
    secrets = (b"\xff" * 16, b"\x00" * 16, bytes(range(1, 17)), b"\xfc\xff\xff\x0f" * 4, b"\x03\x00\x00\x00" + b"\xff" * 12,
               b"\xff\xff\xff\x0f\xfc\xff\xff\x0f\xfc\xff\xff\x0f\xfc\xff\xff\x0f")
    vals = (0, 1, 0xFFFFFFFF)
    for sec in secrets:
        for hs in itertools.product(vals, repeat=4):
            for h4 in (0, 3, 7):
                if not sh.take():
                    continue
                m = Machine(prog, SRC)
                pr = m.alloc(16, "r", "heap", init=0)
                prr = m.alloc(16, "rr", "heap", init=0)
                m.call("poly1305_load_r", [pr, prr, m.alloc_bytes(list(sec), "secret")])
                r = val(get_words(m, pr, 4))
                if r != clamp(int.from_bytes(sec, "little")):
                    wrong.append("load_r(%s) = %x, expected the clamped value %x" % (sec.hex(), r, clamp(int.from_bytes(sec, "little"))))
                    continue
                h = list(hs) + [h4]
                ph = put_words(m, h, "h")
                m.call("poly1305_multiply", [ph, pr, prr])
                got = val(get_words(m, ph, 5))
                n += 1
                if got % PRIME != (val(h) * r) % PRIME or got >= (1 << 131) or _bad_events(m):
                    wrong.append("multiply(h=%x, r=%x) = %x (mod p: %x, expected %x)" % (val(h), r, got, got % PRIME, (val(h) * r) % PRIME))
    return n, wrong


def api_rows(prog, sh=None):
    sh = sh or Shard()
    wrong = []
    n = 0
    keys = ((b"\xff" * 16, b"\xff" * 16), (bytes(range(16)), bytes(range(16, 32))),
            (b"\x02" + b"\x00" * 15, b"\x00" * 16), (b"\xfc\xff\xff\x0f" * 4, b"\x01" + b"\x00" * 15))
    msgs = [b"", b"\xff", b"\xff" * 15, b"\xff" * 16, b"\xff" * 17, b"\xff" * 32, b"\xff" * 33, bytes(range(48)),
            b"\xfb" + b"\xff" * 15, (PRIME - 1).to_bytes(17, "little")[:16] * 3, b"\x00" * 16 + b"\x01"]
    for (kr, ks) in keys:
        for msg in msgs:
            for chunks in ([len(msg)], [1] * len(msg) if len(msg) <= 33 else [7] * (len(msg) // 7) + [len(msg) % 7],
                           [0, min(15, len(msg)), max(0, len(msg) - 15)]):
                if sum(chunks) != len(msg):
                    continue
                if not sh.take():
                    continue
                m = Machine(prog, SRC)
                pp = m.alloc(8, "pState", "heap", init=0)
                rc = m.call("poly1305_init", [pp, m.alloc_bytes(list(kr), "r"), 16, m.alloc_bytes(list(ks), "s"), 16])
                from ..ceval import CT
                st = m.load(pp, CT("ptr", 8, to=CT("void")))
                if rc != 0:
                    wrong.append("poly1305_init returned %r" % rc)
                    continue
                pos = 0
                for c in chunks:
                    buf = m.alloc_bytes(list(msg[pos:pos + c]) or [0], "in")
                    rc = m.call("poly1305_update", [st, buf, c])
                    pos += c
                    if rc != 0:
                        wrong.append("poly1305_update returned %r" % rc)
                out = m.alloc(16, "digest", "heap", init=None)
                rc = m.call("poly1305_digest", [st, out, 16])
                got = m.concrete_bytes(out, 16)
                # digest() must not consume the state: a second call gives the same tag
                out2 = m.alloc(16, "digest2", "heap", init=None)
                m.call("poly1305_digest", [st, out2, 16])
                n += 1
                want = ref_tag(kr, ks, msg)
                if rc != 0 or got != want or m.concrete_bytes(out2, 16) != want or _bad_events(m):
                    wrong.append("tag(r=%s.., %d-byte message in pieces %s) = %s, RFC 8439 gives %s" % (
                        kr[:4].hex(), len(msg), chunks[:4], got.hex(), want.hex()))
                m.call("poly1305_destroy", [st])
    return n, wrong


def poly_tables(check, ctx, rule="K-pw"):
    prog = CProgram(ctx.cdb)
    prog.tu(SRC)
    groups = (
        ("reduce", "reduce_rows", "poly1305_reduce(h) = h mod 2^130-5 for every h < 2^131 whose limbs sit on a carry/borrow boundary (h0 around the +5, all-ones chains, h4 = 0..7)"),
        ("accumulate", "accumulate_rows", "poly1305_accumulate adds the two 160-bit values with every carry"),
        ("multiply", "multiply_rows", "poly1305_load_r clamps r; poly1305_multiply(h, r) = h*r modulo 2^130-5, below 2^131"),
        ("api", "api_rows", "poly1305_init/update/digest = RFC 8439 2.5 for messages around the block boundaries, in any chunking; digest does not consume the state"))
    res = run_sharded(ctx.root, prog, __name__, [g[1] for g in groups], shards=4)
    total = 0
    for key, fname, what in groups:
        n, wrong, und = res[fname]
        if und:
            raise AnalysisError("C evaluator could not decide poly1305 %s: %s" % (key, und))
        total += n
        check.ob(rule, "%s|c|poly1305.%s" % (rule, key), not wrong, SRC, 0,
                 extracted=("%d of %d rows differ: " % (len(wrong), n) + "; ".join(wrong[:3])) if wrong else "%d boundary rows equal to the integer reference" % n,
                 expected=what)
    check.count("c_poly1305_rows", total)
    if total < 2500 and not any(res[g[1]][1] for g in groups):
        raise AnalysisError("only %d poly1305 rows interpreted (confirmed: 7700)" % total)
