"""C15 — HPKE conforms to RFC 9180 (structural slice)."""
import struct

from ..absint import Interp
from ..absstate import State
from ..absval import ABytes, UNK, ABuiltin, AObj, Unknown
from ..core import AnalysisError
from ..rules_g import (Row, run_row, ObsRow, run_obs, I, S, Pred, OBJ, B, INT,
                       LEN, INJECT, realise, local_at_exit)

EXPLANATION = (
    "K/def-use: the key schedule, ExtractAndExpand and the per-message nonce of "
    "lib/Crypto/Protocol/HPKE.py are interpreted abstractly with HKDF-Extract/"
    "Expand replaced by injective symbolic tokens; the resulting terms (labels, "
    "suite_id framing, I2OSP(L,2) prefix, context order, lengths Nk/Nn/Nh, mode "
    "byte) are compared with the terms RFC 9180 sections 4 and 5.1 define, for "
    "all 5 KEMs x 3 AEADs x 4 modes. N: sequence-number effects of seal/unseal "
    "on every normal and exceptional exit, limit test before the increment, "
    "nonce built from the pre-increment value. G: VerifyPSKInputs, set-up "
    "domains, roles, ciphertext length. Not decided: byte equality with the "
    "RFC beyond these terms (HKDF, DH, AEAD internals).")

HP = "Crypto.Protocol.HPKE"

KEMS = {"NIST P-256": (0x0010, 0x0001, 32), "NIST P-384": (0x0011, 0x0002, 48),
        "NIST P-521": (0x0012, 0x0003, 64), "Curve25519": (0x0020, 0x0001, 32),
        "Curve448": (0x0021, 0x0003, 64)}
AEADS = {1: 16, 2: 32, 3: 32}


def tok_extract(salt, ikm):
    return b"{X|" + salt + b"|" + ikm + b"}"


def tok_expand(prk, info, L):
    return b"{P|" + prk + b"|" + info + b"|" + str(L).encode() + b"}"


def m_extract(i, args, kw, st, node):
    salt, ikm = args[0], args[1]
    if isinstance(salt, bytes) and isinstance(ikm, bytes):
        return tok_extract(salt, ikm)
    return ABytes(None)


def m_expand(i, args, kw, st, node):
    prk, info, L = args[0], args[1], args[2]
    if isinstance(prk, bytes) and isinstance(info, bytes) and isinstance(L, int):
        return tok_expand(prk, info, L)
    return ABytes(None)


MODELS = {HP.replace("HPKE", "KDF") + "._HKDF_extract": m_extract,
          HP.replace("HPKE", "KDF") + "._HKDF_expand": m_expand}


# ---- RFC 9180 terms ---------------------------------------------------------
def rfc_lext(suite, salt, label, ikm):
    return tok_extract(salt, b"HPKE-v1" + suite + label + ikm)


def rfc_lexp(suite, prk, label, info, L):
    return tok_expand(prk, struct.pack(">H", L) + b"HPKE-v1" + suite + label + info, L)


def rfc_key_schedule(kem, kdf, aead, mode, ss, info, psk_id, psk, Nk, Nn, Nh):
    suite = b"HPKE" + struct.pack(">HHH", kem, kdf, aead)
    psk_id_hash = rfc_lext(suite, b"", b"psk_id_hash", psk_id)
    info_hash = rfc_lext(suite, b"", b"info_hash", info)
    ksc = bytes([mode]) + psk_id_hash + info_hash
    secret = rfc_lext(suite, ss, b"secret", psk)
    return (rfc_lexp(suite, secret, b"key", ksc, Nk),
            rfc_lexp(suite, secret, b"base_nonce", ksc, Nn),
            rfc_lexp(suite, secret, b"exp", ksc, Nh))


def rfc_extract_and_expand(kem, dh, ctx, Nsecret):
    suite = b"KEM" + struct.pack(">H", kem)
    eae = rfc_lext(suite, b"", b"eae_prk", dh)
    return rfc_lexp(suite, eae, b"shared_secret", ctx, Nsecret)


def cipher_self(**kw):
    d = dict(_encrypt=False, _Nt=16, _Nn=12, _Nk=16, _Nh=32, _aead_id=1,
             _base_nonce=bytes(range(1, 13)), _key=bytes(16), _sequence=5,
             _max_sequence=(1 << 96) - 1)
    d.update(kw)
    return OBJ((HP, "HPKE_Cipher"), **d)


def run(check, ctx):
    repo = ctx.repo
    mod = repo.module(HP)
    # an invalid encapsulated key is refused at set-up: lengths / types of the public-key decoders and the range and
    # curve checks of the point constructor (rows shared with C05 / C06)
    from ..rules_g import run_row as _run_row
    from .c05_extra import ecc_rows, curve_ids
    for r in ecc_rows(repo, curve_ids(repo)):
        if r.rid.startswith(("pk.len", "sec1.")):
            r.prop = "C15"
            _run_row(check, repo, r)
    from . import point_compose
    point_compose.point_rows(check, ctx, rule="G", programs=("observe", "x.observe"), refused_too=True)
    # ---- key schedule terms for every suite and mode -----------------------------
    n = 0
    for curve, (kem, kdf, nh) in sorted(KEMS.items()):
        for aead, nk in sorted(AEADS.items()):
            for mode in (0, 1, 2, 3):
                psk_id, psk = (b"", b"") if mode in (0, 2) else (b"ID", b"K" * 32)
                want = rfc_key_schedule(kem, kdf, aead, mode, b"SS", b"INFO",
                                        psk_id, psk, nk, 12, nh)
                row = ObsRow(
                    "hpke.keyschedule.%04x.%d.%d" % (kem, aead, mode), "C15", HP,
                    "HPKE_Cipher._key_schedule", [0], lambda v: {},
                    lambda res, it: tuple(o.value for o in res.returns())[0]
                    if len(res.returns()) == 1 else "<%d exits>" % len(res.returns()),
                    lambda v, want=want: want,
                    base={"shared_secret": b"SS", "info": b"INFO", "psk_id": psk_id, "psk": psk},
                    self_obj=OBJ((HP, "HPKE_Cipher"), _kem_id=kem, _kdf_id=kdf,
                                 _aead_id=aead, _mode=mode, _Nk=nk, _Nn=12, _Nh=nh,
                                 _hashmod=OBJ(digest_size=nh)),
                    models=MODELS, rule="K",
                    what="(key, base_nonce, exporter_secret) = LabeledExpand(secret, "
                         "'key'/'base_nonce'/'exp', mode||psk_id_hash||info_hash, Nk/Nn/Nh) "
                         "with secret = LabeledExtract(shared_secret, 'secret', psk)",
                    cite="RFC 9180 5.1 KeySchedule, 4 LabeledExtract/LabeledExpand")
                run_obs(check, repo, row)
                n += 1
    for curve, (kem, kdf, nh) in sorted(KEMS.items()):
        want = rfc_extract_and_expand(kem, b"DH", b"CTX", nh)
        run_obs(check, repo, ObsRow(
            "hpke.extract_and_expand.%04x" % kem, "C15", HP, "_extract_and_expand",
            [0], lambda v: {},
            lambda res, it: res.returns()[0].value if res.returns() else "<no exit>",
            lambda v, want=want: want,
            base={"dh": b"DH", "kem_context": b"CTX",
                  "suite_id": b"KEM" + struct.pack(">H", kem),
                  "hashmod": OBJ(digest_size=nh)},
            models=MODELS, rule="K",
            what="shared_secret = LabeledExpand(LabeledExtract('', 'eae_prk', dh), "
                 "'shared_secret', kem_context, Nsecret)", cite="RFC 9180 4.1 ExtractAndExpand"))
    check.floor("K", 60)
    from . import c15_extra
    c15_extra.run(check, ctx, cipher_self, MODELS)
    c15_extra.hpke_history_rows(check, repo)
    # DH(skX, pkY) of RFC 9180 7.1.4: a neutral result must be refused (it would make the shared secret predictable)
    from .c06_extra import ecdh_neutral_rule
    ecdh_neutral_rule(check, repo)
    check.undecided.append("byte equality with RFC 9180 beyond the checked terms "
                           "(HKDF, DH and AEAD internals: C01/C06/C12)")
