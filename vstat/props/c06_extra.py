"""C06 extras: error-code mapping, P4 for point operators, C side."""
import ast

from ..core import AnalysisError
from ..pydb import norm, walk_no_nested
from .. import crules

# callee-set reference: the neutral-element / degenerate-case handling that must stay reachable
NEUTRAL_REF = [
    # translation unit, function, callee that implements the test
    ("src/curve25519.c", "curve25519_scalar_internal", "is_le25p5_zero"),
]


def run(check, ctx):
    repo = ctx.repo
    from .c19_extra import point_ops
    point_ops(check, repo)
    mod = repo.module("Crypto.PublicKey._point")
    # error codes compared in Python are the C macros
    cdb = ctx.cdb
    tu = cdb.tu("src/ec_ws.c")
    codes = {"ERR_EC_POINT": 15, "ERR_EC_CURVE": 16, "ERR_EC_PAI": 19}
    for name, lit in codes.items():
        v = cdb.macro_int(tu, name)
        # every comparison `result == <lit>` in _point.py with that literal
        uses = [n for n in ast.walk(mod.tree) if isinstance(n, ast.Compare) and isinstance(n.comparators[0], ast.Constant)
                and n.comparators[0].value == lit and norm(n.left) in ("result", "res")]
        check.ob("F", "F|code|" + name, v == lit and len(uses) >= 1, mod.path, uses[0].lineno if uses else 0,
                 extracted="%s = %d in src/errors.h; _point.py compares the result with %d at %d site(s)" % (name, v, lit, len(uses)),
                 expected="the literal in Python is the value of the C macro")
    F = cdb.functions()
    for src, fn, callee in NEUTRAL_REF:
        f = [x for x in F.get(fn, []) if x.tu.src == src]
        if not f:
            raise AnalysisError("anchor vanished: %s in %s" % (fn, src))
        called = set(c for (c, r, l) in f[0].calls())
        check.ob("D", "D|c-neutral|%s" % fn, callee in called, src, 0,
                 extracted="%s %s %s" % (fn, "calls" if callee in called else "no longer calls", callee),
                 expected="the Z == 0 (neutral element) case is tested before the projective-to-affine "
                          "inversion, so that the neutral element keeps its own representation")
    n = crules.error_discipline(check, cdb, only_tus=("ec_ws.c", "ed25519.c", "ed448.c", "curve25519.c", "curve448.c"), rule="F")
    if n < 20:
        raise AnalysisError("C error discipline: only %d reference edges in the EC units" % n)
    # exported operation sets
    for src, want in (("src/ec_ws.c", ("ec_ws_new_context", "ec_ws_new_point", "ec_ws_free_point", "ec_ws_get_xy",
                                       "ec_ws_double", "ec_ws_add", "ec_ws_scalar", "ec_ws_clone", "ec_ws_cmp", "ec_ws_neg")),
                      ("src/ed25519.c", ("ed25519_new_point", "ed25519_clone", "ed25519_free_point", "ed25519_cmp",
                                         "ed25519_neg", "ed25519_get_xy", "ed25519_double", "ed25519_add", "ed25519_scalar")),
                      ("src/ed448.c", ("ed448_new_point", "ed448_clone", "ed448_free_point", "ed448_cmp", "ed448_neg",
                                       "ed448_get_xy", "ed448_double", "ed448_add", "ed448_scalar"))):
        ex = crules.exported(cdb, src)
        missing = [w for w in want if w not in ex]
        check.ob("S", "S|exports|" + src, not missing, src, 0,
                 extracted="exported: %d functions; missing %s" % (len(ex), missing or "none"),
                 expected="every operation bound by the Python EcLib class is exported")
