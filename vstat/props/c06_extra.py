"""C06 extras: error-code mapping, P4 for point operators, C side."""
import ast

from ..core import AnalysisError
from ..pydb import norm, walk_no_nested
from .. import crules

# callee-set reference: the neutral-element / degenerate-case handling that must stay reachable
NEUTRAL_REF = [
    # translation unit, function, callee that implements the test
    ("src/curve25519.c", "curve25519_scalar_internal", "is_le25p5_zero"),
]


def ecdh_neutral_rule(check, repo):
    """DH._compute_ecdh: an exchange whose result is the neutral element is refused with ValueError before any byte of
    the shared secret is produced - for both point models: a Weierstrass point at infinity reads x = 0 (no exception),
    a Montgomery (X25519/X448) one has no x (ValueError from the getter)."""
    from ..absint import Interp
    from ..absstate import State
    DH = "Crypto.Protocol.DH"
    dmod = repo.module(DH)
    fn = repo.func(dmod, "_compute_ecdh")
    for model in ("weierstrass", "montgomery"):
        for inf in (True, False):
            def m_x(i, st2, model=model, inf=inf):
                if inf and model == "montgomery":
                    i._diverged = i.do_raise("ValueError", st2, None)
                    return 0
                return 0 if inf else 5
            it = Interp(repo, max_depth=1, method_models={"is_point_at_infinity": lambda i, base, a, kw, st, node, inf=inf: inf,
                                                           "size_in_bytes": lambda i, base, a, kw, st, node: 32})
            st = State()
            P = it.new_obj(st, label="P")
            pub = it.new_obj(st, label="pub", attrs={"pointQ": it.new_obj(st, label="Q")})
            priv = it.new_obj(st, label="priv", attrs={"d": 3, "curve": "NIST P-256" if model == "weierstrass" else "Curve25519"})
            it.inject = {"key_pub.pointQ * key_priv.d": P, "pointP.x": m_x}
            res = it.run(dmod, fn, {"key_priv": priv, "key_pub": pub}, state=st)
            if inf:
                ok = res.rejected() and all("ValueError" in it.exc_mro(o.exc, dmod) for o in res.raises())
                check.ob("D", "D|ecdh.neutral.%s" % model, ok, dmod.path, fn.lineno,
                         extracted="neutral result (%s point): %s" % (model, "refused with " + ",".join(res.raise_classes()) if res.rejected() else "a shared secret is returned"),
                         expected="an exchange whose result is the neutral element raises ValueError")
            else:
                ok = not res.rejected()
                check.ob("D", "D|ecdh.regular.%s" % model, ok, dmod.path, fn.lineno,
                         extracted="regular result: %s" % ("secret returned" if ok else "refused"), expected="returns the x coordinate")
    # a shared point with x = 0 that is NOT the neutral element ((0, +-sqrt(b)) exists on P-192/256/384/521): Z = 00..00 is returned
    it = Interp(repo, max_depth=1, method_models={"is_point_at_infinity": lambda i, base, a, kw, st, node: False,
                                                   "size_in_bytes": lambda i, base, a, kw, st, node: 32})
    st = State()
    P = it.new_obj(st, label="P")
    pub = it.new_obj(st, label="pub", attrs={"pointQ": it.new_obj(st, label="Q")})
    priv = it.new_obj(st, label="priv", attrs={"d": 3, "curve": "NIST P-256"})
    it.inject = {"key_pub.pointQ * key_priv.d": P, "pointP.x": 0}
    res = it.run(dmod, fn, {"key_priv": priv, "key_pub": pub}, state=st)
    rets = res.returns()
    got = rets[0].value if len(rets) == 1 and not res.raises() else None
    check.ob("D", "D|ecdh.x0.weierstrass", isinstance(got, (bytes, bytearray)) and bytes(got) == bytes(32), dmod.path, fn.lineno,
             extracted="shared point (0, y), not the neutral element: %s" % ("Z = 32 zero bytes" if isinstance(got, (bytes, bytearray)) and bytes(got) == bytes(32) else "refused / %r (%s)" % (got, res.raise_classes())),
             expected="SP 800-56A 5.7.1.2: only the point at infinity is an error; x = 0 of a finite point is the shared secret 00..00")


def neutral_predicate_rows(check, repo):
    """EccPoint.is_point_at_infinity / point_at_infinity / EccXPoint.is_point_at_infinity: the predicate is true for
    the neutral element of the curve model and for no other point - in particular not for the other points that share
    a coordinate with it (Edwards: (0, -1) has x = 0 and order 2; Weierstrass: (0, y) are ordinary points)."""
    from ..absint import Interp
    from ..absstate import State
    PT = "Crypto.PublicKey._point"
    mod = repo.module(PT)
    cls = repo.cls(mod, "EccPoint")
    fn = repo.func(mod, "EccPoint.is_point_at_infinity")
    p = (1 << 255) - 19
    rows = [("edwards", (0, 1), True), ("edwards", (0, p - 1), False), ("edwards", (5, 1), False), ("edwards", (1, 0), False), ("edwards", (p - 1, 0), False),
            ("edwards", (3, 7), False),
            ("weierstrass", (0, 0), True), ("weierstrass", (0, 5), False), ("weierstrass", (5, 0), False), ("weierstrass", (3, 7), False)]
    wrong = []
    for kind, (x, y), want in rows:
        it = Interp(repo, max_depth=3)
        st = State()
        me = it.new_obj(st, mod, cls, havoc=False)
        curve = it.new_obj(st, label="curve", attrs={"is_edwards": kind == "edwards", "is_weierstrass": kind == "weierstrass", "is_montgomery": False})
        st.heap[me.ident].update({"_curve": curve, "curve": kind})
        it.inject = {"self.x": x, "self.y": y, "self.xy": (x, y)}
        res = it.run(mod, fn, {}, self_obj=me, state=st)
        rets = res.returns()
        got = rets[0].value if len(rets) == 1 and not res.raises() else "<%d exits, raises %s>" % (len(rets), res.raise_classes())
        if got is not want:
            wrong.append("%s point (%s, %s): %r" % (kind, "p-1" if x == p - 1 else x, "p-1" if y == p - 1 else y, got))
    check.ob("K-pw", "K-pw|neutral.predicate", not wrong, mod.path, fn.lineno,
             extracted="; ".join(wrong) if wrong else "%d (curve model, point) rows: true exactly for (0, 1) on Edwards curves and for the (0, 0) encoding of O on Weierstrass curves" % len(rows),
             expected="is_point_at_infinity() is true for the neutral element only (Edwards: (0, 1), not the order-2 point (0, -1))")
    # point_at_infinity() builds that same element
    fn2 = repo.func(mod, "EccPoint.point_at_infinity")
    wrong = []
    for kind, want in (("edwards", (0, 1)), ("weierstrass", (0, 0))):
        seen = []

        def m_pt(i, a, kw, st, node, seen=seen):
            seen.append(tuple(a[:2]))
            return i.new_obj(st, label="pt")
        it = Interp(repo, max_depth=2, extra_models={PT + ".EccPoint": m_pt})
        st = State()
        me = it.new_obj(st, mod, cls, havoc=False)
        curve = it.new_obj(st, label="curve", attrs={"is_edwards": kind == "edwards", "is_weierstrass": kind == "weierstrass", "is_montgomery": False})
        st.heap[me.ident].update({"_curve": curve, "curve": kind})
        it.run(mod, fn2, {}, self_obj=me, state=st)
        if seen != [want]:
            wrong.append("%s: EccPoint%r" % (kind, seen))
    check.ob("K-pw", "K-pw|neutral.constructor", not wrong, mod.path, fn2.lineno,
             extracted="; ".join(wrong) if wrong else "EccPoint(0, 1) on Edwards curves, EccPoint(0, 0) on Weierstrass curves",
             expected="point_at_infinity() returns the neutral element of the curve model")


def run(check, ctx):
    repo = ctx.repo
    from .c19_extra import point_ops
    point_ops(check, repo)
    neutral_predicate_rows(check, repo)
    mod = repo.module("Crypto.PublicKey._point")
    # error codes compared in Python are the C macros
    cdb = ctx.cdb
    tu = cdb.tu("src/ec_ws.c")
    codes = {"ERR_EC_POINT": 15, "ERR_EC_CURVE": 16, "ERR_EC_PAI": 19}
    for name, lit in codes.items():
        v = cdb.macro_int(tu, name)
        # every comparison `result == <lit>` in _point.py with that literal
        uses = [n for n in ast.walk(mod.tree) if isinstance(n, ast.Compare) and isinstance(n.comparators[0], ast.Constant)
                and n.comparators[0].value == lit and norm(n.left) in ("result", "res")]
        check.ob("F", "F|code|" + name, v == lit and len(uses) >= 1, mod.path, uses[0].lineno if uses else 0,
                 extracted="%s = %d in src/errors.h; _point.py compares the result with %d at %d site(s)" % (name, v, lit, len(uses)),
                 expected="the literal in Python is the value of the C macro")
    F = cdb.functions()
    for src, fn, callee in NEUTRAL_REF:
        f = [x for x in F.get(fn, []) if x.tu.src == src]
        if not f:
            raise AnalysisError("anchor vanished: %s in %s" % (fn, src))
        called = set(c for (c, r, l) in f[0].calls())
        check.ob("D", "D|c-neutral|%s" % fn, callee in called, src, 0,
                 extracted="%s %s %s" % (fn, "calls" if callee in called else "no longer calls", callee),
                 expected="the Z == 0 (neutral element) case is tested before the projective-to-affine "
                          "inversion, so that the neutral element keeps its own representation")
    n = crules.error_discipline(check, cdb, only_tus=("ec_ws.c", "ed25519.c", "ed448.c", "curve25519.c", "curve448.c"), rule="F")
    if n < 20:
        raise AnalysisError("C error discipline: only %d reference edges in the EC units" % n)
    # exported operation sets
    for src, want in (("src/ec_ws.c", ("ec_ws_new_context", "ec_ws_new_point", "ec_ws_free_point", "ec_ws_get_xy",
                                       "ec_ws_double", "ec_ws_add", "ec_ws_scalar", "ec_ws_clone", "ec_ws_cmp", "ec_ws_neg")),
                      ("src/ed25519.c", ("ed25519_new_point", "ed25519_clone", "ed25519_free_point", "ed25519_cmp",
                                         "ed25519_neg", "ed25519_get_xy", "ed25519_double", "ed25519_add", "ed25519_scalar")),
                      ("src/ed448.c", ("ed448_new_point", "ed448_clone", "ed448_free_point", "ed448_cmp", "ed448_neg",
                                       "ed448_get_xy", "ed448_double", "ed448_add", "ed448_scalar"))):
        ex = crules.exported(cdb, src)
        missing = [w for w in want if w not in ex]
        check.ob("S", "S|exports|" + src, not missing, src, 0,
                 extracted="exported: %d functions; missing %s" % (len(ex), missing or "none"),
                 expected="every operation bound by the Python EcLib class is exported")
