"""src/chacha20.c on the C evaluator (C11, C02, C09): histories of
chacha20_seek / chacha20_encrypt calls around the ends of the block counter,
compared with a position-tracking reference that uses the checker's own
RFC 8439 block function.

What a history decides: every byte released belongs to the position the caller
is at (block counter with carry from the low to the high word for 8-byte
nonces, offsets inside a block, any chunking); a request that would run past
the last block fails; after a failure nothing is released until a successful
seek (the counter never wraps silently to block 0); invalid seeks are refused
and leave the position alone.
"""
import struct

from ..ceval import CProgram, Machine, CError, Undecided, P, CT, Shard, run_sharded, VOID
from ..core import AnalysisError

SRC = "src/chacha20.c"
PTR = CT("ptr", 8, to=VOID)
KEY = bytes(range(0x40, 0x60))


def _rotl(v, n):
    return ((v << n) | (v >> (32 - n))) & 0xFFFFFFFF


def _qr(s, a, b, c, d):
    s[a] = (s[a] + s[b]) & 0xFFFFFFFF; s[d] = _rotl(s[d] ^ s[a], 16)
    s[c] = (s[c] + s[d]) & 0xFFFFFFFF; s[b] = _rotl(s[b] ^ s[c], 12)
    s[a] = (s[a] + s[b]) & 0xFFFFFFFF; s[d] = _rotl(s[d] ^ s[a], 8)
    s[c] = (s[c] + s[d]) & 0xFFFFFFFF; s[b] = _rotl(s[b] ^ s[c], 7)


def block(key, nonce, counter):
    """RFC 8439 2.3 (12-byte nonce) / the original 8-byte nonce, 64-bit counter layout."""
    st = [0x61707865, 0x3320646e, 0x79622d32, 0x6b206574] + list(struct.unpack("<8I", key))
    if len(nonce) == 12:
        st += [counter & 0xFFFFFFFF] + list(struct.unpack("<3I", nonce))
    else:
        st += [counter & 0xFFFFFFFF, (counter >> 32) & 0xFFFFFFFF] + list(struct.unpack("<2I", nonce))
    w = list(st)
    for _ in range(10):
        _qr(w, 0, 4, 8, 12); _qr(w, 1, 5, 9, 13); _qr(w, 2, 6, 10, 14); _qr(w, 3, 7, 11, 15)
        _qr(w, 0, 5, 10, 15); _qr(w, 1, 6, 11, 12); _qr(w, 2, 7, 8, 13); _qr(w, 3, 4, 9, 14)
    return struct.pack("<16I", *[(a + b) & 0xFFFFFFFF for a, b in zip(w, st)])


def histories(nlen):
    top = (1 << 32) if nlen == 12 else (1 << 64)        # number of blocks
    hi = lambda b: (b >> 32) & 0xFFFFFFFF
    lo = lambda b: b & 0xFFFFFFFF
    H = []
    H.append(("plain stream, odd chunking", [("enc", 1), ("enc", 63), ("enc", 64), ("enc", 65), ("enc", 0), ("enc", 130)]))
    H.append(("offset inside a block", [("seek", 0, 5, 63), ("enc", 2), ("enc", 70), ("seek", 0, 5, 0), ("enc", 64)]))
    H.append(("low word of the counter carries", [("seek", 0, 0xFFFFFFFE, 7), ("enc", 57), ("enc", 64), ("enc", 64), ("enc", 64)]))
    H.append(("up to the end of the key stream", [("seek", hi(top - 3), lo(top - 3), 0), ("enc", 64), ("enc", 64), ("enc", 64), ("enc", 64),
                                                ("enc", 64), ("enc", 1), ("seek", 0, 0, 0), ("enc", 64)]))
    H.append(("one request across the end", [("enc", 64), ("seek", hi(top - 2), lo(top - 2), 0), ("enc", 200), ("enc", 64), ("enc", 64),
                                            ("seek", 0, 1, 0), ("enc", 64)]))
    H.append(("seek to the last block, then go on", [("enc", 64), ("seek", hi(top - 1), lo(top - 1), 0), ("enc", 64), ("enc", 64), ("enc", 64)]))
    H.append(("seek to the last block with an offset", [("enc", 64), ("seek", hi(top - 1), lo(top - 1), 60), ("enc", 4), ("enc", 4), ("enc", 64)]))
    H.append(("invalid seeks leave the position alone", [("enc", 10), ("seek", 0, 3, 64), ("enc", 10), ("seek", 0, 3, 1000), ("enc", 10)] +
              ([("seek", 1, 0, 0), ("enc", 10)] if nlen == 12 else [])))
    # a refused seek must not move the block counter either: go on across the next block boundaries afterwards
    H.append(("a refused seek does not move the counter", [("enc", 70), ("seek", 0, 0, 64), ("enc", 100), ("seek", 0, 9, 200), ("enc", 100)] +
              ([("seek", 1, 0, 0), ("enc", 130), ("seek", 7, 5, 3), ("enc", 64)] if nlen == 12 else [])))
    return top, H


def history_rows(prog, sh=None):
    sh = sh or Shard()
    wrong = []
    n = 0
    for nlen in (8, 12):
        nonce = bytes(range(0x10, 0x10 + nlen))
        top, H = histories(nlen)
        for name, ops in H:
            if not sh.take():
                continue
            m = Machine(prog, SRC, budget=30000000)
            pp = m.alloc(8, "pState", "heap", init=0)
            rc = m.call("chacha20_init", [pp, m.alloc_bytes(list(KEY), "key"), 32, m.alloc_bytes(list(nonce), "nonce"), nlen])
            if rc != 0:
                wrong.append("chacha20_init(%d-byte nonce) returns %r" % (nlen, rc))
                continue
            st = m.load(pp, PTR)
            pos = 0          # byte position the caller is at
            dead = False     # a failure was reported and no seek succeeded since
            for k, op in enumerate(ops):
                n += 1
                where = "%d-byte nonce, '%s', step %d %r" % (nlen, name, k + 1, op)
                if op[0] == "seek":
                    _, bh, bl, off = op
                    valid = off < 64 and (nlen == 8 or bh == 0)
                    rc = m.call("chacha20_seek", [st, bh, bl, off])
                    if not valid:
                        if rc == 0:
                            wrong.append("%s: invalid seek accepted" % where)
                            break
                        continue
                    blk = (bh << 32) | bl
                    if rc == 0:
                        pos, dead = blk * 64 + off, False
                    elif blk < top - 1:
                        wrong.append("%s: valid seek refused with %r" % (where, rc))
                        break
                    else:
                        dead = True
                    continue
                ln = op[1]
                src = m.alloc_bytes([0] * max(ln, 1), "in")
                dst = m.alloc(max(ln, 1), "out", "heap", init=None)
                rc = m.call("chacha20_encrypt", [st, src, dst, ln])
                end = pos + ln
                if dead:
                    if rc == 0 and ln:
                        got = m.concrete_bytes(dst, ln)
                        wrong.append("%s: after a reported end of key stream %d more bytes are released (%s.., block 0 starts %s..)" % (
                            where, ln, got[:4].hex(), block(KEY, nonce, 0)[:4].hex()))
                        break
                    continue
                if rc != 0:
                    if end <= (top - 1) * 64:
                        wrong.append("%s: refused with %r although the request ends at block %#x" % (where, rc, end // 64))
                        break
                    dead = True
                    continue
                if end > top * 64:
                    wrong.append("%s: a request running past the last block is accepted" % where)
                    break
                if ln:
                    got = m.concrete_bytes(dst, ln)
                    ks = b"".join(block(KEY, nonce, b) for b in range(pos // 64, (end - 1) // 64 + 1))
                    want = ks[pos % 64: pos % 64 + ln]
                    if got != want:
                        i = [j for j in range(ln) if got[j] != want[j]][0]
                        wrong.append("%s: byte %d is not the key stream of block %#x offset %d" % (where, i, (pos + i) // 64, (pos + i) % 64))
                        break
                pos = end
            bad = [x for x in m.events if x[0] in ("bad-shift", "signed-overflow", "uninit-read", "overlap")]
            if bad:
                wrong.append("%d-byte nonce, '%s': %s (line %s)" % (nlen, name, bad[0][1], bad[0][2]))
    return n, wrong


def guard_rows(prog, sh=None):
    sh = sh or Shard()
    wrong = []
    n = 0
    for klen in (0, 16, 31, 32, 33):
        for nlen in (0, 7, 8, 9, 12, 16, 24):
            if not sh.take():
                continue
            m = Machine(prog, SRC)
            pp = m.alloc(8, "pState", "heap", init=0)
            rc = m.call("chacha20_init", [pp, m.alloc_bytes([1] * max(klen, 1), "key"), klen, m.alloc_bytes([2] * max(nlen, 1), "nonce"), nlen])
            n += 1
            ok = klen == 32 and nlen in (8, 12, 16)
            if (rc == 0) != ok:
                wrong.append("chacha20_init(key %d bytes, nonce %d bytes) returns %r" % (klen, nlen, rc))
            if rc == 0 and nlen == 16:
                # the HChaCha20 layout has no counter: it must not be usable as a stream
                st = m.load(pp, PTR)
                r2 = m.call("chacha20_encrypt", [st, m.alloc_bytes([0] * 8, "in"), m.alloc(8, "out", "heap", init=None), 8])
                r3 = m.call("chacha20_seek", [st, 0, 0, 0])
                n += 1
                if r2 == 0 or r3 == 0:
                    wrong.append("a 16-byte-nonce (HChaCha20) state can be used as a stream cipher")
    return n, wrong


def chacha_tables(check, ctx, rule="K-pw"):
    prog = CProgram(ctx.cdb)
    prog.tu(SRC)
    groups = (("histories", "history_rows", "every byte released by chacha20_encrypt is the RFC 8439 key stream of the caller's position (8- and 12-byte nonces, carry between the counter words, offsets, chunking); a request past the last block fails and nothing is released afterwards until a successful seek; invalid seeks are refused", 16),
              ("init", "guard_rows", "chacha20_init accepts exactly 32-byte keys and 8/12/16-byte nonces; a 16-byte-nonce state cannot encrypt or seek", 8))
    total = 0
    for key, fname, what, shards in groups:
        res = run_sharded(ctx.root, prog, __name__, [fname], shards=shards)
        n, wrong, und = res[fname]
        if und:
            raise AnalysisError("C evaluator could not decide %s: %s" % (key, und))
        total += n
        check.ob(rule, "%s|c|chacha20.%s" % (rule, key), not wrong, SRC, 0,
                 extracted=("%d of %d steps differ: " % (len(wrong), n) + "; ".join(wrong[:3])) if wrong else "%d steps as the reference" % n,
                 expected=what)
    check.count("c_chacha_rows", total)
    return total
