"""C07 — RSA-OAEP and PKCS#1 v1.5 encryption (structural slice)."""
from ..absval import ABytes, UNK, Unknown
from ..absint import Interp
from ..absstate import State
from ..rules_g import (Row, run_row, ObsRow, run_obs, I, S, Pred, OBJ, B, INT,
                       LEN, INJECT, BIG, realise)

EXPLANATION = (
    "Rule G on the length/range guards of RSAES-OAEP and RSAES-PKCS1-v1_5 "
    "(message length limits at encryption, ciphertext length = k, ciphertext "
    "integer below the modulus, OAEP decode result), K-pw on the sentinel "
    "selection of PKCS1_v1_5.decrypt against the documented contract of the "
    "native decoder, K on the EME-PKCS1-v1_5 block assembled by encrypt (00 02, "
    "non-zero PS of the right length, 00, M) and on MGF1; C side: constants and "
    "guards of pkcs1_decode.c (engine E-C). Not decided: the accept/reject "
    "decision of the constant-time C decoders over all encoded messages.")

OAEP = "Crypto.Cipher.PKCS1_OAEP"
V15 = "Crypto.Cipher.PKCS1_v1_5"
N1024 = (1 << 1023) + 12345


def oaep_value_rows(check, repo):
    """RSAES-OAEP as byte strings (RFC 8017 7.1.1 / 7.1.2) with the hash and the MGF replaced by fixed injective
    stand-ins and the RSA primitive by the identity: encrypt() must hand EM = 00 || maskedSeed || maskedDB to the
    primitive and return it as k bytes, for every message length 0..k-2hLen-2 and modulus sizes of every residue
    modulo 8; decrypt() of that must give the message back (the native oaep_decode replaced by the checker's
    reference of its contract; the native code itself is decided by K-pw|c|pkcs1.oaep_decode)."""
    import hashlib
    from ..absval import ABuiltin
    mod = repo.module(OAEP)
    cls = repo.cls(mod, "PKCS1OAEP_Cipher")
    f_enc, f_dec = repo.func(mod, "PKCS1OAEP_Cipher.encrypt"), repo.func(mod, "PKCS1OAEP_Cipher.decrypt")

    def H(data, hl):
        return hashlib.sha512(b"toyhash" + bytes(data)).digest()[:hl]

    def MGF(seed, ln):
        out, c = b"", 0
        while len(out) < ln:
            out += hashlib.sha512(b"toymgf" + bytes(seed) + bytes([c])).digest()
            c += 1
        return out[:ln]

    def m_mgf(i, a, kw, st, node):
        if len(a) == 2 and isinstance(a[0], (bytes, bytearray)) and isinstance(a[1], int):
            return MGF(a[0], a[1])
        return ABytes(None)
    wrong = []
    n = 0
    for hl in (2, 3):
        for label in (b"", b"label"):
            for modBits in (8 * (2 * hl + 2) + r for r in (-7, -3, 0, 1, 5, 8, 17, 40)):
                k = (modBits + 7) // 8
                if k < 2 * hl + 2:
                    continue
                seed = bytes((0xC0 + i) & 0xFF for i in range(hl))
                for mLen in sorted(set([0, 1, k - 2 * hl - 2, max(0, k - 2 * hl - 3), k - 2 * hl - 1])):
                    msg = bytes((0x41 + i) & 0xFF for i in range(mLen))

                    def m_new(i, base, a, kw, st, node):
                        o = i.new_obj(st, label="hash")
                        st.heap[o.ident].update({"data": bytes(a[0]) if a and isinstance(a[0], (bytes, bytearray)) else b"", "digest_size": hl})
                        return o

                    def m_digest(i, base, a, kw, st, node):
                        d = st.heap.get(getattr(base, "ident", -1), {}).get("data")
                        return H(d, hl) if isinstance(d, (bytes, bytearray)) else ABytes(hl)
                    seen = {}

                    def m_encrypt(i, base, a, kw, st, node, seen=seen):
                        seen["em_int"] = a[0] if a else None
                        return a[0] if a else UNK

                    def setup():
                        it = Interp(repo, max_depth=6, extra_models={"vstat.toymgf": m_mgf, "vstat.seed": lambda i, a, kw, st, node: seed,
                                                                    "Crypto.Cipher._pkcs1_oaep_decode.oaep_decode": m_oaep_decode},
                                    method_models={"new": m_new, "digest": m_digest, "_encrypt": m_encrypt, "_decrypt_to_bytes": m_decrypt})
                        st = State()
                        me = it.new_obj(st, mod, cls, havoc=False)
                        hobj = it.new_obj(st, label="hashobj")
                        st.heap[hobj.ident].update({"digest_size": hl})
                        key = it.new_obj(st, label="key")
                        st.heap[key.ident].update({"n": (1 << (modBits - 1)) + 12345})
                        st.heap[me.ident].update({"_key": key, "_hashObj": hobj, "_label": label, "_mgf": ABuiltin("vstat.toymgf"), "_randfunc": ABuiltin("vstat.seed")})
                        return it, st, me

                    def m_decrypt(i, base, a, kw, st, node):
                        v = a[0] if a else None
                        return v.to_bytes(k, "big") if isinstance(v, int) and v < (1 << (8 * k)) else ABytes(k)

                    def m_oaep_decode(i, a, kw, st, node):
                        # contract of oaep_decode(em, lHash, db): index of the message inside db, or a negative value
                        em, lh, db = (list(a) + [None] * 3)[:3]
                        if not all(isinstance(x, (bytes, bytearray)) for x in (em, lh, db)):
                            return Unknown("int")
                        if em[0] != 0 or bytes(db[:len(lh)]) != bytes(lh):
                            return -1
                        rest = bytes(db[len(lh):])
                        z = len(rest) - len(rest.lstrip(b"\x00"))
                        if z == len(rest) or rest[z] != 1:
                            return -1
                        return len(lh) + z + 1
                    it, st, me = setup()
                    res = it.run(mod, f_enc, {"message": msg}, self_obj=me, state=st)
                    n += 1
                    if mLen > k - 2 * hl - 2:
                        if not (res.rejected() and set(res.raise_classes()) <= {"ValueError"}):
                            wrong.append("encrypt of %d bytes with k=%d, hLen=%d is not refused" % (mLen, k, hl))
                        continue
                    r = res.returns()
                    got = bytes(r[0].value) if len(r) == 1 and isinstance(r[0].value, (bytes, bytearray)) and not res.raises() else None
                    lh = H(label, hl)
                    db = lh + bytes(k - mLen - 2 * hl - 2) + b"\x01" + msg
                    mdb = bytes(x ^ y for x, y in zip(db, MGF(seed, k - hl - 1)))
                    ms = bytes(x ^ y for x, y in zip(seed, MGF(mdb, hl)))
                    want = b"\x00" + ms + mdb
                    if got != want or seen.get("em_int") != int.from_bytes(want, "big"):
                        wrong.append("encrypt(%d bytes, k=%d (modBits %d), hLen=%d): %s, RFC 8017 7.1.1 gives EM %s" % (mLen, k, modBits, hl, got.hex() if got else res.raise_classes(), want.hex()))
                        continue
                    it, st, me = setup()
                    res = it.run(mod, f_dec, {"ciphertext": want}, self_obj=me, state=st)
                    n += 1
                    r = res.returns()
                    back = bytes(r[0].value) if len(r) == 1 and isinstance(r[0].value, (bytes, bytearray)) and not res.raises() else None
                    if back != msg:
                        wrong.append("decrypt(encrypt(%d bytes)), k=%d, hLen=%d: %r" % (mLen, k, hl, back if back is not None else res.raise_classes()))
                    # a ciphertext whose DB does not start with lHash must be refused (the other label)
                    it, st, me = setup()
                    st.heap[me.ident]["_label"] = label + b"x"
                    res = it.run(mod, f_dec, {"ciphertext": want}, self_obj=me, state=st)
                    n += 1
                    if not (res.rejected() and set(res.raise_classes()) <= {"ValueError"}):
                        wrong.append("decrypt under another label, k=%d, hLen=%d: not refused" % (k, hl))
    check.ob("K-pw", "K-pw|oaep.eme.bytes", not wrong, mod.path, f_enc.lineno,
             extracted=("%d of %d rows differ: " % (len(wrong), n) + "; ".join(wrong[:3])) if wrong else "%d rows: EM byte for byte as RFC 8017 7.1.1 for every modulus size mod 8 and message length 0..max; decrypt inverts it; another label is refused" % n,
             expected="EME-OAEP: EM = 00 || (seed xor MGF(maskedDB)) || ((lHash || PS || 01 || M) xor MGF(seed)), as k bytes; decrypt(encrypt(M)) == M")
    check.count("oaep_rows", n)


def run(check, ctx):
    repo = ctx.repo
    # the label is part of the cipher object's configuration: a mutable label handed in is copied, so that every later
    # encrypt() / decrypt() of the object uses the label it was created with
    from .c09_extra import retention_rule
    retention_rule(check, repo, targets=[(OAEP, "PKCS1OAEP_Cipher", ("_label",))], floor=1)
    oaep_self = OBJ((OAEP, "PKCS1OAEP_Cipher"), _key=OBJ(n=N1024),
                    _hashObj=OBJ(digest_size=20), _label=b"", _mgf=UNK, _randfunc=UNK)
    run_row(check, repo, Row("oaep.enc.len", "C07", OAEP, "PKCS1OAEP_Cipher.encrypt",
                             I(0, 86), LEN("message"), self_obj=oaep_self,
                             extra_points=(85, 86, 87, 128), cite="RFC 8017 7.1.1 step 1b: mLen <= k - 2hLen - 2"))
    run_row(check, repo, Row("oaep.dec.len", "C07", OAEP, "PKCS1OAEP_Cipher.decrypt",
                             S(128), LEN("ciphertext"), self_obj=oaep_self,
                             extra_points=(127, 128, 129), cite="RFC 8017 7.1.2 step 1b: len(C) = k"))
    run_row(check, repo, Row("oaep.dec.result", "C07", OAEP, "PKCS1OAEP_Cipher.decrypt",
                             I(1, None), INJECT("assign:res"), base={"ciphertext": ABytes(128)},
                             self_obj=oaep_self, domain=I(-5, 200), extra_points=(0, 1, -1, 21, 41),
                             cite="a decoding failure (result <= 0) raises ValueError"))
    mm = {"size_in_bytes": lambda i, base, a, kw, st, node: 128}
    v15_self = OBJ((V15, "PKCS115_Cipher"), _key=OBJ(), _randfunc=UNK)
    run_row(check, repo, Row("v15.enc.len", "C07", V15, "PKCS115_Cipher.encrypt",
                             I(0, 117), LEN("message"), self_obj=v15_self, method_models=mm,
                             extra_points=(116, 117, 118, 128), cite="RFC 8017 7.2.1 step 1: mLen <= k - 11"))
    run_row(check, repo, Row("v15.dec.len", "C07", V15, "PKCS115_Cipher.decrypt",
                             S(128), LEN("ciphertext"), base={"sentinel": b"S", "expected_pt_len": 0},
                             self_obj=v15_self, method_models=mm, extra_points=(127, 128, 129),
                             cite="RFC 8017 7.2.2 step 1"))
    rk = OBJ(("Crypto.PublicKey.RSA", "RsaKey"), _n=BIG, _e=65537)
    run_row(check, repo, Row("rsa.range.decrypt", "C07", "Crypto.PublicKey.RSA",
                             "RsaKey._decrypt_to_bytes", I(0, BIG - 1), INT("ciphertext"),
                             self_obj=rk, extra_points=(BIG, 2 * BIG), max_depth=1,
                             also_ok_exc=(), cite="RFC 8017 5.1.2: 0 <= c <= n-1"))
    # ---- EME-PKCS1-v1_5 block -----------------------------------------------------------
    tape = [0x00, 0x11, 0x00, 0x00, 0x22, 0x33, 0x44, 0x00, 0x55, 0x66, 0x77, 0x88, 0x99, 0xAA,
            0xBB, 0xCC, 0x00, 0xDD, 0xEE, 0xFF, 0x01, 0x02]
    state = {}

    def m_rand(i, base, a, kw, st, node):
        n = a[0] if a else 1
        out = bytes(tape[state["pos"]:state["pos"] + n])
        state["pos"] += n
        return out

    def m_encrypt(i, base, a, kw, st, node):
        state["em"] = a[0] if a else None
        return 7
    for k, m in ((16, b"M1"), (20, b""), (24, b"hello")):
        def vary(v, k=k):
            state.clear()
            state["pos"] = 0
            return {}
        nz = [b for b in tape if b][:k - len(m) - 3]
        want = int.from_bytes(b"\x00\x02" + bytes(nz) + b"\x00" + m, "big")
        run_obs(check, repo, ObsRow(
            "v15.enc.block.%d" % k, "C07", V15, "PKCS115_Cipher.encrypt", [0], vary,
            lambda res, it: state.get("em"), lambda v, want=want: want, base={"message": m},
            self_obj=OBJ((V15, "PKCS115_Cipher"), _key=OBJ(), _randfunc=OBJ()),
            method_models={"size_in_bytes": lambda i, base, a, kw, st, node, k=k: k,
                           "_encrypt": m_encrypt, "__call__": m_rand},
            models={}, rule="K", inject={"self._randfunc(1)": lambda it, st: m_rand(it, None, [1], {}, st, None)},
            what="EM = 00 02 || PS (k - mLen - 3 non-zero bytes from the random source, zero "
                 "bytes skipped) || 00 || M", cite="RFC 8017 7.2.1 step 2"))
    # ---- sentinel selection ------------------------------------------------------------------
    K = 128

    def mk_decode(size, zero_output):
        def m_dec(i, a, kw, st, node):
            return size
        return m_dec
    cases = [
        # (label, sentinel, native result, output buffer left zeroed?, expected)
        ("bytes sentinel, padding ok", b"SENT", 100, False, "slice"),
        ("bytes sentinel, padding bad (native selects the sentinel)", b"SENT", K - 4, True, "slice"),
        ("bytes sentinel, parameter error -1", b"SENT", -1, True, "sentinel"),
        ("None sentinel, padding ok", None, 100, False, "slice"),
        ("None sentinel, empty message", None, K, False, "slice"),
        ("None sentinel, padding bad (zeroed buffer, result k)", None, K, True, "sentinel"),
        ("None sentinel, parameter error -1", None, -1, True, "sentinel"),
        ("str sentinel, padding bad", "S", K, True, "sentinel"),
    ]
    for label, sent, size, zeroed, want in cases:
        outbuf = bytes(K) if zeroed else bytes([0, 2]) + bytes([7]) * (K - 2)

        def obs(res, it, sent=sent):
            rets = res.returns()
            if len(rets) != 1:
                return "<%d exits>" % len(rets)
            v = rets[0].value
            if v is sent or (sent is not None and v == sent):
                return "sentinel"
            return "slice"
        run_obs(check, repo, ObsRow(
            "v15.sentinel|" + label, "C07", V15, "PKCS115_Cipher.decrypt", [0], lambda v: {},
            obs, lambda v, want=want: want,
            base={"ciphertext": ABytes(K), "sentinel": sent, "expected_pt_len": 0},
            self_obj=v15_self, method_models=mm,
            models={"Crypto.Cipher._pkcs1_oaep_decode.pkcs1_decode": mk_decode(size, zeroed)},
            inject={"assign:output": outbuf}, rule="K-pw",
            what="the sentinel comes back exactly when the native decoder reports a failure "
                 "(negative result, or with an empty in-band sentinel a zeroed output buffer)",
            cite="property C07; contract documented in src/pkcs1_decode.c pkcs1_decode()"))
    # ---- what the native decoder is told: the caller's expected length and sentinel on both paths -----------
    wrong = []
    for sent, lab in ((b"SENT", "bytes sentinel"), (None, "None sentinel"), ("txt", "str sentinel"), (bytes(K + 1), "over-long sentinel")):
        for exp in (0, 16, 33):
            seen = {}

            def m_dec(i, a, kw, st, node, seen=seen):
                seen["args"] = list(a)
                return 50
            it2 = Interp(repo, max_depth=2, extra_models={"Crypto.Cipher._pkcs1_oaep_decode.pkcs1_decode": m_dec}, method_models=mm)
            st2 = State()
            me2 = realise(v15_self, it2, st2, {})
            res = it2.run(repo.module(V15), repo.func(repo.module(V15), "PKCS115_Cipher.decrypt"),
                          {"ciphertext": ABytes(K), "sentinel": sent, "expected_pt_len": exp}, self_obj=me2, state=st2)
            a = seen.get("args")
            if not a or len(a) < 4:
                wrong.append("%s, expected_pt_len %d: the native decoder is not called" % (lab, exp))
                continue
            in_band = isinstance(sent, bytes) and len(sent) <= K
            if a[2] != exp:
                wrong.append("%s, expected_pt_len %d: the native decoder is told %r" % (lab, exp, a[2]))
            if in_band and a[1] != sent:
                wrong.append("%s: the native decoder does not receive the sentinel" % lab)
            if not in_band and a[1] != b"":
                wrong.append("%s: the native decoder receives %r as in-band sentinel" % (lab, a[1]))
    fn15 = repo.func(repo.module(V15), "PKCS115_Cipher.decrypt")
    check.ob("K-pw", "K-pw|v15.decode.args", not wrong, repo.module(V15).path, fn15.lineno,
             extracted="; ".join(wrong[:3]) if wrong else "12 (sentinel kind, expected length) combinations: the caller's expected_pt_len and sentinel (or the empty string when it cannot be passed in band) reach pkcs1_decode",
             expected="the plaintext-length expectation is enforced by the constant-time decoder on every path (a correctly padded message of another length must give the sentinel)")
    # ---- k, the length of the modulus in octets ------------------------------------------------------------
    RSA = "Crypto.PublicKey.RSA"
    rmod = repo.module(RSA)
    wrong = []
    for bits in (1023, 1024, 1025, 1031, 1032, 1033, 2047, 2049):
        nval = (1 << (bits - 1)) + 12345
        it3 = Interp(repo, max_depth=3)
        st3 = State()
        me3 = it3.new_obj(st3, rmod, repo.cls(rmod, "RsaKey"), havoc=False)
        st3.heap[me3.ident].update({"_n": nval, "_e": 65537})
        out = {}
        for meth in ("size_in_bits", "size_in_bytes"):
            res = it3.run(rmod, repo.func(rmod, "RsaKey." + meth), {}, self_obj=me3, state=st3)
            r = res.returns()
            out[meth] = r[0].value if len(r) == 1 else None
        if out["size_in_bits"] != bits or out["size_in_bytes"] != (bits + 7) // 8:
            wrong.append("%d-bit modulus: size_in_bits() = %r, size_in_bytes() = %r (k = %d)" % (bits, out["size_in_bits"], out["size_in_bytes"], (bits + 7) // 8))
    fnk = repo.func(rmod, "RsaKey.size_in_bytes")
    check.ob("K-pw", "K-pw|rsa.k", not wrong, rmod.path, fnk.lineno,
             extracted="; ".join(wrong[:3]) if wrong else "8 modulus sizes around multiples of 8: k = ceil(modBits / 8)",
             expected="RFC 8017: k is the length in octets of the modulus (rounded up); message limits and ciphertext length are stated in k")
    oaep_value_rows(check, repo)
    # ---- the RSA primitives on complete toy moduli (CRT, blinding, byte conversion) -----------------
    from .c04_extra import rsa_toy_rows
    rsa_toy_rows(check, repo, thorough=ctx.tier == "thorough")
    # ---- MGF1 ------------------------------------------------------------------------------------
    calls = {}

    def hm_new(i, base, a, kw, st, node):
        o = i.new_obj(st, label="hobj")
        calls.setdefault("objs", []).append(o.ident)
        return o

    def hm_update(i, base, a, kw, st, node):
        calls.setdefault("upd", []).append(a[0] if a else None)
        return None

    def hm_digest(i, base, a, kw, st, node):
        n = len(calls.get("dig", []))
        calls.setdefault("dig", []).append(n)
        return bytes([0x40 + n]) * 20
    for mask_len in (1, 20, 21, 45):
        def vary(v):
            calls.clear()
            return {}
        nblocks = -(-mask_len // 20)
        want = (b"".join(bytes([0x40 + n]) * 20 for n in range(nblocks))[:mask_len],
                tuple(b"SEED" + n.to_bytes(4, "big") for n in range(nblocks)))
        run_obs(check, repo, ObsRow(
            "mgf1.%d" % mask_len, "C07", "Crypto.Signature.pss", "MGF1", [0], vary,
            lambda res, it: (res.returns()[0].value if len(res.returns()) == 1 else None,
                             tuple(calls.get("upd", []))),
            lambda v, want=want: want,
            base={"mgfSeed": b"SEED", "maskLen": mask_len, "hash_gen": OBJ(digest_size=20)},
            method_models={"new": hm_new, "update": hm_update, "digest": hm_digest},
            rule="K", what="T = Hash(seed || I2OSP(0,4)) || Hash(seed || I2OSP(1,4)) ... "
            "truncated to maskLen (ceil(maskLen/hLen) blocks)", cite="RFC 8017 B.2.1 MGF1"))
    check.floor("G", 6)
    # the branch-free native decoders, region by region
    from . import c_pkcs1
    c_pkcs1.pkcs1_tables(check, ctx)
    check.undecided.append("the accept/reject decision for encoded messages with several simultaneous defects or "
                           "geometries outside the tables; timing")
