"""src/ec_ws.c on the C evaluator (C06): the exported point API of the
short-Weierstrass code, interpreted for P-256, P-384, P-521 and a generic-modulus
curve (P-224), compared with the affine group law computed with Python ints.

Rows are the *cases of the group law*: doubling, addition of distinct points,
addition of a point to itself (must equal doubling), P + (-P) (infinity),
infinity as either operand, doubling infinity, negation, comparison of equal
points held in different projective representations, clone/copy independence;
plus the validation rows of ec_ws_new_point (off-curve, coordinate >= p, the
(0,0) encoding of infinity) and blind_scalar_factor (result = k + R*order for
scalars shorter than, as long as and much longer than the order; the evaluator
bounds-checks every word written).  Results are compared projectively with
ec_ws_cmp against the expected point built by ec_ws_new_point, so no field
inversion is needed in the quick tier.
"""
from ..ceval import CProgram, Machine, CError, Undecided, P, CT, Shard, run_sharded, VOID, NULL, resolve
from ..core import AnalysisError

SRC = "src/ec_ws.c"
PTR = CT("ptr", 8, to=VOID)

CURVES = {}     # filled from the repository's own tables before the workers are forked

NIST_SHAPE = {
    "p192": (1 << 192) - (1 << 64) - 1,
    "p224": (1 << 224) - (1 << 96) + 1,
    "p256": (1 << 256) - (1 << 224) + (1 << 192) + (1 << 96) - 1,
    "p384": (1 << 384) - (1 << 128) - (1 << 96) + (1 << 32) - 1,
    "p521": (1 << 521) - 1,
}


def read_curves(repo):
    """{name: {p, b, n, gx, gy}} read from the literals of Crypto/PublicKey/_nist_ecc.py."""
    import ast
    mod = repo.module("Crypto.PublicKey._nist_ecc")
    out = {}
    for name in NIST_SHAPE:
        fn = mod.funcs.get(name + "_curve")
        if fn is None:
            raise AnalysisError("anchor vanished: _nist_ecc.%s_curve" % name)
        vals = {}
        for st in fn.body:
            if isinstance(st, ast.Assign) and len(st.targets) == 1 and isinstance(st.targets[0], ast.Name) and \
                    isinstance(st.value, ast.Constant) and isinstance(st.value.value, int):
                vals[st.targets[0].id] = st.value.value
        if not all(k in vals for k in ("p", "b", "order", "Gx", "Gy")):
            raise AnalysisError("anchor vanished: literals p/b/order/Gx/Gy of %s_curve" % name)
        out[name] = dict(p=vals["p"], b=vals["b"], n=vals["order"], gx=vals["Gx"], gy=vals["Gy"], line=fn.lineno)
    return out


def _is_prime(n):
    if n < 2:
        return False
    for q in (2, 3, 5, 7, 11, 13, 17, 19, 23, 29, 31, 37):
        if n % q == 0:
            return n == q
    d, s = n - 1, 0
    while d % 2 == 0:
        d //= 2
        s += 1
    for a in (2, 3, 5, 7, 11, 13, 17, 19, 23, 29, 31, 37, 41, 43, 47, 53):
        x = pow(a, d, n)
        if x in (1, n - 1):
            continue
        for _ in range(s - 1):
            x = x * x % n
            if x == n - 1:
                break
        else:
            return False
    return True


def curve_conformance(check, repo, rule="K"):
    """The NIST curve tables are self-consistent and have the standard's prime."""
    import math
    curves = read_curves(repo)
    mod = repo.module("Crypto.PublicKey._nist_ecc")
    for name, c in sorted(curves.items()):
        p, b, n, G = c["p"], c["b"], c["n"], (c["gx"], c["gy"])
        bad = []
        if p != NIST_SHAPE[name]:
            bad.append("p is not the generalised Mersenne prime of FIPS 186-4 D.1.2")
        if not _is_prime(p):
            bad.append("p is not prime")
        if not _is_prime(n):
            bad.append("the order is not prime")
        if (G[1] * G[1] - (G[0] ** 3 - 3 * G[0] + b)) % p:
            bad.append("the generator is not on y^2 = x^3 - 3x + b")
        if not (0 < G[0] < p and 0 < G[1] < p and 0 < b < p):
            bad.append("b / G not reduced modulo p")
        if (p + 1 - n) ** 2 > 4 * p:
            bad.append("the order is outside the Hasse interval")
        if not bad and ref_mul(n, G, p) is not None:
            bad.append("order * G is not the point at infinity")
        if (4 * (-3) ** 3 + 27 * b * b) % p == 0:
            bad.append("singular curve")
        check.ob(rule, "%s|curve.%s" % (rule, name), not bad, mod.path, c["line"],
                 extracted="; ".join(bad) if bad else "p has the FIPS 186-4 shape and is prime; a = -3; G on the curve; order prime, inside the Hasse interval, order*G = infinity",
                 expected="FIPS 186-4 D.1.2 parameters: any corrupted digit of p, b, Gx, Gy or the order breaks one of these relations")
    return curves


def ref_add(A, B, p):
    if A is None:
        return B
    if B is None:
        return A
    x1, y1 = A
    x2, y2 = B
    if x1 == x2 and (y1 + y2) % p == 0:
        return None
    if A == B:
        lam = (3 * x1 * x1 - 3) * pow(2 * y1, -1, p) % p
    else:
        lam = (y2 - y1) * pow(x2 - x1, -1, p) % p
    x3 = (lam * lam - x1 - x2) % p
    return (x3, (lam * (x1 - x3) - y1) % p)


def ref_mul(k, A, p):
    R = None
    for bit in bin(k)[2:]:
        R = ref_add(R, R, p)
        if bit == "1":
            R = ref_add(R, A, p)
    return R


class Curve(object):
    def __init__(self, prog, name):
        c = CURVES[name]
        self.name = name
        self.p, self.b, self.n = c["p"], c["b"], c["n"]
        self.G = (c["gx"], c["gy"])
        self.len = (self.p.bit_length() + 7) // 8
        self.m = m = Machine(prog, SRC, budget=200000000)
        # the scrambled generator tables are only used by generator multiplication, which these rows do not call
        for nm in ("p256", "p384", "p521"):
            m.models["ec_scramble_g_" + nm] = lambda mm, a, nm=nm: mm.alloc(8 * self._n_tables(mm, nm), "prot_g (%s_n_tables pointers)" % nm, "heap", init=0)
            m.models["free_g_" + nm] = lambda mm, a: None
        pp = m.alloc(8, "pctx", "heap", init=0)
        rc = m.call("ec_ws_new_context", [pp, self.buf(self.p), self.buf(self.b), self.buf(self.n), self.len, 0x1234])
        if rc != 0:
            raise CError("contract", "ec_ws_new_context returned %r" % rc)
        self.ctx = m.load(pp, PTR)

    def _n_tables(self, mm, nm):
        """Number of precomputed generator tables (global of the table translation unit)."""
        p, t = mm.lookup_var({"name": nm + "_n_tables", "kind": "VarDecl", "id": None}, mm.tu)
        v = mm.load(p, t)
        if not isinstance(v, int) or not 0 < v < 4096:
            raise Undecided("%s_n_tables is %r" % (nm, v))
        return v

    def _window_size(self, mm, nm):
        p, t = mm.lookup_var({"name": nm + "_window_size", "kind": "VarDecl", "id": None}, mm.tu)
        v = mm.load(p, t)
        if not isinstance(v, int) or not 0 < v < 16:
            raise Undecided("%s_window_size is %r" % (nm, v))
        return v

    def buf(self, v, n=None):
        return self.m.alloc_bytes(list(v.to_bytes(n or self.len, "big")), "num")

    def point(self, A):
        """EcPoint for an affine point (None = infinity); returns (code, pointer)."""
        x, y = A if A is not None else (0, 0)
        pp = self.m.alloc(8, "ppoint", "heap", init=0)
        rc = self.m.call("ec_ws_new_point", [pp, self.buf(x), self.buf(y), self.len, self.ctx])
        return rc, self.m.load(pp, PTR)

    def same(self, ptr, A):
        rc, e = self.point(A)
        if rc != 0:
            raise CError("contract", "ec_ws_new_point refused the reference point (%r)" % rc)
        r = self.m.call("ec_ws_cmp", [ptr, e])
        return r == 0

    def xy(self, ptr):
        m = self.m
        bx, by = m.alloc(self.len, "x", "heap", init=None), m.alloc(self.len, "y", "heap", init=None)
        rc = m.call("ec_ws_get_xy", [bx, by, self.len, ptr])
        if rc != 0:
            return ("code", rc)
        x, y = int.from_bytes(m.concrete_bytes(bx, self.len), "big"), int.from_bytes(m.concrete_bytes(by, self.len), "big")
        return None if (x, y) == (0, 0) else (x, y)


def group_rows(prog, sh=None, thorough=False):
    sh = sh or Shard()
    wrong = []
    n = 0
    if not CURVES:
        raise Undecided("curve constants were not loaded")
    for name in ("p256", "p384", "p521", "p224"):
        if not sh.take():
            continue
        C = Curve(prog, name)
        m = C.m
        p = C.p
        G = C.G
        G2 = ref_add(G, G, p)
        G3 = ref_add(G2, G, p)
        G5 = ref_add(G3, G2, p)
        negG = (G[0], (-G[1]) % p)

        def fresh(A):
            rc, q = C.point(A)
            if rc != 0:
                raise CError("contract", "ec_ws_new_point refused a curve point (%r)" % rc)
            return q

        def check(what, ptr, want):
            if not C.same(ptr, want):
                wrong.append("%s: %s is not %s" % (name, what, "the point at infinity" if want is None else "the expected point"))
        # doubling
        a = fresh(G)
        rc = m.call("ec_ws_double", [a])
        n += 1
        check("2G by ec_ws_double", a, G2)
        rc = m.call("ec_ws_double", [a])
        n += 1
        check("4G by doubling twice", a, ref_add(G2, G2, p))
        # addition of distinct points, both orders
        a, b = fresh(G), fresh(G2)
        m.call("ec_ws_add", [a, b])
        n += 1
        check("G + 2G", a, G3)
        check("the second operand of ec_ws_add (must be unchanged)", b, G2)
        a, b = fresh(G2), fresh(G3)
        m.call("ec_ws_add", [b, a])
        n += 1
        check("3G + 2G", b, G5)
        # adding a point to itself must double it (two objects, and one object with itself)
        a, b = fresh(G), fresh(G)
        m.call("ec_ws_add", [a, b])
        n += 1
        check("G + G (two objects)", a, G2)
        a = fresh(G3)
        m.call("ec_ws_add", [a, a])
        n += 1
        check("3G + 3G (same object)", a, ref_add(G3, G3, p))
        # inverse and infinity
        a, b = fresh(G), fresh(negG)
        m.call("ec_ws_add", [a, b])
        n += 1
        check("G + (-G)", a, None)
        inf = fresh(None)
        b = fresh(G2)
        m.call("ec_ws_add", [inf, b])
        n += 1
        check("infinity + 2G", inf, G2)
        a, inf = fresh(G2), fresh(None)
        m.call("ec_ws_add", [a, inf])
        n += 1
        check("2G + infinity", a, G2)
        a, b = fresh(None), fresh(None)
        m.call("ec_ws_add", [a, b])
        n += 1
        check("infinity + infinity", a, None)
        a = fresh(None)
        m.call("ec_ws_double", [a])
        n += 1
        check("2 * infinity", a, None)
        # a projective (non-normalised) operand: 2G obtained by doubling, added to G
        a, b = fresh(G), fresh(G)
        m.call("ec_ws_double", [a])
        m.call("ec_ws_add", [a, b])
        n += 1
        check("(2G in projective form) + G", a, G3)
        a, b = fresh(G), fresh(G)
        m.call("ec_ws_double", [a])
        m.call("ec_ws_add", [b, a])
        n += 1
        check("G + (2G in projective form)", b, G3)
        # projective + its own inverse
        a = fresh(G)
        m.call("ec_ws_double", [a])
        b = fresh((G2[0], (-G2[1]) % p))
        m.call("ec_ws_add", [a, b])
        n += 1
        check("(2G projective) + (-2G)", a, None)
        # negation, comparison, clone, copy
        a = fresh(G)
        m.call("ec_ws_neg", [a])
        n += 1
        check("-G", a, negG)
        a, b = fresh(G), fresh(negG)
        n += 1
        if m.call("ec_ws_cmp", [a, b]) == 0:
            wrong.append("%s: ec_ws_cmp says G == -G" % name)
        a, inf = fresh(G), fresh(None)
        n += 1
        if m.call("ec_ws_cmp", [a, inf]) == 0 or m.call("ec_ws_cmp", [inf, a]) == 0:
            wrong.append("%s: ec_ws_cmp says G == infinity" % name)
        a = fresh(G2)
        pp = m.alloc(8, "pclone", "heap", init=0)
        rc = m.call("ec_ws_clone", [pp, a])
        cl = m.load(pp, PTR)
        m.call("ec_ws_double", [a])
        n += 1
        check("a clone after the original was doubled", cl, G2)
        a, b = fresh(G), fresh(G3)
        m.call("ec_ws_copy", [a, b])
        m.call("ec_ws_double", [b])
        n += 1
        check("the target of ec_ws_copy after the source was doubled", a, G3)
        # validation
        for what, A in (("y + 1 (off the curve)", (G[0], (G[1] + 1) % p)), ("x and y swapped", (G[1], G[0])),
                        ("(0, 1)", (0, 1)), ("(1, 0)", (1, 0))):
            rc, q = C.point(A)
            n += 1
            if rc == 0:
                wrong.append("%s: ec_ws_new_point accepts %s" % (name, what))
        for what, (x, y) in (("x = p + Gx (not reduced)", (G[0] + p, G[1])), ("y = p + Gy", (G[0], G[1] + p))):
            if (max(x, y)).bit_length() > 8 * C.len:
                continue
            rc, q = C.point((x, y))
            n += 1
            if rc == 0 and not C.same(q, G):
                wrong.append("%s: %s is accepted as a point different from G" % (name, what))
        if thorough:
            a = fresh(G)
            m.call("ec_ws_double", [a])
            got = C.xy(a)
            n += 1
            if got != G2:
                wrong.append("%s: ec_ws_get_xy(2G) = %r" % (name, got))
            a = fresh(None)
            n += 1
            if C.xy(a) is not None:
                wrong.append("%s: ec_ws_get_xy(infinity) is not (0, 0)" % name)
        ev = [e for e in m.events if e[0] in ("signed-overflow", "bad-shift", "uninit-read", "overlap")]
        if ev:
            wrong.append("%s: %s %s (line %s)" % ((name,) + ev[0]))
    return n, wrong


def group_rows_thorough(prog, sh=None):
    return group_rows(prog, sh, thorough=True)


def newpoint_rows(prog, sh=None):
    """ec_ws_new_point as the validator of public keys (C05, C04): every pair with a zero coordinate - (0, 0) is the
    encoding of the neutral element, (0, sqrt(b)) is an ordinary point of the curve where b is a square, everything
    else with one zero coordinate is off the curve - plus off-curve and unreduced pairs."""
    sh = sh or Shard()
    wrong = []
    n = 0
    if not CURVES:
        raise Undecided("curve constants were not loaded")
    for name in ("p256", "p384", "p521", "p224"):
        if not sh.take():
            continue
        C = Curve(prog, name)
        m = C.m
        p, G, b = C.p, C.G, CURVES[name]["b"]
        y0 = pow(b, (p + 1) // 4, p) if p % 4 == 3 else None
        if y0 is not None and y0 * y0 % p != b % p:
            y0 = None
        rc, inf = C.point(None)
        cases = [("(0, 1)", (0, 1), False), ("(1, 0)", (1, 0), False), ("(0, 5)", (0, 5), False), ("(Gx, 0)", (G[0], 0), False), ("(0, Gy)", (0, G[1]), False),
                 ("(Gx, Gy + 1)", (G[0], (G[1] + 1) % p), False), ("(Gy, Gx)", (G[1], G[0]), False), ("G", G, True)]
        if y0 is not None:
            cases += [("(0, sqrt(b))", (0, y0), True), ("(0, -sqrt(b))", (0, p - y0), True)]
        for what, A, ok in cases:
            rc, q = C.point(A)
            n += 1
            if not ok:
                if rc == 0:
                    wrong.append("%s: ec_ws_new_point accepts %s, which is not on the curve%s" % (
                        name, what, " (stored as the neutral element)" if m.call("ec_ws_cmp", [q, inf]) == 0 else ""))
                continue
            if rc != 0:
                wrong.append("%s: the curve point %s is refused with %r" % (name, what, rc))
                continue
            if m.call("ec_ws_cmp", [q, inf]) == 0:
                wrong.append("%s: the curve point %s is stored as the neutral element" % (name, what))
            elif A != G and m.call("ec_ws_cmp", [q, C.point(G)[1]]) == 0:
                wrong.append("%s: the curve point %s is stored as G" % (name, what))
            elif name == "p256" and C.xy(q) != A:          # the affine read-back needs a field inversion: one curve only
                wrong.append("%s: the curve point %s reads back as %r" % (name, what, C.xy(q)))
        for what, (x, y) in (("(p, sqrt(b)): x = p", (p, y0 if y0 is not None else 1)), ("(1, p): y = p", (1, p))):
            if max(x, y).bit_length() > 8 * C.len:
                continue
            rc, q = C.point((x, y))
            n += 1
            on = ((y % p) ** 2 - (x % p) ** 3 + 3 * (x % p) - b) % p == 0
            if rc == 0 and (not on or m.call("ec_ws_cmp", [q, inf]) == 0):
                wrong.append("%s: %s is accepted%s" % (name, what, " and stored as the neutral element" if m.call("ec_ws_cmp", [q, inf]) == 0 else " although its reduction is not on the curve"))
    return n, wrong


def cmp_rows(prog, sh=None):
    """ec_ws_cmp as the equality of keys and points (C08, C06): equal iff the same group element, whatever the
    projective representation; in particular Q != -Q (same x), and the neutral element equals only itself, on either
    side."""
    sh = sh or Shard()
    wrong = []
    n = 0
    if not CURVES:
        raise Undecided("curve constants were not loaded")
    for name in ("p256", "p384", "p521", "p224"):
        if not sh.take():
            continue
        C = Curve(prog, name)
        m = C.m
        p, G = C.p, C.G
        G2 = ref_add(G, G, p)
        G3 = ref_add(G2, G, p)
        neg = lambda A: (A[0], (-A[1]) % p)

        def fresh(A):
            rc, q = C.point(A)
            if rc != 0:
                raise CError("contract", "ec_ws_new_point refused a curve point (%r)" % rc)
            return q

        def proj2():
            a = fresh(G)
            m.call("ec_ws_double", [a])
            return a
        pairs = [("G, G", fresh(G), fresh(G), True), ("G, -G (same x)", fresh(G), fresh(neg(G)), False), ("-G, G", fresh(neg(G)), fresh(G), False),
                 ("G, 2G", fresh(G), fresh(G2), False), ("2G projective, 2G affine", proj2(), fresh(G2), True), ("2G affine, 2G projective", fresh(G2), proj2(), True),
                 ("2G projective, -2G", proj2(), fresh(neg(G2)), False), ("-2G, 2G projective", fresh(neg(G2)), proj2(), False),
                 ("3G, -3G", fresh(G3), fresh(neg(G3)), False),
                 ("O, O", fresh(None), fresh(None), True), ("O, G", fresh(None), fresh(G), False), ("G, O", fresh(G), fresh(None), False),
                 ("O, 2G projective", fresh(None), proj2(), False), ("2G projective, O", proj2(), fresh(None), False)]
        for what, a, b, eq in pairs:
            n += 1
            r = m.call("ec_ws_cmp", [a, b])
            if (r == 0) != eq:
                wrong.append("%s: ec_ws_cmp(%s) says %s" % (name, what, "equal" if r == 0 else "different (code %r)" % r))
    return n, wrong


def cmp_tables(check, ctx, rule="EQ-c"):
    CURVES.clear()
    CURVES.update(read_curves(ctx.repo))
    prog = CProgram(ctx.cdb)
    prog.tu(SRC)
    res = run_sharded(ctx.root, prog, __name__, ["cmp_rows"], shards=4)
    n, wrong, und = res["cmp_rows"]
    if und:
        raise AnalysisError("C evaluator could not decide the ec_ws_cmp rows: %s" % und)
    check.ob(rule, "%s|c|ec_ws.cmp" % rule, not wrong, SRC, 0,
             extracted=("%d of %d pairs differ: " % (len(wrong), n) + "; ".join(wrong[:3])) if wrong else "%d pairs on P-224/256/384/521: equal iff the same group element (Q != -Q, projective = affine, O only equals O, both argument orders)" % n,
             expected="== of EC points and keys is equality of group elements")
    check.count("c_ec_cmp_rows", n)
    return n


def newpoint_tables(check, ctx, rule="G-c"):
    CURVES.clear()
    CURVES.update(read_curves(ctx.repo))
    prog = CProgram(ctx.cdb)
    prog.tu(SRC)
    res = run_sharded(ctx.root, prog, __name__, ["newpoint_rows"], shards=4)
    n, wrong, und = res["newpoint_rows"]
    if und:
        raise AnalysisError("C evaluator could not decide the ec_ws_new_point rows: %s" % und)
    check.ob(rule, "%s|c|ec_ws.new_point" % rule, not wrong, SRC, 0,
             extracted=("%d of %d rows differ: " % (len(wrong), n) + "; ".join(wrong[:3])) if wrong else "%d rows on P-224/256/384/521: only (0, 0) is the neutral element; (0, +-sqrt(b)) are ordinary points; every other pair with a zero coordinate, off-curve pairs and swapped coordinates are refused" % n,
             expected="ec_ws_new_point accepts exactly the points of the curve and the encoding (0, 0) of the neutral element")
    check.count("c_ec_newpoint_rows", n)
    return n


def blind_rows(prog, sh=None):
    sh = sh or Shard()
    wrong = []
    n = 0
    for name in ("p256", "p384", "p521"):
        order = CURVES[name]["n"]
        ow = (order.bit_length() + 63) // 64
        olen = (CURVES[name]["p"].bit_length() + 7) // 8
        for slen in (1, 8, olen - 1, olen, olen + 1, olen + 8, olen + 9, 2 * olen + 5, 100):
            for seed in (0, 1, 0xFFFFFFFF):
                if not sh.take():
                    continue
                m = Machine(prog, SRC)
                k = int.from_bytes(bytes((0xFF - i) & 0xFF for i in range(slen)), "big")
                pb = m.alloc(8, "pblind", "heap", init=0)
                pl = m.alloc(8, "plen", "heap", init=0)
                words = m.alloc(8 * ow, "order", "heap", init=0)
                for i in range(ow):
                    m.write_cells(P(words.obj, 8 * i), list(((order >> (64 * i)) & ((1 << 64) - 1)).to_bytes(8, "little")))
                rc = m.call("blind_scalar_factor", [pb, pl, m.alloc_bytes(list(k.to_bytes(slen, "big")), "scalar"), slen,
                                                    seed, words, ow])
                n += 1
                if rc != 0:
                    wrong.append("%s: blind_scalar_factor(%d-byte scalar) returns %r" % (name, slen, rc))
                    continue
                ln = m.load(pl, CT("int", 8, False))
                ptr = m.load(pb, PTR)
                got = int.from_bytes(m.concrete_bytes(ptr, ln), "big")
                if got != k + seed * order:
                    wrong.append("%s: blinding a %d-byte scalar with R=%#x gives %#x.., expected k + R*order = %#x.." % (
                        name, slen, seed, got >> max(0, got.bit_length() - 64), (k + seed * order) >> max(0, (k + seed * order).bit_length() - 64)))
    return n, wrong


def dispatch_rows(prog, sh=None, small=False):
    """ec_ws_scalar: the generator fast path and the generic ladder accept the same scalars.

    The point arithmetic is replaced by no-ops and the generic ladder by a recorder; what is interpreted for real is
    the dispatch: is-generator test, the fast path's own length logic, blinding, the fallback."""
    sh = sh or Shard()
    wrong = []
    n = 0
    if not CURVES:
        raise Undecided("curve constants were not loaded")
    for name in ("p256", "p384", "p521"):
        olen = (CURVES[name]["p"].bit_length() + 7) // 8
        for slen in ((1, olen - 1, olen, olen + 1, olen + 8, 2 * olen, 100) if not small else (olen, olen + 1, olen + 12, 100)):
            for which in (("G", "2G", "-G") if not small else ("G",)):
                for seed in ((0, 0xABCDEF0123456789) if not small else (0,)):
                    if which == "-G" and (slen != olen or seed):
                        continue
                    if not sh.take():
                        continue
                    C = Curve(prog, name)
                    m = C.m
                    seen = []

                    def m_ec_scalar(mm, a, seen=seen, C=C):
                        x, y, z = a[3], a[4], a[5]
                        words = (C.p.bit_length() + 63) // 64
                        seen.append(tuple(mm.concrete_bytes(q, 8 * words) for q in (x, y, z)))
                        return 0
                    m.models["ec_scalar"] = m_ec_scalar
                    for f in ("ec_mix_add", "ec_full_add", "ec_full_double"):
                        m.models[f] = lambda mm, a: None
                    m.models["gather"] = lambda mm, a: None
                    A = C.G if which == "G" else (ref_add(C.G, C.G, C.p) if which == "2G" else (C.G[0], (-C.G[1]) % C.p))
                    rc, q = C.point(A)
                    before = None
                    k = bytes([0xFF] * slen)
                    rc = m.call("ec_ws_scalar", [q, m.alloc_bytes(list(k), "k"), slen, seed])
                    n += 1
                    if rc != 0:
                        wrong.append("%s: ec_ws_scalar(%s, %d-byte scalar, seed %s) returns code %r (the same scalar is accepted for other points)" % (
                            name, which, slen, "set" if seed else "0", rc))
                        continue
                    if which == "G" and seed == 0:
                        # the precomputed tables cover n_tables * window_size bits: a scalar with a bit above that must take
                        # the generic ladder - for every value of the leading byte, not only FF
                        cover = C._n_tables(m, name) * C._window_size(m, name)
                        for tb in ((0x01, 0x02, 0x08, 0x10, 0x80) if slen == olen else ()):
                            k2 = bytes([tb]) + bytes([0xFF] * (slen - 1))
                            del seen[:]
                            rc3, q3 = C.point(A)
                            rc3 = m.call("ec_ws_scalar", [q3, m.alloc_bytes(list(k2), "k"), slen, 0])
                            n += 1
                            if rc3 != 0:
                                wrong.append("%s: G * (%02x ff.., %d bytes) returns code %r" % (name, tb, slen, rc3))
                            elif int.from_bytes(k2, "big") >> cover and len(seen) != 1:
                                wrong.append("%s: the scalar %02x ff.. (%d bytes, %d bits) has bits above the %d bits the generator tables cover, "
                                             "but the fast path handled it (the top bits are dropped)" % (name, tb, slen, int.from_bytes(k2, "big").bit_length(), cover))
                        del seen[:]
                        rc, q = C.point(A)
                        rc = m.call("ec_ws_scalar", [q, m.alloc_bytes(list(k), "k"), slen, seed])
                        if int.from_bytes(k, "big") >> cover and len(seen) != 1:
                            wrong.append("%s: the %d-byte scalar ff.. exceeds the %d bits of the generator tables but the generic ladder did not run" % (name, slen, cover))
                    if which != "G" and len(seen) != 1:
                        wrong.append("%s: the point %s is not the generator, but the generic ladder ran %d times (the precomputed "
                                     "generator tables were used for another point)" % (name, which, len(seen)))
                    if seen and seed == 0:
                        # without blinding the ladder must receive the caller's point, not a clobbered one
                        rc2, e = C.point(A)
                        st_t = resolve(m.tu.parse("EcPoint"))
                        words = (C.p.bit_length() + 63) // 64
                        want = []
                        for f in ("x", "y", "z"):
                            off, ft = st_t.fields[f]
                            ptr = m.load(P(e.obj, e.off + off), PTR)
                            want.append(m.concrete_bytes(ptr, 8 * words))
                        if tuple(want) != seen[0]:
                            wrong.append("%s: for a %d-byte scalar the generic ladder receives a point that is not the caller's %s "
                                         "(overwritten by the fast path)" % (name, slen, which))
    return n, wrong


def dispatch_rows_small(prog, sh=None):
    return dispatch_rows(prog, sh, small=True)


def ec_tables(check, ctx, rule="K-pw"):
    CURVES.clear()
    CURVES.update(read_curves(ctx.repo))
    prog = CProgram(ctx.cdb)
    prog.tu(SRC)
    groups = (("group_law", "group_rows_thorough" if ctx.tier == "thorough" else "group_rows",
               "ec_ws_double / ec_ws_add / ec_ws_neg / ec_ws_cmp / clone / copy on every case of the group law (doubling, distinct points, equal points, inverse points, infinity on either side, projective operands) for P-256, P-384, P-521 and P-224; ec_ws_new_point refuses off-curve points", 4),
              ("scalar_dispatch", "dispatch_rows", "ec_ws_scalar accepts every scalar length for the generator exactly as for any other point: a scalar too long for the precomputed generator tables goes through the generic ladder with the point intact", 12),
              ("blind_scalar", "blind_rows", "blind_scalar_factor returns k + R*order for scalars shorter than, as long as and longer than the order, without writing outside its buffers", 9))
    total = 0
    for key, fname, what, shards in groups:
        res = run_sharded(ctx.root, prog, __name__, [fname], shards=shards)
        n, wrong, und = res[fname]
        if und:
            raise AnalysisError("C evaluator could not decide %s: %s" % (key, und))
        total += n
        check.ob(rule, "%s|c|ec_ws.%s" % (rule, key), not wrong, SRC, 0,
                 extracted=("%d of %d rows differ: " % (len(wrong), n) + "; ".join(wrong[:3])) if wrong else "%d rows equal to the reference group law / integer reference" % n,
                 expected=what)
    check.count("c_ec_rows", total)
    return total


def memory_tables(check, ctx, rule="M"):
    """C17: the evaluator's bounds/lifetime checks on the scalar dispatch (generator tables indexed by window number)."""
    CURVES.clear()
    CURVES.update(read_curves(ctx.repo))
    prog = CProgram(ctx.cdb)
    prog.tu(SRC)
    res = run_sharded(ctx.root, prog, __name__, ["dispatch_rows_small"], shards=12)
    n, wrong, und = res["dispatch_rows_small"]
    if und:
        raise AnalysisError("C evaluator could not decide the scalar dispatch rows: %s" % und)
    check.ob(rule, "%s|c|ec_ws.generator_tables" % rule, not wrong, SRC, 0,
             extracted=("%d of %d rows: " % (len(wrong), n) + "; ".join(wrong[:3])) if wrong else "%d rows (scalars up to 100 bytes on the generator): every read of the precomputed table array stays inside its <curve>_n_tables entries" % n,
             expected="the window count of the scalar is compared with the table count of the same curve before the tables are indexed")
