"""C03 — hashes, XOFs and MACs equal their standards; verify accepts only the true tag."""
import ast

from ..absint import Interp
from ..absstate import State
from ..absval import ABytes, UNK, AObj, ABuiltin, is_unk
from ..core import AnalysisError
from ..pydb import norm
from ..rules_g import (Row, run_row, ObsRow, run_obs, I, S, Mult, Pred, OBJ, B,
                       INT, LEN, INJECT, realise)
from ..rules_v import check_verify, check_dominates

EXPLANATION = (
    "K: per-module parameter table (digest_size, block_size, OID; for the sponge "
    "family the capacity, round count and domain-separation byte actually passed "
    "to the native keccak_init/keccak_digest calls, read from the FFI call events "
    "of an abstract interpretation of each constructor/digest) against FIPS 180-4 "
    "/ FIPS 202 / SP 800-185 / RFC 7693; K-pw: HMAC key normalisation at the "
    "block-size boundary with ipad/opad, CMAC sub-key derivation (Rb, both carry "
    "branches) and last-block treatment, left/right_encode, encode_string and "
    "bytepad against the checker's own SP 800-185 reference; V/D: every MAC "
    "verify() compares whole tags and raises ValueError; G: parameter domains "
    "(CMAC/KMAC/BLAKE2/Keccak/TurboSHAKE/TupleHash). C side: round constants and "
    "IVs (engine E-C). Not decided: digest values (compression functions, sponge).")

H = "Crypto.Hash."

# module, class, digest_size, block_size, oid
MD_TABLE = [
    ("MD2", "MD2Hash", 16, 16, "1.2.840.113549.2.2"),
    ("MD4", "MD4Hash", 16, 64, "1.2.840.113549.2.4"),
    ("MD5", "MD5Hash", 16, 64, "1.2.840.113549.2.5"),
    ("RIPEMD160", "RIPEMD160Hash", 20, 64, "1.3.36.3.2.1"),
    ("SHA1", "SHA1Hash", 20, 64, "1.3.14.3.2.26"),
    ("SHA224", "SHA224Hash", 28, 64, "2.16.840.1.101.3.4.2.4"),
    ("SHA256", "SHA256Hash", 32, 64, "2.16.840.1.101.3.4.2.1"),
    ("SHA384", "SHA384Hash", 48, 128, "2.16.840.1.101.3.4.2.2"),
    ("SHA3_224", "SHA3_224_Hash", 28, 144, "2.16.840.1.101.3.4.2.7"),
    ("SHA3_256", "SHA3_256_Hash", 32, 136, "2.16.840.1.101.3.4.2.8"),
    ("SHA3_384", "SHA3_384_Hash", 48, 104, "2.16.840.1.101.3.4.2.9"),
    ("SHA3_512", "SHA3_512_Hash", 64, 72, "2.16.840.1.101.3.4.2.10"),
]


def class_consts(cnode):
    out = {}
    for b in cnode.body:
        if isinstance(b, ast.Assign) and isinstance(b.value, ast.Constant):
            for t in b.targets:
                if isinstance(t, ast.Name):
                    out[t.id] = b.value.value
    return out


def ffi_calls(repo, modname, qual, args, self_attrs=None, cls=None, max_depth=2):
    mod = repo.module(modname)
    fn = repo.func(mod, qual)
    it = Interp(repo, max_depth=max_depth)
    st = State()
    cq = cls or qual.rsplit(".", 1)[0]
    me = it.new_obj(st, mod, repo.cls(mod, cq), havoc=False)
    for k, v in (self_attrs or {}).items():
        st.heap[me.ident][k] = v
    res = it.run(mod, fn, dict(args), self_obj=me, state=st)
    calls = []
    for e in res.events:
        if e.kind == "ffi":
            calls.append((e.name.split(".")[-1], e.args[0], e))
    return calls, res, mod, fn, me


def run(check, ctx):
    repo = ctx.repo
    # the Keccak family as whole Python stacks over an exact model of the native sponge
    from . import sponge_compose
    sponge_compose.sponge_tables(check, ctx)
    sponge_compose.md_stack_tables(check, ctx)
    # Poly1305-ChaCha20: the one-time key derivation (RFC 8439 2.6)
    from .c11_extra import poly1305_keypair_rows
    poly1305_keypair_rows(check, repo)
    # ---- class-level parameters ---------------------------------------------------------
    for m, c, ds, bs, oid in MD_TABLE:
        mod = repo.module(H + m)
        cn = repo.cls(mod, c)
        got = class_consts(cn)
        g = (got.get("digest_size"), got.get("block_size"), got.get("oid"))
        check.ob("K", "K|hash.params." + m, g == (ds, bs, oid), mod.path, cn.lineno,
                 extracted="digest_size=%r block_size=%r oid=%r" % g,
                 expected="digest_size=%r block_size=%r oid=%r" % (ds, bs, oid),
                 note="FIPS 180-4 / FIPS 202 / RFC 1319-1321; OIDs from the NIST CSOR and RFC 8017")
    # SHA-512 family through the truncate parameter
    mod = repo.module(H + "SHA512")
    for trunc, ds, oid in ((None, 64, "2.16.840.1.101.3.4.2.3"), ("224", 28, "2.16.840.1.101.3.4.2.5"),
                           ("256", 32, "2.16.840.1.101.3.4.2.6")):
        calls, res, m2, fn, me = ffi_calls(repo, H + "SHA512", "SHA512Hash.__init__",
                                           {"data": None, "truncate": trunc})
        outs = [o for o in res.returns() if o.state is not None]
        h = outs[0].state.heap.get(me.ident, {}) if len(outs) == 1 else {}
        ini = [(c[0], c[1][1] if len(c[1]) > 1 else None) for c in calls if c[0] == "SHA512_init"]
        ok = h.get("digest_size") == ds and h.get("oid") == oid and ini == [("SHA512_init", ds)]
        check.ob("K", "K|hash.params.SHA512/%s" % trunc, ok, m2.path, fn.lineno,
                 extracted="digest_size=%r oid=%r native %s" % (h.get("digest_size"), h.get("oid"), ini),
                 expected="digest_size=%d oid=%s native SHA512_init(state, %d) (the variant is "
                          "selected by the digest size)" % (ds, oid, ds), note="FIPS 180-4 5.3.6")
    run_row(check, repo, Row("sha512.truncate", "C03", H + "SHA512", "SHA512Hash.__init__",
                             Pred(lambda t: t in (None, "224", "256"), "{None,'224','256'}"),
                             lambda t: {"args": {"truncate": t}}, base={"data": None},
                             self_obj=OBJ((H + "SHA512", "SHA512Hash"), _havoc=False),
                             cases=[(repr(t), t) for t in (None, "224", "256", "384", "512", "", 224)],
                             cite="FIPS 180-4: SHA-512/224 and SHA-512/256"))
    # ---- sponge family: what is passed to the native layer --------------------------------------
    sponge = [
        # module, class, init args, expected (capacity bytes, rounds), digest/read padding
        ("SHA3_224", "SHA3_224_Hash", {"data": None, "update_after_digest": False}, (56, 24), 0x06),
        ("SHA3_256", "SHA3_256_Hash", {"data": None, "update_after_digest": False}, (64, 24), 0x06),
        ("SHA3_384", "SHA3_384_Hash", {"data": None, "update_after_digest": False}, (96, 24), 0x06),
        ("SHA3_512", "SHA3_512_Hash", {"data": None, "update_after_digest": False}, (128, 24), 0x06),
        ("SHAKE128", "SHAKE128_XOF", {"data": None}, (32, 24), 0x1F),
        ("SHAKE256", "SHAKE256_XOF", {"data": None}, (64, 24), 0x1F),
    ]
    for m, c, args, init_want, pad in sponge:
        calls, res, m2, fn, me = ffi_calls(repo, H + m, c + ".__init__", args)
        ini = [x for x in calls if x[0] == "keccak_init"]
        got = tuple(ini[0][1][1:3]) if len(ini) == 1 and len(ini[0][1]) >= 3 else None
        outs = [o for o in res.returns() if o.state is not None]
        h = outs[0].state.heap.get(me.ident, {}) if len(outs) == 1 else {}
        ok = got == init_want and h.get("_padding") == pad
        check.ob("K", "K|sponge.init." + m, ok, m2.path, fn.lineno,
                 extracted="keccak_init(capacity=%r bytes, rounds=%r), domain byte %r" % (
                     got[0] if got else None, got[1] if got else None, h.get("_padding")),
                 expected="keccak_init(capacity=%d bytes, rounds=%d), domain byte 0x%02X" % (init_want[0], init_want[1], pad),
                 note="FIPS 202: c = 2d (SHA-3), c = 256/512 bits (SHAKE); suffix 01 -> 0x06, 1111 -> 0x1F")
    # cSHAKE / KMAC / TupleHash framing helpers against SP 800-185 ---------------------------------
    CS = H + "cSHAKE128"

    def ref_left(x):
        n = max(1, (x.bit_length() + 7) // 8)
        return bytes([n]) + x.to_bytes(n, "big")

    def ref_right(x):
        n = max(1, (x.bit_length() + 7) // 8)
        return x.to_bytes(n, "big") + bytes([n])

    def ref_encstr(s):
        return ref_left(len(s) * 8) + s

    def ref_bytepad(x, w):
        z = ref_left(w) + x
        return z + bytes((-len(z)) % w)
    ret = lambda res, it: res.returns()[0].value if len(res.returns()) == 1 else "<%d exits>" % len(res.returns())
    for x in (0, 1, 255, 256, 65535, 65536, 168, 136, 1 << 32, (1 << 64) - 1):
        run_obs(check, repo, ObsRow("left_encode.%d" % x, "C03", CS, "_left_encode", [0], lambda v: {}, ret,
                                    lambda v, x=x: ref_left(x), base={"x": x}, rule="K",
                                    what="left_encode(x) = n || x as n big-endian bytes, n minimal and >= 1",
                                    cite="SP 800-185 2.3.1"))
        run_obs(check, repo, ObsRow("right_encode.%d" % x, "C03", CS, "_right_encode", [0], lambda v: {}, ret,
                                    lambda v, x=x: ref_right(x), base={"x": x}, rule="K",
                                    what="right_encode(x) = x as n big-endian bytes || n", cite="SP 800-185 2.3.1"))
    for s in (b"", b"KMAC", b"x" * 31, b"x" * 32, b"y" * 255, b"z" * 8192):
        run_obs(check, repo, ObsRow("encode_string.%d" % len(s), "C03", CS, "_encode_str", [0], lambda v: {}, ret,
                                    lambda v, s=s: ref_encstr(s), base={"x": s}, rule="K",
                                    what="encode_string(S) = left_encode(len(S) in bits) || S", cite="SP 800-185 2.3.2"))
    for xs, w in ((b"", 168), (b"a" * 165, 168), (b"a" * 166, 168), (b"a" * 167, 168), (b"a" * 300, 136), (b"k", 136)):
        run_obs(check, repo, ObsRow("bytepad.%d.%d" % (len(xs), w), "C03", CS, "_bytepad", [0], lambda v: {}, ret,
                                    lambda v, a=(xs, w): ref_bytepad(*a), base={"x": xs, "length": w}, rule="K",
                                    what="bytepad(X, w) = left_encode(w) || X || 0* to a multiple of w",
                                    cite="SP 800-185 2.3.3"))
    # cSHAKE: customised -> prefix bytepad(encode(N)||encode(S), rate) and 0x04; plain -> 0x1F
    for cap, rate in ((256, 168), (512, 136)):
        for fnm, cus, pad in ((b"", b"", 0x1F), (b"KMAC", b"", 0x04), (b"", b"custom", 0x04), (b"TupleHash", b"c", 0x04)):
            upd = {}

            def mm_update(i, base, a, kw, st, node, upd=upd):
                upd.setdefault("data", []).append(a[0] if a else None)
                return base
            mod = repo.module(CS)
            fn = repo.func(mod, "cSHAKE_XOF.__init__")
            it = Interp(repo, max_depth=3, extra_models={
                CS + ".cSHAKE_XOF.update": lambda i, a, kw, st, node, upd=upd: upd.setdefault("data", []).append(a[0] if a else None)})
            st = State()
            me = it.new_obj(st, mod, repo.cls(mod, "cSHAKE_XOF"), havoc=False)
            res = it.run(mod, fn, {"data": None, "custom": cus, "capacity": cap, "function": fnm},
                         self_obj=me, state=st)
            outs = [o for o in res.returns() if o.state is not None]
            h = outs[0].state.heap.get(me.ident, {}) if len(outs) == 1 else {}
            ini = [e for e in res.events if e.kind == "ffi" and e.name.endswith("keccak_init")]
            gotcap = ini[0].args[0][1] if len(ini) == 1 else None
            want_prefix = [] if pad == 0x1F else [ref_bytepad(ref_encstr(fnm) + ref_encstr(cus), rate)]
            ok = h.get("_padding") == pad and gotcap == cap // 8 and upd.get("data", []) == want_prefix
            check.ob("K", "K|cshake.%d.%s.%s" % (cap, fnm.decode() or "-", cus.decode() or "-"), ok, mod.path, fn.lineno,
                     extracted="capacity %r bytes, domain byte %r, absorbed prefix %s" % (
                         gotcap, h.get("_padding"), [x.hex()[:24] + ".." if isinstance(x, bytes) else repr(x) for x in upd.get("data", [])]),
                     expected="capacity %d bytes, domain byte 0x%02X, prefix %s" % (
                         cap // 8, pad, "none (cSHAKE with empty N and S is SHAKE)" if pad == 0x1F else
                         "bytepad(encode_string(N) || encode_string(S), %d)" % rate),
                     note="SP 800-185 3.3")
    from . import c03_extra
    c03_extra.run(check, ctx)
    # the native Poly1305 on a boundary table of limb values
    from . import c_poly
    c_poly.poly_tables(check, ctx)
    # the native sponge with the permutation uninterpreted: padding, rate, suffix, output for all message values
    from . import c_keccak
    c_keccak.keccak_tables(check, ctx, groups=("sponge", "init"))
    # the Merkle-Damgard hashes with the compression function uninterpreted: padding, length field, serialisation, IVs
    from . import c_md
    c_md.md_tables(check, ctx)
    # the compression functions and Keccak-p themselves, concretely, against an independent implementation
    from . import c_digest
    c_digest.digest_tables(check, ctx, groups=("md", "keccak", "blake2", "blake2-counter"))
    # requests of 4 GiB or more: no 32-bit counter or truncation meets the caller's length in the native update paths
    from .. import crules
    nfun = crules.streaming_length_rule(check, ctx.cdb, rule="M", only_tus=('MD2.c', 'MD4.c', 'MD5.c', 'RIPEMD160.c', 'SHA1.c', 'SHA224.c', 'SHA256.c', 'SHA384.c', 'SHA512.c', 'blake2b.c', 'blake2s.c', 'keccak.c', 'poly1305.c'))
    if nfun < 20:
        raise AnalysisError("only %d native hash entry points with a length parameter found (confirmed: 25)" % nfun)
    # KangarooTwelve's tree bookkeeping in Python
    from . import c09_extra
    c09_extra.k12_tree_rows(check, repo)
    check.undecided.append("digest values beyond the message table of K-kat|c|digest (the compression functions and Keccak-p are straight-line code, "
                           "one block exercises every operation, but only those rows are decided); Poly1305 beyond the boundary table")
