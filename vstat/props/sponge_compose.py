"""The Python layer of the Keccak family over an exact model of the native sponge (C03).

SHA-3, SHAKE, cSHAKE, KMAC, TupleHash, TurboSHAKE and KangarooTwelve are Python classes that frame their input
(SP 800-185 encoders, domain bytes, KangarooTwelve's tree) and drive one native object: keccak_init / absorb / squeeze
/ digest / copy / reset.  Here that native object is the checker's own sponge (Keccak-p written with Python ints, the
state kept in the abstract heap), so the real classes can be interpreted end to end on concrete messages: created
with and without initial data, updated in pieces, read in pieces, digested twice.  Every output is compared with an
independent definition: hashlib for SHA-3 and SHAKE, and for the others the standard written out in this module on
top of the same sponge reference (which c_digest ties to hashlib and which is checked here against the first SP
800-185 sample of cSHAKE128 and KMAC128).  The native sponge itself is decided by c_keccak / c_digest.
"""
import hashlib

from ..absint import Interp
from ..absstate import State
from ..absval import UNK, AObj, Unknown
from ..core import AnalysisError
from .c_digest import sponge_ref

H = "Crypto.Hash."


# ------------------------------------------------------------------------------------------------ SP 800-185
def left_encode(x):
    b = x.to_bytes(max(1, (x.bit_length() + 7) // 8), "big")
    return bytes([len(b)]) + b


def right_encode(x):
    b = x.to_bytes(max(1, (x.bit_length() + 7) // 8), "big")
    return b + bytes([len(b)])


def encode_string(s):
    return left_encode(8 * len(s)) + s


def bytepad(x, w):
    z = left_encode(w) + x
    return z + bytes(-len(z) % w)


def ref_cshake(x, outlen, n, s, bits):
    cap = 2 * bits // 8
    rate = 200 - cap
    if not n and not s:
        return sponge_ref(x, cap, 24, 0x1F, outlen)
    return sponge_ref(bytepad(encode_string(n) + encode_string(s), rate) + x, cap, 24, 0x04, outlen)


def ref_kmac(key, x, outlen, s, bits):
    rate = 200 - 2 * bits // 8
    return ref_cshake(bytepad(encode_string(key), rate) + x + right_encode(8 * outlen), outlen, b"KMAC", s, bits)


def ref_tuplehash(items, outlen, s, bits):
    return ref_cshake(b"".join(encode_string(i) for i in items) + right_encode(8 * outlen), outlen, b"TupleHash", s, bits)


def ref_turboshake(m, domain, outlen, bits):
    return sponge_ref(m, 2 * bits // 8, 12, domain, outlen)


def ref_k12(msg, custom, outlen):
    def length_encode(x):
        b = x.to_bytes((x.bit_length() + 7) // 8, "big") if x else b""
        return b + bytes([len(b)])
    S = msg + custom + length_encode(len(custom))
    if len(S) <= 8192:
        return ref_turboshake(S, 0x07, outlen, 128)
    chunks = [S[i:i + 8192] for i in range(0, len(S), 8192)]
    node = chunks[0] + b"\x03" + bytes(7) + b"".join(ref_turboshake(c, 0x0B, 32, 128) for c in chunks[1:]) + length_encode(len(chunks) - 1) + b"\xff\xff"
    return ref_turboshake(node, 0x06, outlen, 128)


def self_check():
    d = bytes([0, 1, 2, 3])
    if ref_cshake(d, 32, b"", b"Email Signature", 128).hex() != "c1c36925b6409a04f1b504fcbca9d82b4017277cb5ed2b2065fc1d3814d5aaf5":
        raise AnalysisError("the checker's cSHAKE128 reference does not reproduce SP 800-185 sample 1")
    if ref_kmac(bytes(range(0x40, 0x60)), d, 32, b"", 128).hex() != "e5780b0d3ea6f7d3a429c5706aa43a00fadbd7d49628839e3187243f456ee14e":
        raise AnalysisError("the checker's KMAC128 reference does not reproduce SP 800-185 sample 1")
    if sponge_ref(b"abc", 64, 24, 0x06, 32) != hashlib.sha3_256(b"abc").digest():
        raise AnalysisError("the checker's sponge does not reproduce SHA3-256")


# ------------------------------------------------------------------------------------------------ native sponge model
class World(object):
    def __init__(self, repo):
        self.repo = repo
        it = Interp(repo, max_depth=12, budget=8000000,
                    extra_models={"Crypto.Util._raw_api.VoidPointer": self.m_voidptr, "Crypto.Util._raw_api.SmartPointer": self.m_smartptr,
                                  "Crypto.Util._raw_api.create_string_buffer": lambda i, a, kw, st, node: bytearray(a[0]) if a and isinstance(a[0], int) else UNK,
                                  "Crypto.Util._raw_api.get_raw_buffer": lambda i, a, kw, st, node: bytes(a[0]) if a and isinstance(a[0], (bytes, bytearray)) else UNK,
                                  "Crypto.Random.get_random_bytes": lambda i, a, kw, st, node: bytes(a[0]) if a and isinstance(a[0], int) else UNK},
                    method_models={"get": self.m_get, "address_of": self.m_addr, "release": lambda i, base, a, kw, st, node: None})
        it.ffi_models = {"keccak_init": self.f_init, "keccak_destroy": lambda i, a, kw, st, node: 0, "keccak_absorb": self.f_absorb,
                         "keccak_squeeze": self.f_squeeze, "keccak_digest": self.f_digest, "keccak_copy": self.f_copy, "keccak_reset": self.f_reset}
        it.unroll_limit = 4000
        it.for_limit = 400
        self.it = it
        self.st = State()

    def m_voidptr(self, i, a, kw, st, node):
        o = i.new_obj(st, label="voidptr")
        st.heap[o.ident].update({"kind": "ptr", "val": None})
        return o

    def m_smartptr(self, i, a, kw, st, node):
        o = i.new_obj(st, label="smartptr")
        st.heap[o.ident].update({"kind": "ptr", "val": a[0] if a else None})
        return o

    def m_get(self, i, base, a, kw, st, node):
        h = st.heap.get(getattr(base, "ident", -1), {})
        return h.get("val") if h.get("kind") == "ptr" else UNK

    def m_addr(self, i, base, a, kw, st, node):
        h = st.heap.get(getattr(base, "ident", -1), {})
        return ("addr", base.ident) if h.get("kind") == "ptr" else UNK

    def _cell(self, st, h):
        return st.heap.get(h[1]) if isinstance(h, tuple) and len(h) == 2 and h[0] == "kk" and h[1] in st.heap else None

    def f_init(self, i, a, kw, st, node):
        addr, cap, rounds = (list(a) + [None] * 3)[:3]
        if not isinstance(addr, tuple) or not isinstance(cap, int) or not isinstance(rounds, int):
            return Unknown("int")
        if not (0 < cap < 200) or rounds not in (12, 24):
            return 3
        o = i.new_obj(st, label="sponge")
        st.heap[o.ident].update({"kind": "sponge", "cap": cap, "rounds": rounds, "buf": b"", "sq": False, "pos": 0, "pad": None})
        st.heap[addr[1]]["val"] = ("kk", o.ident)
        return 0

    def f_absorb(self, i, a, kw, st, node):
        c = self._cell(st, a[0])
        d, n = a[1], a[2]
        if isinstance(d, memoryview):
            d = bytes(d)
        if c is None or not isinstance(d, (bytes, bytearray)) or not isinstance(n, int) or n > len(d):
            return Unknown("int")
        if c["sq"]:
            return 32
        c["buf"] = c["buf"] + bytes(d[:n])
        return 0

    def f_squeeze(self, i, a, kw, st, node):
        c = self._cell(st, a[0])
        out, n, pad = a[1], a[2], a[3]
        if c is None or not isinstance(out, bytearray) or not isinstance(n, int) or not isinstance(pad, int) or n > len(out):
            return Unknown("int")
        if not c["sq"]:
            c["sq"], c["pad"] = True, pad
        stream = sponge_ref(c["buf"], c["cap"], c["rounds"], c["pad"], c["pos"] + n)
        out[:n] = stream[c["pos"]:c["pos"] + n]
        c["pos"] += n
        return 0

    def f_digest(self, i, a, kw, st, node):
        c = self._cell(st, a[0])
        out, n, pad = a[1], a[2], a[3]
        if c is None or not isinstance(out, bytearray) or not isinstance(n, int) or not isinstance(pad, int) or n > len(out):
            return Unknown("int")
        out[:n] = sponge_ref(c["buf"], c["cap"], c["rounds"], pad, n)
        return 0

    def f_copy(self, i, a, kw, st, node):
        s_, d_ = self._cell(st, a[0]), self._cell(st, a[1])
        if s_ is None or d_ is None:
            return Unknown("int")
        for k in ("cap", "rounds", "buf", "sq", "pos", "pad"):
            d_[k] = s_[k]
        return 0

    def f_reset(self, i, a, kw, st, node):
        c = self._cell(st, a[0])
        if c is None:
            return Unknown("int")
        c.update({"buf": b"", "sq": False, "pos": 0, "pad": None})
        return 0

    # driving
    def new(self, modname, **kwargs):
        mod = self.repo.module(modname)
        fn = self.repo.func(mod, "new")
        seeds = {}
        ps = [x.arg for x in fn.args.args + fn.args.kwonlyargs]
        if fn.args.vararg is not None:
            seeds[fn.args.vararg.arg] = ()
        if fn.args.kwarg is not None:
            seeds[fn.args.kwarg.arg] = dict(kwargs)
        else:
            seeds.update(dict((k, v) for k, v in kwargs.items() if k in ps))
        res = self.it.run(mod, fn, seeds, state=self.st, bind_defaults=True)
        r = res.returns()
        if len(r) != 1 or res.raises() or not isinstance(r[0].value, AObj):
            return ("undecided", len(r), tuple(res.raise_classes()))
        self.st = r[0].state
        self.st.frames = [{}]
        return r[0].value

    def call(self, obj, meth, *args):
        r = self.repo.find_method(obj.mod, obj.cnode, meth)
        if r is None:
            raise AnalysisError("anchor vanished: %s.%s" % (obj.cnode.name, meth))
        fn = r[1]
        ps = [x.arg for x in fn.args.args][1:]
        seeds = dict(zip(ps, args))
        if fn.args.vararg is not None:
            seeds[fn.args.vararg.arg] = tuple(args[len(ps):]) if len(args) > len(ps) else ()
            if not ps:
                seeds[fn.args.vararg.arg] = tuple(args)
        res = self.it.run(r[0], fn, seeds, self_obj=obj, state=self.st, bind_defaults=True)
        if res.rejected():
            return ("raises",) + tuple(sorted(set(res.raise_classes())))
        rets = res.returns()
        if len(rets) != 1 or res.raises():
            return ("undecided", len(rets), tuple(res.raise_classes()))
        self.st = rets[0].state
        self.st.frames = [{}]
        v = rets[0].value
        return bytes(v) if isinstance(v, bytearray) else v


def _pat(n, s):
    return bytes((s + 7 * i + (i >> 5)) & 0xFF for i in range(n))


def _cuts(msg, how):
    if how == 0:
        return [msg]
    cuts = {1: [0, 1, 1, 17], 2: [0, 135, 136, 137, 168, 169], 3: [0, 64, 200]}[how] + [len(msg)]
    out = []
    for a, b in zip(cuts, cuts[1:]):
        a, b = min(a, len(msg)), min(b, len(msg))
        out.append(msg[a:b])
    return out


def _job(arg):
    repo, alg, params, msg, how, reads = arg
    w = World(repo)
    first, rest = (msg[:5], msg[5:]) if how == 3 else (None, msg)      # how 3: part of the data already in new()
    kw = dict(params)
    items = None
    if alg.startswith("TupleHash"):
        items = _cuts(msg, 1)
    elif first is not None:
        kw["data"] = first
    o = w.new(H + alg, **kw)
    if not isinstance(o, AObj):
        return "new(): %r" % (o,)
    if items is not None:
        r = w.call(o, "update", *items) if how == 0 else None
        if how != 0:
            for it_ in items:
                r = w.call(o, "update", it_)
        if isinstance(r, tuple):
            return "update(): %r" % (r,)
    else:
        for p in _cuts(rest, how if how != 3 else 2):
            r = w.call(o, "update", p)
            if isinstance(r, tuple):
                return "update(): %r" % (r,)
    total = sum(reads)
    bits = 256 if "256" in alg and not alg.startswith("SHA3") else 128
    if alg.startswith("SHA3_"):
        want = hashlib.new(alg.lower(), msg).digest()
    elif alg.startswith("SHAKE"):
        want = hashlib.new("shake_%d" % bits, msg).digest(total)
    elif alg.startswith("cSHAKE"):
        want = ref_cshake(msg, total, b"", params.get("custom") or b"", bits)
    elif alg.startswith("KMAC"):
        want = ref_kmac(params["key"], msg, total, params.get("custom", b""), bits)
    elif alg.startswith("TupleHash"):
        want = ref_tuplehash(items, total, params.get("custom", b""), bits)
    elif alg.startswith("TurboSHAKE"):
        want = ref_turboshake(msg, params.get("domain", 0x1F), total, bits)
    else:
        want = ref_k12(msg, params.get("custom") or b"", total)
    if alg.startswith(("SHA3_", "KMAC", "TupleHash")):
        got = w.call(o, "digest")
        again = w.call(o, "digest")
        if got != again:
            return "digest() twice: %r then %r" % (got if not isinstance(got, bytes) else got.hex()[:16], again if not isinstance(again, bytes) else again.hex()[:16])
        hx = w.call(o, "hexdigest")
        if isinstance(got, bytes) and hx != got.hex():
            return "hexdigest() is not the hexadecimal form of digest()"
    else:
        got = b""
        for n in reads:
            r = w.call(o, "read", n)
            if not isinstance(r, bytes) or len(r) != n:
                return "read(%d): %r" % (n, r if not isinstance(r, bytes) else "%d bytes" % len(r))
            got += r
        r = w.call(o, "update", b"x")
        if r != ("raises", "TypeError"):
            return "update() after read(): %r" % (r,)
    if got != want:
        return "%s, the standard gives %s" % (got.hex()[:24] + ".." if isinstance(got, bytes) else got, want.hex()[:24] + "..")
    return None


def _copy_job(arg):
    """update(a); c = copy(); update(b) on the original, update(c) on the copy: each continues from the state at the
    moment of copying, independently of the other."""
    repo, alg, params, a_, b_, c_ = arg
    w = World(repo)
    o = w.new(H + alg, **dict(params))
    if not isinstance(o, AObj):
        return "new(): %r" % (o,)
    if w.repo.find_method(o.mod, o.cnode, "copy") is None:
        return "no copy()"
    w.call(o, "update", a_)
    cp = w.call(o, "copy")
    if not isinstance(cp, AObj):
        return "copy(): %r" % (cp,)
    w.call(o, "update", b_)
    w.call(cp, "update", c_)
    bits = 256 if "256" in alg and not alg.startswith("SHA3") else 128
    out = []
    for obj, data in ((o, a_ + b_), (cp, a_ + c_)):
        if alg.startswith("SHA3_"):
            got, want = w.call(obj, "digest"), hashlib.new(alg.lower(), data).digest()
        else:
            got = w.call(obj, "read", 40)
            want = hashlib.new("shake_%d" % bits, data).digest(40) if alg.startswith("SHAKE") else ref_cshake(data, 40, b"", params.get("custom") or b"", bits)
        if got != want:
            return "%s after copy(): %s, the standard gives %s for its own data" % ("the original" if obj is o else "the copy", got.hex()[:16] if isinstance(got, bytes) else got, want.hex()[:16])
    return None


def sponge_tables(check, ctx, rule="K-pw"):
    from ..par import pmap
    repo = ctx.repo
    self_check()
    th = ctx.tier == "thorough"
    key = bytes(range(0x40, 0x60))
    ALGS = [("SHA3_224", {}, [28]), ("SHA3_256", {}, [32]), ("SHA3_384", {}, [48]), ("SHA3_512", {}, [64]),
            ("SHAKE128", {}, [10, 200]), ("SHAKE256", {}, [1, 135, 137]),
            ("cSHAKE128", {"custom": b"Email Signature"}, [32, 1]), ("cSHAKE256", {"custom": _pat(300, 3)}, [64]), ("cSHAKE128", {"custom": b""}, [40]),
            ("KMAC128", {"key": key, "mac_len": 32, "custom": b""}, [32]), ("KMAC128", {"key": _pat(200, 9), "mac_len": 9, "custom": b"My Tagged Application"}, [9]),
            ("KMAC256", {"key": key, "mac_len": 64, "custom": b"My Tagged Application"}, [64]),
            ("TupleHash128", {"digest_bytes": 32, "custom": b""}, [32]), ("TupleHash256", {"digest_bytes": 64, "custom": b"My Tuple App"}, [64]),
            ("TurboSHAKE128", {"domain": 0x1F}, [32, 170]), ("TurboSHAKE128", {"domain": 0x07}, [64]), ("TurboSHAKE256", {"domain": 0x0B}, [1, 140]),
            ("KangarooTwelve", {"custom": b""}, [32]), ("KangarooTwelve", {"custom": b"custom"}, [16, 48])]
    jobs = []
    for alg, params, reads in ALGS:
        for ml in (0, 3, 135, 136, 137, 169, 400) if th else (0, 3, 136, 169):
            for how in (0, 1, 2, 3) if th else ((ml // 3) % 4,):
                if alg.startswith(("KMAC", "TupleHash", "TurboSHAKE", "KangarooTwelve")) and how == 3 and alg.startswith("TupleHash"):
                    continue
                jobs.append((repo, alg, params, _pat(ml, len(alg)), how, reads))
    errs = pmap(_job, jobs)
    per = {}
    for j, e in zip(jobs, errs):
        d = per.setdefault(j[1], [0, []])
        d[0] += 1
        if e:
            d[1].append("%d-byte message, feeding %d, %s: %s" % (len(j[3]), j[4], dict((k, (v if not isinstance(v, bytes) else "%d bytes" % len(v))) for k, v in j[2].items()), e))
    und = [a for a, d in per.items() if d[1] and len(d[1]) == d[0] and all("undecided" in x for x in d[1])]
    if und:
        raise AnalysisError("the %s stack could not be interpreted over the sponge model: %s" % (und[0], per[und[0]][1][0]))
    total = 0
    for alg, (n, wrong) in sorted(per.items()):
        total += n
        mod = repo.module(H + alg)
        check.ob(rule, "%s|sponge.stack.%s" % (rule, alg), not wrong, mod.path, 0,
                 extracted=("%d of %d rows differ: " % (len(wrong), n) + "; ".join(wrong[:2])) if wrong else "%d rows (messages around the rate boundaries, fed in pieces / partly through new(), output read in pieces, digest twice) equal the standard" % n,
                 expected="FIPS 202 / SP 800-185 / RFC 9861 value of the object for the data supplied, whatever the split")
    # copies continue independently
    cj = []
    for alg, params in (("SHA3_224", {}), ("SHA3_256", {}), ("SHA3_384", {}), ("SHA3_512", {}), ("SHAKE128", {}), ("SHAKE256", {})):
        for (la, lb, lc) in ((0, 3, 5), (100, 36, 37), (136, 0, 1)):
            cj.append((repo, alg, params, _pat(la, 1), _pat(lb, 2), _pat(lc, 3)))
    cerr = pmap(_copy_job, cj)
    wrong = ["%s (%d + %d / %d bytes): %s" % (j[1], len(j[3]), len(j[4]), len(j[5]), e) for j, e in zip(cj, cerr) if e]
    if wrong and all("undecided" in x or "no copy()" in x for x in wrong) and len(wrong) == len(cj):
        raise AnalysisError("copy() rows of the Keccak family could not be interpreted: %s" % wrong[0])
    check.ob(rule, "%s|sponge.stack.copy" % rule, not wrong, repo.module(H + "SHA3_256").path, 0,
             extracted=("%d of %d rows differ: " % (len(wrong), len(cj)) + "; ".join(wrong[:2])) if wrong else "%d rows: original and copy continue independently from the state at the moment of copying" % len(cj),
             expected="copy() returns an independent object with the same state")
    total += len(cj)
    check.count("sponge_stack_rows", total)
    return total


# ------------------------------------------------------------------------------------------------ MD family and BLAKE2
# module -> (native prefix, hashlib constructor of the digest for (data, init arguments))
MD_FAMILY = {
    "MD5": ("MD5", lambda d, a: hashlib.md5(d).digest()),
    "SHA1": ("SHA1", lambda d, a: hashlib.sha1(d).digest()),
    "SHA224": ("SHA224", lambda d, a: hashlib.sha224(d).digest()),
    "SHA256": ("SHA256", lambda d, a: hashlib.sha256(d).digest()),
    "SHA384": ("SHA384", lambda d, a: hashlib.sha384(d).digest()),
    "SHA512": ("SHA512", lambda d, a: {64: hashlib.sha512, 28: lambda x: hashlib.new("sha512_224", x), 32: lambda x: hashlib.new("sha512_256", x)}[a[0]](d).digest()),
    "RIPEMD160": ("ripemd160", lambda d, a: hashlib.new("ripemd160", d).digest()),
    "BLAKE2b": ("blake2b", lambda d, a: hashlib.blake2b(d, key=a[0], digest_size=a[1]).digest().ljust(64, b"\x00")),
    "BLAKE2s": ("blake2s", lambda d, a: hashlib.blake2s(d, key=a[0], digest_size=a[1]).digest().ljust(32, b"\x00")),
}


class MdWorld(World):
    """The native Merkle-Damgard / BLAKE2 objects as hashlib computations over the bytes absorbed so far."""

    def __init__(self, repo, alg):
        World.__init__(self, repo)
        pre, self.fn = MD_FAMILY[alg]
        self.alg = alg
        self.it.ffi_models = {pre + "_init": self.g_init, pre + "_update": self.g_update, pre + "_digest": self.g_digest,
                              pre + "_copy": self.g_copy, pre + "_destroy": lambda i, a, kw, st, node: 0}

    def g_init(self, i, a, kw, st, node):
        addr = a[0]
        extra = list(a[1:])
        if not isinstance(addr, tuple):
            return Unknown("int")
        if self.alg.startswith("BLAKE2"):
            key, klen, dsz = (extra + [None] * 3)[:3]
            if not isinstance(key, (bytes, bytearray)) or klen != len(key) or not isinstance(dsz, int):
                return Unknown("int")
            mx = 64 if self.alg == "BLAKE2b" else 32
            if not (1 <= dsz <= mx) or klen > mx:
                return 3
            extra = [bytes(key), dsz]
        elif self.alg == "SHA512" and (len(extra) != 1 or extra[0] not in (28, 32, 64)):
            return 3 if extra and isinstance(extra[0], int) else Unknown("int")
        o = i.new_obj(st, label="mdstate")
        st.heap[o.ident].update({"kind": "md", "buf": b"", "args": extra})
        st.heap[addr[1]]["val"] = ("kk", o.ident)
        return 0

    def g_update(self, i, a, kw, st, node):
        c = self._cell(st, a[0])
        d, n = a[1], a[2]
        if c is None or not isinstance(d, (bytes, bytearray)) or not isinstance(n, int) or n > len(d):
            return Unknown("int")
        c["buf"] = c["buf"] + bytes(d[:n])
        return 0

    def g_digest(self, i, a, kw, st, node):
        c = self._cell(st, a[0])
        out = a[1]
        if c is None or not isinstance(out, bytearray):
            return Unknown("int")
        dg = self.fn(c["buf"], c["args"])
        if len(a) > 2:
            if not isinstance(a[2], int) or a[2] != len(dg) and self.alg not in ("SHA224", "SHA384", "SHA512"):
                return 3
            dg = dg[:a[2]]
        if len(out) < len(dg):
            return 3
        out[:len(dg)] = dg
        return 0

    def g_copy(self, i, a, kw, st, node):
        s_, d_ = self._cell(st, a[0]), self._cell(st, a[1])
        if s_ is None or d_ is None:
            return Unknown("int")
        d_["buf"], d_["args"] = s_["buf"], list(s_["args"])
        return 0


def _md_job(arg):
    repo, alg, params, msg, how = arg
    w = MdWorld(repo, alg)
    kw = dict(params)
    first, rest = (msg[:5], msg[5:]) if how == 3 else (None, msg)
    if first is not None:
        kw["data"] = first
    o = w.new(H + alg, **kw)
    if not isinstance(o, AObj):
        return "new(): %r" % (o,)
    for p in _cuts(rest, how if how != 3 else 1):
        r = w.call(o, "update", p)
        if isinstance(r, tuple):
            return "update(): %r" % (r,)
    if alg == "SHA512":
        want = {None: hashlib.sha512, "224": lambda x: hashlib.new("sha512_224", x), "256": lambda x: hashlib.new("sha512_256", x)}[params.get("truncate")](msg).digest()
    elif alg.startswith("BLAKE2"):
        dsz = params.get("digest_bytes") or (params["digest_bits"] // 8 if params.get("digest_bits") else (64 if alg == "BLAKE2b" else 32))
        want = getattr(hashlib, alg.lower())(msg, key=params.get("key", b""), digest_size=dsz).digest()
    else:
        want = MD_FAMILY[alg][1](msg, [])
    got = w.call(o, "digest")
    if got != want:
        return "digest() = %s, hashlib gives %s" % (got.hex()[:20] + ".." if isinstance(got, bytes) else got, want.hex()[:20] + "..")
    if w.call(o, "digest") != want:
        return "a second digest() differs"
    if w.call(o, "hexdigest") != want.hex():
        return "hexdigest() is not the hexadecimal form of digest()"
    if w.repo.find_method(o.mod, o.cnode, "copy") is not None and not alg.startswith("BLAKE2"):
        cp = w.call(o, "copy")
        if not isinstance(cp, AObj):
            return "copy(): %r" % (cp,)
        w.call(cp, "update", b"tail")
        if w.call(cp, "digest") != MD_FAMILY[alg][1](msg + b"tail", [len(want)] if alg == "SHA512" else []):
            return "the copy, continued with 4 more bytes, gives another digest than hashlib"
        if w.call(o, "digest") != want:
            return "the original changed when its copy was updated"
    # a fresh object of the same kind
    nw = w.call(o, "new", b"xyz") if not alg.startswith("BLAKE2") else None
    if nw is not None:
        if not isinstance(nw, AObj):
            return "obj.new(): %r" % (nw,)
        ref_new = MD_FAMILY[alg][1](b"xyz", [len(want)] if alg == "SHA512" else [])
        if w.call(nw, "digest") != ref_new:
            return "obj.new(b'xyz').digest() is not the digest of b'xyz' under the same algorithm variant"
    return None


def md_stack_tables(check, ctx, rule="K-pw"):
    from ..par import pmap
    repo = ctx.repo
    th = ctx.tier == "thorough"
    ALGS = [("MD5", {}), ("SHA1", {}), ("SHA224", {}), ("SHA256", {}), ("SHA384", {}), ("SHA512", {"truncate": None}), ("SHA512", {"truncate": "224"}),
            ("SHA512", {"truncate": "256"}), ("RIPEMD160", {}),
            ("BLAKE2b", {}), ("BLAKE2b", {"digest_bytes": 20, "key": _pat(64, 1)}), ("BLAKE2b", {"digest_bits": 384}),
            ("BLAKE2s", {}), ("BLAKE2s", {"digest_bits": 128, "key": _pat(7, 2)}), ("BLAKE2s", {"digest_bytes": 1})]
    jobs = []
    for alg, params in ALGS:
        for ml in (0, 3, 55, 56, 64, 111, 112, 128, 200) if th else (0, 56, 119, 200):
            for how in (0, 1, 3) if th else ((ml // 7) % 2 * 3,):
                jobs.append((repo, alg, params, _pat(ml, len(alg) + len(params)), how))
    errs = pmap(_md_job, jobs)
    per = {}
    for j, e in zip(jobs, errs):
        d = per.setdefault(j[1], [0, []])
        d[0] += 1
        if e:
            d[1].append("%d-byte message, feeding %d, %s: %s" % (len(j[3]), j[4], dict((k, (v if not isinstance(v, bytes) else "%d bytes" % len(v))) for k, v in j[2].items()), e))
    und = [a for a, d in per.items() if d[1] and len(d[1]) == d[0] and all("undecided" in x for x in d[1])]
    if und:
        raise AnalysisError("the %s stack could not be interpreted over the hash model: %s" % (und[0], per[und[0]][1][0]))
    total = 0
    for alg, (n, wrong) in sorted(per.items()):
        total += n
        check.ob(rule, "%s|hash.stack.%s" % (rule, alg), not wrong, repo.module(H + alg).path, 0,
                 extracted=("%d of %d rows differ: " % (len(wrong), n) + "; ".join(wrong[:2])) if wrong else "%d rows: digest / hexdigest / a second digest / copy() continued / obj.new() equal hashlib for the data supplied (variants: truncation, digest size, key)" % n,
                 expected="the object's value is the standard's hash of the data supplied, whatever the split; digest() does not consume; copies and fresh objects keep the variant")
    check.count("hash_stack_rows", total)
    return total
