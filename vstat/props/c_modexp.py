"""src/modexp.c, modexp_utils.c and endianess.h on the C evaluator (C14, C16, C17).

* bit windows: for every window size 1..8 and exponent byte strings of 1..5
  bytes with all-ones, alternating and single-bit patterns, the digits produced
  by get_next_digit_lr / get_next_digit_rl re-assemble to the exponent (the
  scanners touch the exponent through shifts and masks that depend only on
  window size and length: those are the regions);
* scatter/gather: every index of a scattered table gathers back the array
  that was stored (cache-line interleaving with a seed-dependent permutation);
* bytes_to_words / words_to_bytes: lengths around word boundaries, leading
  zeros, too-short outputs refused;
* monty_pow / monty_multiply: equal to pow(b, e, m) / a*b mod m on exponents
  at the window boundaries (0, 1, 2^k-1, 2^k, leading zero bytes, all ones),
  bases 0, 1, m-1, and one-, two- and three-word odd moduli; even moduli and
  zero length refused.
"""
from ..ceval import CProgram, Machine, CError, Undecided, P, CT, Shard, run_sharded, VOID, resolve
from ..core import AnalysisError

SRC = "src/modexp.c"
PTR = CT("ptr", 8, to=VOID)
U32 = CT("int", 4, False)


def window_rows(prog, sh=None):
    sh = sh or Shard()
    wrong = []
    n = 0
    pats = []
    for ln in (1, 2, 3, 5):
        pats += [b"\xff" * ln, b"\x80" + b"\x00" * (ln - 1), b"\x00" * (ln - 1) + b"\x01", bytes((0xA5, 0x3C, 0x96, 0x0F, 0xF1)[:ln]),
                 bytes((0x01, 0x23, 0x45, 0x67, 0x89)[:ln])]
    for w in range(1, 9):
        for e in pats:
            if not sh.take():
                continue
            m = Machine(prog, SRC)
            tu = m.tu
            ev = int.from_bytes(e, "big")
            nbits = 8 * len(e)
            for kind in ("lr", "rl"):
                st_t = resolve(tu.parse("struct BitWindow_" + kind.upper()))
                pe = m.alloc_bytes(list(e), "exp")
                bw = m.call("init_bit_window_" + kind, [w, pe, len(e)])
                pbw = m.alloc(st_t.size, "bw", "heap", init=0)
                m.store(pbw, st_t, bw)
                off, ft = st_t.fields["nr_windows"]
                nw = m.load(P(pbw.obj, off), ft)
                n += 1
                if nw != (nbits + w - 1) // w:
                    wrong.append("%s window %d, %d-byte exponent: nr_windows = %r" % (kind, w, len(e), nw))
                    continue
                digits = [m.call("get_next_digit_" + kind, [pbw]) for _ in range(nw)]
                if kind == "lr":
                    # most significant digit first; the first digit holds the nbits % w leftover bits
                    val = 0
                    for d in digits:
                        val = (val << w) | d
                    ok = val == ev and all(0 <= d < (1 << w) for d in digits)
                else:
                    val = sum(d << (w * i) for i, d in enumerate(digits))
                    ok = val == ev and all(0 <= d < (1 << w) for d in digits)
                if not ok:
                    wrong.append("%s window %d, exponent %s: digits %s re-assemble to %#x" % (kind, w, e.hex(), digits, val))
                bad = [x for x in m.events if x[0] in ("bad-shift", "signed-overflow", "uninit-read")]
                if bad:
                    wrong.append("%s window %d, exponent %s: %s (line %s)" % (kind, w, e.hex(), bad[0][1], bad[0][2]))
                    m.events[:] = []
    return n, wrong


def scatter_rows(prog, sh=None):
    sh = sh or Shard()
    wrong = []
    n = 0
    for (nr, alen) in ((2, 8), (4, 24), (16, 8), (32, 16), (32, 72), (64, 40)):
        for seed in (0, 0x0123456789ABCDEF):
            if not sh.take():
                continue
            m = Machine(prog, SRC, budget=30000000)
            arrs = []
            for i in range(nr):
                arrs.append(m.alloc_bytes([(i * 7 + j * 3 + 1) & 0xFF for j in range(alen)], "array%d" % i))
            tab = m.alloc(8 * nr, "arrays", "heap", init=0)
            for i, a in enumerate(arrs):
                m.store(P(tab.obj, 8 * i), PTR, a)
            pp = m.alloc(8, "pprot", "heap", init=0)
            rc = m.call("scatter", [pp, tab, nr, alen, seed])
            n += 1
            if rc != 0:
                wrong.append("scatter(%d arrays of %d bytes) returns %r" % (nr, alen, rc))
                continue
            prot = m.load(pp, PTR)
            for i in range(nr):
                out = m.alloc(alen, "out", "heap", init=None)
                m.call("gather", [out, prot, i])
                n += 1
                got = m.concrete_bytes(out, alen)
                want = bytes((i * 7 + j * 3 + 1) & 0xFF for j in range(alen))
                if got != want:
                    wrong.append("gather(index %d of %d, %d-byte arrays, seed %#x) returns %s.., stored %s.." % (
                        i, nr, alen, seed, got[:8].hex(), want[:8].hex()))
                    break
            m.call("free_scattered", [prot])
            live = [o for o in m.objs.values() if o.kind == "heap" and not o.freed and o.name.startswith(("calloc", "malloc", "posix"))]
            if live:
                wrong.append("free_scattered leaves %s allocated" % live[0].name)
    return n, wrong


def convert_rows(prog, sh=None):
    sh = sh or Shard()
    wrong = []
    n = 0
    for ln in (1, 7, 8, 9, 15, 16, 17, 24):
        for lead in (0, 1, 9):
            for words in (1, 2, 3, 4):
                if not sh.take():
                    continue
                m = Machine(prog, SRC)
                data = bytes([0] * lead + [((i * 37 + 11) & 0xFF) or 1 for i in range(ln)])
                v = int.from_bytes(data, "big")
                px = m.alloc(8 * words, "x", "heap", init=None)
                rc = m.call("bytes_to_words", [px, words, m.alloc_bytes(list(data), "in"), len(data)])
                n += 1
                fits = (v.bit_length() + 63) // 64 <= words
                if rc == 0:
                    got = sum(int.from_bytes(m.concrete_bytes(P(px.obj, 8 * i), 8), "little") << (64 * i) for i in range(words))
                    if got != v:
                        wrong.append("bytes_to_words(%d bytes, %d leading zeros, %d words) = %#x, expected %#x" % (ln, lead, words, got, v))
                elif fits:
                    wrong.append("bytes_to_words refuses a %d-byte number (+%d leading zeros) for %d words (code %r)" % (ln, lead, words, rc))
                if rc == 0 and not fits:
                    wrong.append("bytes_to_words accepts a %d-byte number for %d words" % (ln, words))
                if rc != 0:
                    continue
                for outlen in (len(data) - lead - 1, len(data) - lead, len(data), 8 * words, 8 * words + 3):
                    if outlen <= 0:
                        continue
                    out = m.alloc(outlen, "out", "heap", init=None)
                    rc2 = m.call("words_to_bytes", [out, outlen, px, words])
                    n += 1
                    need = max(1, (v.bit_length() + 7) // 8)
                    if rc2 == 0:
                        got = int.from_bytes(m.concrete_bytes(out, outlen), "big")
                        if got != v:
                            wrong.append("words_to_bytes(%d words -> %d bytes) = %#x, expected %#x" % (words, outlen, got, v))
                    elif outlen >= need:
                        wrong.append("words_to_bytes refuses %d bytes for a %d-byte value (code %r)" % (outlen, need, rc2))
                    if rc2 == 0 and outlen < need:
                        wrong.append("words_to_bytes writes a %d-byte value into %d bytes" % (need, outlen))
    return n, wrong


M1 = (1 << 64) - 59
M2 = ((1 << 127) - 1)
M3 = ((1 << 130) + 0x9D) | 1
MODS = (M1, 3, (1 << 64) - 1, M2, M3)


def pow_rows(prog, sh=None, thorough=False):
    sh = sh or Shard()
    wrong = []
    n = 0
    for mod in MODS:
        ln = (mod.bit_length() + 7) // 8
        exps = [0, 1, 2, 3, 15, 16, 17, 31, 32, 33, 255, 256, 65535, 65537, (1 << (8 * ln - 1)), (1 << (8 * ln)) - 1, mod - 1, mod - 2]
        bases = [0, 1, 2, mod - 1, (mod - 1) // 2, 0xDEADBEEFCAFEF00D % mod]
        if not thorough:
            exps = [0, 1, 3, 15, 16, 17, 31, 32, 33, 255, 65537, (1 << (8 * ln)) - 1, mod - 2]
            bases = [0, 2, mod - 1, 0xDEADBEEFCAFEF00D % mod]
        for e in exps:
            if e >= 1 << (8 * ln):
                continue
            for b in bases:
                if not sh.take():
                    continue
                m = Machine(prog, SRC, budget=60000000)
                out = m.alloc(ln, "out", "heap", init=None)
                rc = m.call("monty_pow", [out, m.alloc_bytes(list(b.to_bytes(ln, "big")), "base"),
                                          m.alloc_bytes(list(e.to_bytes(ln, "big")), "exp"),
                                          m.alloc_bytes(list(mod.to_bytes(ln, "big")), "modulus"), ln, 0x1122334455667788])
                n += 1
                if rc != 0:
                    wrong.append("monty_pow(%#x, %#x, %#x) returns code %r" % (b, e, mod, rc))
                    continue
                got = int.from_bytes(m.concrete_bytes(out, ln), "big")
                if got != pow(b, e, mod):
                    wrong.append("monty_pow(%#x, %#x, %#x) = %#x, expected %#x" % (b, e, mod, got, pow(b, e, mod)))
                live = [o for o in m.objs.values() if o.kind == "heap" and not o.freed and o.name.startswith(("calloc", "malloc", "posix"))]
                if live:
                    wrong.append("monty_pow leaves %s allocated" % live[0].name)
                bad = [x for x in m.events if x[0] in ("bad-shift", "signed-overflow", "uninit-read", "overlap")]
                if bad:
                    wrong.append("monty_pow(%#x, %#x, %#x): %s (line %s)" % (b, e, mod, bad[0][1], bad[0][2]))
        # multiply
        for (a, b) in ((0, 5), (1, mod - 1), (mod - 1, mod - 1), (2, (mod + 1) // 2), (0xDEADBEEF % mod, 0xCAFEBABE12345 % mod)):
            if not sh.take():
                continue
            m = Machine(prog, SRC, budget=30000000)
            out = m.alloc(ln, "out", "heap", init=None)
            rc = m.call("monty_multiply", [out, m.alloc_bytes(list(a.to_bytes(ln, "big")), "t1"),
                                           m.alloc_bytes(list(b.to_bytes(ln, "big")), "t2"),
                                           m.alloc_bytes(list(mod.to_bytes(ln, "big")), "modulus"), ln])
            n += 1
            got = int.from_bytes(m.concrete_bytes(out, ln), "big") if rc == 0 else None
            if got != (a * b) % mod:
                wrong.append("monty_multiply(%#x, %#x, %#x) = %r (code %r)" % (a, b, mod, got, rc))
    # refusals
    for (mod, ln, what) in ((1 << 64, 9, "an even modulus"), (10, 1, "an even modulus"), (7, 0, "a zero length"),
                            (1, 1, "the modulus 1"), (1, 8, "the modulus 1 with leading zeros")):
        if not sh.take():
            continue
        m = Machine(prog, SRC, budget=30000000)
        out = m.alloc(max(ln, 1), "out", "heap", init=None)
        z = m.alloc_bytes([0] * max(ln, 1), "z")
        rc = m.call("monty_pow", [out, z, z, m.alloc_bytes(list(mod.to_bytes(max(ln, 1), "big")), "modulus"), ln, 1])
        n += 1
        if rc == 0:
            wrong.append("monty_pow accepts %s" % what)
    return n, wrong


def pow_rows_thorough(prog, sh=None):
    return pow_rows(prog, sh, thorough=True)


def modexp_tables(check, ctx, rule="K-pw"):
    prog = CProgram(ctx.cdb)
    prog.tu(SRC)
    groups = (("bit_windows", "window_rows", "the digits of the left-to-right and right-to-left scanners re-assemble to the exponent for every window size 1..8 and exponent lengths 1..5", 4),
              ("scatter_gather", "scatter_rows", "gather(i) returns the i-th array given to scatter for every index, 2..64 arrays, several piece geometries and seeds; everything released", 6),
              ("words_bytes", "convert_rows", "bytes_to_words / words_to_bytes are exact around word boundaries and refuse what does not fit", 4),
              ("monty", "pow_rows_thorough" if ctx.tier == "thorough" else "pow_rows", "monty_pow = pow(b, e, m), monty_multiply = a*b mod m on window-boundary exponents and boundary bases for 1..3-word odd moduli; even modulus and zero length refused; nothing leaked", 16))
    total = 0
    for key, fname, what, shards in groups:
        res = run_sharded(ctx.root, prog, __name__, [fname], shards=shards)
        n, wrong, und = res[fname]
        if und:
            raise AnalysisError("C evaluator could not decide %s: %s" % (key, und))
        total += n
        check.ob(rule, "%s|c|modexp.%s" % (rule, key), not wrong, SRC, 0,
                 extracted=("%d of %d rows differ: " % (len(wrong), n) + "; ".join(wrong[:3])) if wrong else "%d rows equal to the integer reference" % n,
                 expected=what)
    check.count("c_modexp_rows", total)
    return total
