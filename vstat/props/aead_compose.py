"""The Python AEAD layers (EAX, SIV, CCM, GCM) as whole compositions (C01, C02, C09).

Each mode object is built and driven by its real code - constructor,
update(), encrypt()/decrypt() in several pieces, digest()/verify(),
encrypt_and_digest()/decrypt_and_verify() - interpreted by A-PY, with the only
things below the Python layer replaced by stand-ins of the checker:

* the block-cipher *factory* (the module the user passes, e.g. AES) is an
  object whose new(key, MODE_ECB | MODE_CBC | MODE_CTR, ...) returns cipher
  objects that implement SP 800-38A over a keyed 4-round Feistel bijection
  (so decryption exists);
* GCM's native GHASH class by the bit-serial multiplication of SP 800-38D.

CMAC, S2V and all formatting are the repository's own code.  Ciphertext and
tag are compared byte for byte with the mode's specification written here over
the same bijection (EAX paper, RFC 5297, SP 800-38C, SP 800-38D), for message
and header lengths in every block-residue class, several nonce and tag
lengths, data fed in one piece and in awkward pieces; then the receiving side
must return the plaintext and accept the tag, and refuse when one bit of the
ciphertext, the tag or the header is changed.
"""
import hashlib
import struct

from ..absint import Interp
from ..absstate import State
from ..absval import ABytes, UNK, AObj, Unknown
from ..core import AnalysisError

MODE = {"ECB": 1, "CBC": 2, "CFB": 3, "OFB": 5, "CTR": 6, "OPENPGP": 7, "CCM": 8, "EAX": 9, "SIV": 10, "GCM": 11, "OCB": 12}


# ------------------------------------------------------------------------------------------------ the stand-in cipher
def toy_E(key, block, inv=False):
    key, block = bytes(key), bytes(block)
    L, R = block[:8], block[8:]
    rounds = (3, 2, 1, 0) if inv else (0, 1, 2, 3)
    for r in rounds:
        if inv:
            L, R = bytes(x ^ y for x, y in zip(R, hashlib.sha256(b"T%d" % r + key + L).digest()[:8])), L
        else:
            L, R = R, bytes(x ^ y for x, y in zip(L, hashlib.sha256(b"T%d" % r + key + R).digest()[:8]))
    return L + R


def xor(a, b):
    return bytes(x ^ y for x, y in zip(a, b))


def ctr_stream(key, nonce, ctr0, n):
    w = 16 - len(nonce)
    out = b""
    i = 0
    while len(out) < n:
        out += toy_E(key, nonce + ((ctr0 + i) % (1 << (8 * w))).to_bytes(w, "big"))
        i += 1
    return out[:n]


def cbc_enc(key, iv, data):
    out, prev = b"", iv
    for o in range(0, len(data), 16):
        prev = toy_E(key, xor(prev, data[o:o + 16]))
        out += prev
    return out, prev


# ------------------------------------------------------------------------------------------------ the specifications
def dbl(b):
    v = int.from_bytes(b, "big") << 1
    if v >> 128:
        v = (v & ((1 << 128) - 1)) ^ 0x87
    return v.to_bytes(16, "big")


def cmac(key, msg):
    L = toy_E(key, bytes(16))
    k1 = dbl(L)
    k2 = dbl(k1)
    if msg and len(msg) % 16 == 0:
        last = xor(msg[-16:], k1)
        body = msg[:-16]
    else:
        r = len(msg) % 16
        last = xor(msg[len(msg) - r:] + b"\x80" + bytes(15 - r), k2)
        body = msg[:len(msg) - r]
    _, prev = cbc_enc(key, bytes(16), body) if body else (b"", bytes(16))
    return toy_E(key, xor(prev, last))


def ref_eax(key, nonce, header, msg, tlen):
    omac = lambda t, m: cmac(key, bytes(15) + bytes([t]) + m)
    N = omac(0, nonce)
    H = omac(1, header)
    C = xor(msg, ctr_stream(key, b"", int.from_bytes(N, "big"), len(msg)))
    return C, xor(xor(N, H), omac(2, C))[:tlen]


def ref_s2v(key, strings):
    D = cmac(key, bytes(16))
    for s in strings[:-1]:
        D = xor(dbl(D), cmac(key, s))
    last = strings[-1]
    if len(last) >= 16:
        T = last[:-16] + xor(last[-16:], D)
    else:
        T = xor(dbl(D), last + b"\x80" + bytes(15 - len(last)))
    return cmac(key, T)


def ref_siv(key, headers, nonce, msg):
    k1, k2 = key[:len(key) // 2], key[len(key) // 2:]
    strings = list(headers) + ([nonce] if nonce is not None else []) + [msg]
    V = ref_s2v(k1, strings)
    q = int.from_bytes(V, "big") & 0xFFFFFFFFFFFFFFFF7FFFFFFF7FFFFFFF
    return xor(msg, ctr_stream(k2, b"", q, len(msg))), V


def ref_ccm(key, nonce, header, msg, tlen):
    q = 15 - len(nonce)
    b0 = bytes([(64 if header else 0) | (((tlen - 2) // 2) << 3) | (q - 1)]) + nonce + len(msg).to_bytes(q, "big")
    blocks = b0
    if header:
        a = len(header)
        enc = a.to_bytes(2, "big") if a < 0xFF00 else (b"\xff\xfe" + a.to_bytes(4, "big") if a < (1 << 32) else b"\xff\xff" + a.to_bytes(8, "big"))
        h = enc + header
        blocks += h + bytes(-len(h) % 16)
    blocks += msg + bytes(-len(msg) % 16)
    _, T = cbc_enc(key, bytes(16), blocks)
    n0 = bytes([q - 1]) + nonce
    s0 = toy_E(key, n0 + bytes(q))
    C = xor(msg, ctr_stream(key, n0, 1, len(msg)))
    return C, xor(T, s0)[:tlen]


def gf_mult(x, y):
    z, v = 0, y
    for i in range(128):
        if (x >> (127 - i)) & 1:
            z ^= v
        v = (v >> 1) ^ (0xE1 << 120) if v & 1 else v >> 1
    return z


def ghash(H, data):
    y = 0
    for o in range(0, len(data), 16):
        y = gf_mult(y ^ int.from_bytes(data[o:o + 16], "big"), H)
    return y.to_bytes(16, "big")


def ref_gcm(key, nonce, header, msg, tlen):
    H = int.from_bytes(toy_E(key, bytes(16)), "big")
    if len(nonce) == 12:
        j0 = nonce + b"\x00\x00\x00\x01"
    else:
        j0 = ghash(H, nonce + bytes(-len(nonce) % 16) + bytes(8) + (8 * len(nonce)).to_bytes(8, "big"))
    ks = b""
    for i in range((len(msg) + 15) // 16):
        ks += toy_E(key, j0[:12] + ((int.from_bytes(j0[12:], "big") + 1 + i) % (1 << 32)).to_bytes(4, "big"))
    C = xor(msg, ks[:len(msg)])
    S = ghash(H, header + bytes(-len(header) % 16) + C + bytes(-len(C) % 16) + (8 * len(header)).to_bytes(8, "big") + (8 * len(C)).to_bytes(8, "big"))
    return C, xor(toy_E(key, j0), S)[:tlen]


def ref_openpgp(key, iv, msg):
    """RFC 4880 13.9 (OpenPGP CFB with the resynchronisation step)."""
    fre = toy_E(key, bytes(16))
    c1 = xor(iv, fre)
    fre = toy_E(key, c1)
    c2 = xor(iv[-2:], fre[:2])
    fr = (c1 + c2)[2:]
    out = b""
    for o in range(0, len(msg), 16):
        fre = toy_E(key, fr)
        blk = xor(msg[o:o + 16], fre[:len(msg[o:o + 16])])
        out += blk
        fr = blk
    return c1 + c2 + out


def run_openpgp(repo, cfg):
    key, iv, msg, how = cfg["key"], cfg["nonce"], cfg["msg"], cfg["how"]
    want = ref_openpgp(key, iv, msg)
    w = World(repo)
    o = w.create("Crypto.Cipher._mode_openpgp", "_create_openpgp_cipher", key=key, IV=iv)
    if not isinstance(o, AObj):
        return "constructor: %r" % (o,)
    got = b""
    for p in pieces(msg, how):
        r = w.call(o, "encrypt", p)
        if not isinstance(r, bytes):
            return "encrypt: %r" % (r,)
        got += r
    if got != want:
        k = [j for j in range(min(len(got), len(want))) if got[j] != want[j]]
        return "ciphertext differs from RFC 4880 13.9 (%s)" % ("byte %d" % k[0] if k else "length %d instead of %d" % (len(got), len(want)))
    w = World(repo)
    o = w.create("Crypto.Cipher._mode_openpgp", "_create_openpgp_cipher", key=key, IV=want[:18])
    if not isinstance(o, AObj):
        return "constructor (receiver): %r" % (o,)
    iv_seen = w.st.heap.get(o.ident, {}).get("iv")
    if iv_seen != iv:
        return "the receiver recovers the IV %r" % (iv_seen,)
    back = b""
    for p in pieces(want[18:], how):
        r = w.call(o, "decrypt", p)
        if not isinstance(r, bytes):
            return "decrypt: %r" % (r,)
        back += r
    if back != msg:
        return "decrypt does not invert encrypt"
    for bad in (15, 17, 19, 0):
        w = World(repo)
        r = w.create("Crypto.Cipher._mode_openpgp", "_create_openpgp_cipher", key=key, IV=pat(bad, 3))
        if r != ("raises", "ValueError"):
            return "an IV of %d bytes: %r" % (bad, "accepted" if isinstance(r, AObj) else r)
    return None


def toy_chacha_block(key, nonce, counter):
    """Stand-in for the ChaCha20 block function on the state layout: an 8-byte nonce has a 64-bit counter, a 12-byte
    nonce a 32-bit counter and its first four bytes sit where the high counter word is - as in the real cipher."""
    if len(nonce) == 12:
        hi = int.from_bytes(nonce[:4], "little")
        words = (counter & 0xFFFFFFFF, hi, nonce[4:])
    else:
        words = (counter & 0xFFFFFFFF, (counter >> 32) & 0xFFFFFFFF, nonce)
    return hashlib.sha512(b"chacha" + bytes(key) + words[0].to_bytes(4, "little") + words[1].to_bytes(4, "little") + bytes(words[2])).digest()


def toy_hchacha(key, nonce16):
    return hashlib.sha256(b"hchacha" + bytes(key) + bytes(nonce16)).digest()


def poly1305(r, s, msg):
    rr = int.from_bytes(r, "little") & 0x0ffffffc0ffffffc0ffffffc0fffffff
    acc = 0
    for o in range(0, len(msg), 16):
        blk = msg[o:o + 16]
        acc = (acc + int.from_bytes(blk + b"\x01", "little")) * rr % ((1 << 130) - 5)
    return ((acc + int.from_bytes(s, "little")) & ((1 << 128) - 1)).to_bytes(16, "little")


def ref_chacha_poly(key, nonce, header, msg):
    if len(nonce) == 24:
        key = toy_hchacha(key, nonce[:16])
        nonce = bytes(4) + nonce[16:]
    n12 = bytes(4) + nonce if len(nonce) == 8 else nonce
    otk = toy_chacha_block(key, n12, 0)[:32]
    ks = b"".join(toy_chacha_block(key, nonce, 1 + k) for k in range((len(msg) + 63) // 64))
    ct = xor(msg, ks[:len(msg)])
    mac_data = header + bytes(-len(header) % 16) + ct + bytes(-len(ct) % 16) + len(header).to_bytes(8, "little") + len(ct).to_bytes(8, "little")
    return ct, poly1305(otk[:16], otk[16:], mac_data)


def ntz(i):
    n = 0
    while not i & 1:
        i >>= 1
        n += 1
    return n


def ref_ocb(key, nonce, header, msg, tlen, decrypt=False):
    """RFC 7253 section 4, complete (nonce processing included), over toy_E."""
    E = lambda b: toy_E(key, b)
    D = lambda b: toy_E(key, b, inv=True)
    Lstar = E(bytes(16))
    Ldollar = dbl(Lstar)
    L = [dbl(Ldollar)]
    for _ in range(20):
        L.append(dbl(L[-1]))
    # HASH
    s, off = bytes(16), bytes(16)
    A = header
    i = 1
    while len(A) >= 16:
        off = xor(off, L[ntz(i)])
        s = xor(s, E(xor(A[:16], off)))
        A = A[16:]
        i += 1
    if A:
        off = xor(off, Lstar)
        s = xor(s, E(xor(A + b"\x80" + bytes(15 - len(A)), off)))
    # nonce
    n = bytes([((8 * tlen) % 128) << 1]) + bytes(14 - len(nonce)) + b"\x01" + nonce if len(nonce) < 15 else bytes([(((8 * tlen) % 128) << 1) | 1]) + nonce
    bottom = n[15] & 0x3F
    ktop = E(n[:15] + bytes([n[15] & 0xC0]))
    stretch = ktop + xor(ktop[:8], ktop[1:9])
    off = ((int.from_bytes(stretch, "big") << bottom) >> 64 & ((1 << 128) - 1)).to_bytes(16, "big")
    chk = bytes(16)
    out = b""
    data = msg
    i = 1
    while len(data) >= 16:
        off = xor(off, L[ntz(i)])
        blk = data[:16]
        o = xor(off, (D if decrypt else E)(xor(blk, off)))
        chk = xor(chk, o if decrypt else blk)
        out += o
        data = data[16:]
        i += 1
    if data:
        off = xor(off, Lstar)
        pad = E(off)
        o = xor(data, pad[:len(data)])
        pt = o if decrypt else data
        chk = xor(chk, pt + b"\x80" + bytes(15 - len(pt)))
        out += o
    tag = xor(E(xor(xor(chk, off), Ldollar)), s)[:tlen]
    return out, tag


class OcbNative(object):
    """What src/raw_ocb.c does behind OCB_start_operation / update / encrypt / decrypt / digest (decided separately by
    K-pw|c|ocb.crypt on the C evaluator), over the keyed stand-in cipher."""

    def __init__(self, key, offset0):
        self.key = key
        E = lambda b: toy_E(key, b)
        self.Lstar = E(bytes(16))
        self.Ldollar = dbl(self.Lstar)
        self.L = [dbl(self.Ldollar)]
        for _ in range(64):
            self.L.append(dbl(self.L[-1]))
        self.offP, self.chk = bytes(offset0), bytes(16)
        self.offA, self.sum = bytes(16), bytes(16)
        self.cA = self.cP = 1

    def update(self, data):
        E = lambda b: toy_E(self.key, b)
        while len(data) >= 16:
            self.offA = xor(self.offA, self.L[ntz(self.cA)])
            self.cA += 1
            self.sum = xor(self.sum, E(xor(data[:16], self.offA)))
            data = data[16:]
        if data:
            self.sum = xor(self.sum, E(xor(xor(data + b"\x80" + bytes(15 - len(data)), self.offA), self.Lstar)))

    def crypt(self, data, decrypt):
        out = b""
        while len(data) >= 16:
            self.offP = xor(self.offP, self.L[ntz(self.cP)])
            self.cP += 1
            o = xor(self.offP, toy_E(self.key, xor(data[:16], self.offP), inv=decrypt))
            self.chk = xor(self.chk, o if decrypt else data[:16])
            out += o
            data = data[16:]
        if data:
            self.offP = xor(self.offP, self.Lstar)
            pad = toy_E(self.key, self.offP)
            o = xor(data, pad[:len(data)])
            pt = o if decrypt else data
            self.chk = xor(self.chk, pt + b"\x80" + bytes(15 - len(pt)))
            out += o
        return out

    def digest(self):
        return xor(toy_E(self.key, xor(xor(self.chk, self.offP), self.Ldollar)), self.sum)


# ------------------------------------------------------------------------------------------------ the harness
class World(object):
    """One interpreter with the stand-in factory installed."""

    def __init__(self, repo):
        self.repo = repo
        self.it = Interp(repo, max_depth=14, budget=8000000,
                         method_models={"new": self.m_new, "encrypt": self.m_encrypt, "decrypt": self.m_decrypt,
                                        "update": self.m_update, "digest": self.m_digest, "copy": self.m_copy},
                         extra_models={"Crypto.Cipher._mode_gcm._GHASH": self.m_ghash_new,
                                       "Crypto.Cipher._mode_gcm._get_ghash_clmul": lambda i, a, kw, st, node: None,
                                       "Crypto.Random.get_random_bytes": lambda i, a, kw, st, node: bytes(a[0]) if a and isinstance(a[0], int) else ABytes(None),
                                       "Crypto.Hash.BLAKE2s.new": self.m_blake,
                                       "Crypto.Util._raw_api.VoidPointer": self.m_voidptr, "Crypto.Util._raw_api.SmartPointer": self.m_smartptr,
                                       "Crypto.Util._raw_api.create_string_buffer": lambda i, a, kw, st, node: bytearray(a[0]) if a and isinstance(a[0], int) and 0 <= a[0] < 100000 else ABytes(None),
                                       "Crypto.Util._raw_api.get_raw_buffer": lambda i, a, kw, st, node: bytes(a[0]) if a and isinstance(a[0], (bytes, bytearray)) else ABytes(None),
                                       "Crypto.Util._raw_api.c_uint8_ptr": lambda i, a, kw, st, node: a[0] if a else UNK,
                                       "Crypto.Util._raw_api.c_size_t": lambda i, a, kw, st, node: a[0] if a else UNK})
        self.it.extra_models.update({"Crypto.Cipher.ChaCha20.new": self.m_chacha_new, "Crypto.Cipher.ChaCha20._HChaCha20": lambda i, a, kw, st, node: toy_hchacha(a[0], a[1]) if len(a) == 2 and all(isinstance(x, (bytes, bytearray)) for x in a) else ABytes(32)})
        self.it.method_models["seek"] = self.m_seek
        self.poly = {}
        self.it.method_models.update({"_create_base_cipher": self.m_base, "get": self.m_get, "address_of": self.m_addr, "release": lambda i, base, a, kw, st, node: None})
        self.it.ffi_models = {"OCB_start_operation": self.f_start, "OCB_update": self.f_update, "OCB_encrypt": self.f_enc, "OCB_decrypt": self.f_dec,
                              "OCB_digest": self.f_digest, "OCB_stop_operation": lambda i, a, kw, st, node: 0,
                              "poly1305_init": self.f_poly_init, "poly1305_update": self.f_poly_update, "poly1305_digest": self.f_poly_digest,
                              "poly1305_destroy": lambda i, a, kw, st, node: 0}
        self.ocb = {}
        self.it.unroll_limit = 4000
        self.it.for_limit = 400
        self.st = State()
        self.factory = self.it.new_obj(self.st, label="factory")
        attrs = {"kind": "factory", "block_size": 16, "key_size": (16, 24, 32)}
        attrs.update(("MODE_" + k, v) for k, v in MODE.items())
        self.st.heap[self.factory.ident].update(attrs)

    # -- models
    def kind(self, st, o):
        return st.heap.get(o.ident, {}).get("kind") if isinstance(o, AObj) else None

    def m_new(self, i, base, a, kw, st, node):
        if self.kind(st, base) != "factory":
            return UNK
        key, mode = (list(a) + [None, None])[:2]
        if not isinstance(key, (bytes, bytearray)) or not isinstance(mode, int):
            return UNK
        o = i.new_obj(st, label="cipher")
        h = st.heap[o.ident]
        # `vparam` stands for a cipher-specific parameter (ARC2's effective_keylen, ...): it changes the permutation
        vp = kw.get("vparam")
        h.update({"kind": "cipher", "mode": mode, "key": bytes(key) + (b"|vp%d" % vp if isinstance(vp, int) else b""), "block_size": 16})
        if mode == MODE["CBC"]:
            iv = a[2] if len(a) > 2 else kw.get("iv", kw.get("IV"))
            if not isinstance(iv, (bytes, bytearray)) or len(iv) != 16:
                i._diverged = i.do_raise("ValueError", st, node)
                return UNK
            h["reg"] = bytes(iv)
        elif mode == MODE["CTR"]:
            nonce = kw.get("nonce")
            iv = kw.get("initial_value", 0)
            if nonce is None or not isinstance(nonce, (bytes, bytearray)):
                return UNK
            w = 16 - len(nonce)
            if isinstance(iv, (bytes, bytearray)):
                if len(iv) != w:
                    i._diverged = i.do_raise("ValueError", st, node)
                    return UNK
                iv = int.from_bytes(iv, "big")
            if not isinstance(iv, int) or w <= 0 or iv < 0 or iv >= (1 << (8 * w)):
                i._diverged = i.do_raise("ValueError", st, node)
                return UNK
            h.update({"nonce": bytes(nonce), "ctr": iv, "pos": 0})
        elif mode == MODE["CFB"]:
            iv = a[2] if len(a) > 2 else kw.get("iv", kw.get("IV"))
            seg = kw.get("segment_size", 8)
            if not isinstance(iv, (bytes, bytearray)) or len(iv) != 16 or seg != 128:
                return UNK                  # only the full-block segment size that the OpenPGP mode asks for
            h.update({"reg": bytes(iv), "ks": b"", "fb": b""})
        elif mode != MODE["ECB"]:
            return UNK
        return o

    def _crypt(self, i, base, a, kw, st, node, dec):
        h = st.heap.get(getattr(base, "ident", -1), {})
        if h.get("kind") != "cipher":
            return UNK
        data = a[0] if a else None
        out = kw.get("output")
        if isinstance(data, memoryview):
            data = bytes(data)
        if not isinstance(data, (bytes, bytearray)):
            return ABytes(None)
        data = bytes(data)
        key, mode = h["key"], h["mode"]
        if mode == MODE["ECB"]:
            if len(data) % 16:
                i._diverged = i.do_raise("ValueError", st, node)
                return UNK
            r = b"".join(toy_E(key, data[o:o + 16], inv=dec) for o in range(0, len(data), 16))
        elif mode == MODE["CBC"]:
            if len(data) % 16 or dec:
                i._diverged = i.do_raise("ValueError", st, node)
                return UNK
            r, h["reg"] = cbc_enc(key, h["reg"], data)
            if not data:
                r = b""
        elif mode == "stream":
            pos = h["pos"]
            first = pos // 64
            ks = b"".join(toy_chacha_block(key, h["nonce"], first + k) for k in range((pos + len(data) + 63) // 64 - first))
            r = xor(data, ks[pos % 64: pos % 64 + len(data)])
            h["pos"] = pos + len(data)
        elif mode == MODE["CFB"]:
            r = bytearray()
            for b in data:
                if not h["ks"]:
                    h["ks"] = toy_E(key, h["reg"])
                    h["fb"] = b""
                o = b ^ h["ks"][0]
                h["ks"] = h["ks"][1:]
                r.append(o)
                h["fb"] += bytes([b if dec else o])
                if len(h["fb"]) == 16:
                    h["reg"] = h["fb"]
            r = bytes(r)
        else:
            pos = h["pos"]
            w = 16 - len(h["nonce"])
            first = pos // 16
            nblk = (pos + len(data) + 15) // 16 - first
            ks = b"".join(toy_E(key, h["nonce"] + ((h["ctr"] + first + k) % (1 << (8 * w))).to_bytes(w, "big")) for k in range(nblk))
            r = xor(data, ks[pos % 16: pos % 16 + len(data)])
            h["pos"] = pos + len(data)
        if out is not None:
            if isinstance(out, bytearray) and len(out) == len(r):
                out[:] = r
                return None
            i._diverged = i.do_raise("ValueError", st, node)
            return UNK
        return r

    def m_encrypt(self, i, base, a, kw, st, node):
        return self._crypt(i, base, a, kw, st, node, False)

    def m_decrypt(self, i, base, a, kw, st, node):
        return self._crypt(i, base, a, kw, st, node, True)

    # GHASH stand-in (class _GHASH(subkey, ghash_c))
    def m_ghash_new(self, i, a, kw, st, node):
        o = i.new_obj(st, label="ghash")
        sk = a[0] if a else None
        st.heap[o.ident].update({"kind": "ghash", "H": int.from_bytes(sk, "big") if isinstance(sk, (bytes, bytearray)) and len(sk) == 16 else None, "y": 0})
        return o

    def m_update(self, i, base, a, kw, st, node):
        h = st.heap.get(getattr(base, "ident", -1), {})
        if h.get("kind") == "ghash":
            d = a[0] if a else None
            if isinstance(d, memoryview):
                d = bytes(d)
            if h["H"] is None or not isinstance(d, (bytes, bytearray)) or len(d) % 16 or h.get("y") is None:
                h["y"] = None
                return base
            for o in range(0, len(d), 16):
                h["y"] = gf_mult(h["y"] ^ int.from_bytes(bytes(d[o:o + 16]), "big"), h["H"])
            return base
        if h.get("kind") == "mac":
            h["data"] = None
            return base
        return UNK

    def m_digest(self, i, base, a, kw, st, node):
        h = st.heap.get(getattr(base, "ident", -1), {})
        if h.get("kind") == "ghash":
            return h["y"].to_bytes(16, "big") if h.get("y") is not None else ABytes(16)
        if h.get("kind") == "mac":
            d = h.get("data")
            return hashlib.sha256(b"blake" + bytes(d)).digest()[:20] if isinstance(d, (bytes, bytearray)) else ABytes(20)
        return UNK

    def m_copy(self, i, base, a, kw, st, node):
        h = st.heap.get(getattr(base, "ident", -1), {})
        if h.get("kind") in ("ghash", "cipher"):
            o = i.new_obj(st, label=h["kind"])
            st.heap[o.ident].update(dict(h))
            return o
        return UNK

    def m_blake(self, i, a, kw, st, node):
        # the constant-time tag comparison of verify(): MAC of (secret, tag) - injective in the tag
        o = i.new_obj(st, label="mac")
        d = kw.get("data")
        st.heap[o.ident].update({"kind": "mac", "data": bytes(d) if isinstance(d, (bytes, bytearray)) else None})
        return o

    # ChaCha20 stand-in and the native Poly1305 behind the FFI (exact arithmetic; the C code is decided by K-pw|c|poly1305)
    def m_chacha_new(self, i, a, kw, st, node):
        key, nonce = kw.get("key"), kw.get("nonce")
        if not isinstance(key, (bytes, bytearray)) or not isinstance(nonce, (bytes, bytearray)) or len(key) != 32 or len(nonce) not in (8, 12):
            return UNK
        o = i.new_obj(st, label="chacha")
        st.heap[o.ident].update({"kind": "cipher", "mode": "stream", "key": bytes(key), "nonce": bytes(nonce), "pos": 0, "block_size": 1})
        return o

    def m_seek(self, i, base, a, kw, st, node):
        h = st.heap.get(getattr(base, "ident", -1), {})
        if h.get("mode") != "stream" or not a or not isinstance(a[0], int) or a[0] < 0:
            return UNK
        h["pos"] = a[0]
        return None

    def f_poly_init(self, i, a, kw, st, node):
        addr, r, rl, s_, sl = (list(a) + [None] * 5)[:5]
        if not (isinstance(addr, tuple) and isinstance(r, (bytes, bytearray)) and isinstance(s_, (bytes, bytearray))):
            return Unknown("int")
        if rl != 16 or sl != 16:
            return 3
        hid = len(self.poly) + 1
        self.poly[hid] = [bytes(r), bytes(s_), b""]
        st.heap[addr[1]]["val"] = ("poly", hid)
        return 0

    def f_poly_update(self, i, a, kw, st, node):
        h = a[0]
        if not (isinstance(h, tuple) and h[0] == "poly") or not isinstance(a[1], (bytes, bytearray, memoryview)) or not isinstance(a[2], int):
            return Unknown("int")
        self.poly[h[1]][2] += bytes(a[1])[:a[2]]
        return 0

    def f_poly_digest(self, i, a, kw, st, node):
        h = a[0]
        if not (isinstance(h, tuple) and h[0] == "poly") or not isinstance(a[1], bytearray) or a[2] != 16:
            return Unknown("int")
        r, s_, data = self.poly[h[1]]
        a[1][:16] = poly1305(r, s_, data)
        return 0

    # OCB: the native layer behind the FFI
    def m_voidptr(self, i, a, kw, st, node):
        o = i.new_obj(st, label="voidptr")
        st.heap[o.ident].update({"kind": "ptr", "val": None})
        return o

    def m_smartptr(self, i, a, kw, st, node):
        o = i.new_obj(st, label="smartptr")
        st.heap[o.ident].update({"kind": "ptr", "val": a[0] if a else None})
        return o

    def m_base(self, i, base, a, kw, st, node):
        if self.kind(st, base) != "factory" or not a or not isinstance(a[0], dict):
            return UNK
        key = a[0].pop("key", None)
        o = i.new_obj(st, label="rawcipher")
        st.heap[o.ident].update({"kind": "ptr", "val": ("raw", bytes(key) if isinstance(key, (bytes, bytearray)) else None)})
        return o

    def m_get(self, i, base, a, kw, st, node):
        h = st.heap.get(getattr(base, "ident", -1), {})
        return h.get("val") if h.get("kind") == "ptr" else UNK

    def m_addr(self, i, base, a, kw, st, node):
        return ("addr", base.ident) if self.kind(st, base) == "ptr" else UNK

    def f_start(self, i, a, kw, st, node):
        raw, off0, n, addr = (list(a) + [None] * 4)[:4]
        if not (isinstance(raw, tuple) and raw[0] == "raw" and raw[1] is not None and isinstance(off0, (bytes, bytearray)) and isinstance(addr, tuple)):
            return Unknown("int")
        if n != 16 or len(off0) != 16:
            return 3
        hid = len(self.ocb) + 1
        self.ocb[hid] = OcbNative(raw[1], bytes(off0))
        st.heap[addr[1]]["val"] = ("ocb", hid)
        return 0

    def _ocb(self, h):
        return self.ocb.get(h[1]) if isinstance(h, tuple) and h[0] == "ocb" else None

    def f_update(self, i, a, kw, st, node):
        o = self._ocb(a[0])
        if o is None or not isinstance(a[1], (bytes, bytearray, memoryview)) or not isinstance(a[2], int):
            return Unknown("int")
        o.update(bytes(a[1])[:a[2]])
        return 0

    def _f_crypt(self, a, dec):
        o = self._ocb(a[0])
        if o is None or not isinstance(a[1], (bytes, bytearray, memoryview)) or not isinstance(a[2], bytearray) or not isinstance(a[3], int) or len(a[2]) < a[3]:
            return Unknown("int")
        a[2][:a[3]] = o.crypt(bytes(a[1])[:a[3]], dec)
        return 0

    def f_enc(self, i, a, kw, st, node):
        return self._f_crypt(a, False)

    def f_dec(self, i, a, kw, st, node):
        return self._f_crypt(a, True)

    def f_digest(self, i, a, kw, st, node):
        o = self._ocb(a[0])
        if o is None or not isinstance(a[1], bytearray) or a[2] != 16:
            return Unknown("int") if o is None else 7
        a[1][:16] = o.digest()
        return 0

    # -- driving
    def create(self, modname, fname, **kwargs):
        mod = self.repo.module(modname)
        fn = self.repo.func(mod, fname)
        seeds = {"kwargs": kwargs}
        if any(x.arg == "factory" for x in fn.args.args):
            seeds["factory"] = self.factory
        res = self.it.run(mod, fn, seeds, state=self.st)
        rets = res.returns()
        if res.rejected():
            return ("raises",) + tuple(sorted(set(res.raise_classes())))
        if len(rets) != 1 or res.raises() or not isinstance(rets[0].value, AObj):
            return ("undecided", len(rets), tuple(res.raise_classes()))
        self.st = rets[0].state
        self.st.frames = [{}]
        return rets[0].value

    def call_inplace(self, obj, meth, data, *more):
        """obj.meth(buf, *more, output=buf) with buf a bytearray holding `data`: (result, final content of buf)."""
        buf = bytearray(data)
        holder = self.it.new_obj(self.st, label="holder", attrs={"buf": buf})
        r = self.call(obj, meth, buf, *more, output=buf)
        final = self.st.heap.get(holder.ident, {}).get("buf")
        return r, (bytes(final) if isinstance(final, (bytes, bytearray)) else None)

    def call(self, obj, meth, *args, **kw):
        r = self.repo.find_method(obj.mod, obj.cnode, meth)
        if r is None:
            raise AnalysisError("anchor vanished: %s.%s" % (obj.cnode.name, meth))
        from ..pydb import params_of
        ps = params_of(r[1])[1:]
        seeds = dict(zip(ps, args))
        seeds.update(kw)
        res = self.it.run(r[0], r[1], seeds, self_obj=obj, state=self.st, bind_defaults=True)
        if res.rejected():
            return ("raises",) + tuple(sorted(set(res.raise_classes())))
        rets = res.returns()
        if len(rets) != 1 or res.raises():
            return ("undecided", len(rets), tuple(res.raise_classes()))
        self.st = rets[0].state
        self.st.frames = [{}]
        v = rets[0].value
        if isinstance(v, bytearray):
            v = bytes(v)
        if isinstance(v, tuple):
            v = tuple(bytes(x) if isinstance(x, bytearray) else x for x in v)
        return v


def pat(n, s):
    return bytes((s + 11 * i + (i >> 4)) & 0xFF for i in range(n))


def pieces(data, how):
    if how == "one" or not data:
        return [data]
    if how == "bytes3":
        cuts = [0, 1, 4, 4, 21, len(data)]
    else:
        cuts = [0, 16, 17, 33, len(data)]
    out = []
    for a, b in zip(cuts, cuts[1:]):
        a, b = min(a, len(data)), min(b, len(data))
        out.append(data[a:b])
    return out


def run_mode(repo, name, cfg):
    """cfg: dict(key, nonce, header, msg, tlen, how) -> error string or None."""
    key, nonce, header, msg, tlen, how = cfg["key"], cfg["nonce"], cfg["header"], cfg["msg"], cfg["tlen"], cfg["how"]
    hp = how if how in ("one", "bytes3", "blocks") else "one"          # how the header is fed: one update() unless the row is about pieces
    modname, fname, ref = {"eax": ("Crypto.Cipher._mode_eax", "_create_eax_cipher", lambda: ref_eax(key, nonce, header, msg, tlen)),
                           "siv": ("Crypto.Cipher._mode_siv", "_create_siv_cipher", lambda: ref_siv(key, [x for x in pieces(header, hp) if x] if header else [], nonce, msg)),
                           "ccm": ("Crypto.Cipher._mode_ccm", "_create_ccm_cipher", lambda: ref_ccm(key, nonce, header, msg, tlen)),
                           "gcm": ("Crypto.Cipher._mode_gcm", "_create_gcm_cipher", lambda: ref_gcm(key, nonce, header, msg, tlen)),
                           "ocb": ("Crypto.Cipher._mode_ocb", "_create_ocb_cipher", lambda: ref_ocb(key, nonce, header, msg, tlen)),
                           "chachapoly": ("Crypto.Cipher.ChaCha20_Poly1305", "new", lambda: ref_chacha_poly(key, nonce, header, msg))}[name]
    if cfg.get("vparam") is not None:
        # every underlying cipher instance (MAC, CTR, subkey derivation) must receive the extra cipher parameter
        real_key, key = key, key + b"|vp%d" % cfg["vparam"]
        want_c, want_t = ref()
        key = real_key
    else:
        want_c, want_t = ref()
    conv = {"bytearray": bytearray, "memoryview": lambda b: memoryview(bytearray(b))}.get(how)
    if conv:
        # the caller's buffers are bytearrays / memoryviews: same bytes out, and the buffers are not written to
        how = "one"
        held = []

        def give(w, b):
            v = conv(b)
            held.append((w, w.it.new_obj(w.st, label="holder", attrs={"buf": v}), bytes(b)))
            return v

        def untouched():
            for w, hd, before in held:
                cur = w.st.heap.get(hd.ident, {}).get("buf")
                if cur is None or bytes(cur) != before:
                    return "a caller's %s argument was modified (%s -> %s)" % (cfg["how"], before.hex()[:16], bytes(cur).hex()[:16] if cur is not None else None)
            return None
    else:
        give = lambda w, b: b
        untouched = lambda: None

    def make():
        w = World(repo)
        kw = {"key": give(w, key) if conv is bytearray else key}
        if nonce is not None:
            kw["nonce"] = give(w, nonce) if conv is bytearray else nonce
        if name not in ("siv", "chachapoly"):
            kw["mac_len"] = tlen
        if name == "ccm" and how != "one":
            kw["msg_len"] = len(msg)
            kw["assoc_len"] = len(header)
        if cfg["how"] == "declared0":
            kw["msg_len"] = 0
        if cfg.get("vparam") is not None:
            kw["vparam"] = cfg["vparam"]
        o = w.create(modname, fname, **kw)
        return w, o
    # ---- sender
    w, o = make()
    if not isinstance(o, AObj):
        return "constructor: %r" % (o,)
    if header:
        for p in pieces(header, hp):
            if name == "siv" and not p:
                continue            # every update() of SIV is one component of the S2V vector
            r = w.call(o, "update", give(w, p))
            if isinstance(r, tuple):
                return "update: %r" % (r,)
    if how == "nodata":
        # associated data only: update(); digest() with no encrypt() call at all
        got_c = b""
        got_t = w.call(o, "digest")
        if not isinstance(got_t, bytes):
            return "update(); digest() without any encrypt(): %r" % (got_t,)
    elif how == "declared0":
        r = w.call(o, "encrypt", b"")
        if r != b"":
            return "encrypt(b'') with msg_len=0 declared: %r" % (r,)
        got_c = b""
        got_t = w.call(o, "digest")
        if not isinstance(got_t, bytes):
            return "digest after encrypt(b'') with msg_len=0 declared: %r" % (got_t,)
    elif how == "inplace" and name == "siv":
        r, got_c = w.call_inplace(o, "encrypt_and_digest", msg)
        if not (isinstance(r, tuple) and len(r) == 2 and r[0] is None and isinstance(r[1], bytes)) or got_c is None:
            return "encrypt_and_digest(output=input): %r" % (r,)
        got_t = r[1]
    elif how == "inplace":
        r, got_c = w.call_inplace(o, "encrypt", msg)
        if r is not None or got_c is None:
            return "encrypt(output=input) returns %r" % (r,)
        got_t = w.call(o, "digest")
        if not isinstance(got_t, bytes):
            return "digest: %r" % (got_t,)
    elif name == "siv" or how == "one":
        r = w.call(o, "encrypt_and_digest", give(w, msg))
        if not (isinstance(r, tuple) and len(r) == 2 and all(isinstance(x, bytes) for x in r)):
            return "encrypt_and_digest: %r" % (r,)
        got_c, got_t = r
        bad = untouched()
        if bad:
            return bad
    else:
        got_c = b""
        for p in pieces(msg, how) + ([None] if name == "ocb" else []):
            r = w.call(o, "encrypt", p) if p is not None else w.call(o, "encrypt")
            if not isinstance(r, bytes):
                return "encrypt: %r" % (r,)
            got_c += r
        got_t = w.call(o, "digest")
        if not isinstance(got_t, bytes):
            return "digest: %r" % (got_t,)
    if got_c != want_c:
        k = [j for j in range(min(len(got_c), len(want_c))) if got_c[j] != want_c[j]]
        return "ciphertext differs from the specification (%s)" % ("byte %d" % k[0] if k else "length %d instead of %d" % (len(got_c), len(want_c)))
    if got_t != want_t:
        return "tag %s differs from the specification's %s" % (got_t.hex(), want_t.hex())
    # ---- receiver: genuine, then one bit changed in ciphertext / tag / header
    for what, c2, t2, h2, ok in (("genuine", want_c, want_t, header, True),
                                 ("ciphertext bit", (bytes([want_c[0] ^ 1]) + want_c[1:]) if want_c else None, want_t, header, False),
                                 ("last ciphertext bit", (want_c[:-1] + bytes([want_c[-1] ^ 0x80])) if len(want_c) > 16 else None, want_t, header, False),
                                 ("tag bit", want_c, want_t[:-1] + bytes([want_t[-1] ^ 1]), header, False),
                                 ("header bit", want_c, want_t, (bytes([header[0] ^ 2]) + header[1:]) if header else None, False)):
        if c2 is None or h2 is None:
            continue
        w, o = make()
        if not isinstance(o, AObj):
            return "constructor (receiver): %r" % (o,)
        if h2:
            for p in pieces(h2, hp):
                if name == "siv" and not p:
                    continue
                w.call(o, "update", give(w, p))
        if how == "nodata":
            v = w.call(o, "verify", t2)
            r = b"" if v is None else v
        elif how == "declared0":
            r = w.call(o, "decrypt", b"")
            if r == b"":
                v = w.call(o, "verify", t2)
                r = b"" if v is None else v
        elif how == "inplace" and name == "siv":
            r, buf = w.call_inplace(o, "decrypt_and_verify", c2, t2)
            if r is None:
                r = buf
        elif how == "inplace":
            r, buf = w.call_inplace(o, "decrypt", c2)
            if r is None:
                v = w.call(o, "verify", t2)
                r = buf if v is None else v
        elif name == "siv" or how == "one":
            r = w.call(o, "decrypt_and_verify", give(w, c2), give(w, t2))
            bad = untouched()
            if bad:
                return bad
        else:
            r = b""
            for p in pieces(c2, how) + ([None] if name == "ocb" else []):
                x = w.call(o, "decrypt", p) if p is not None else w.call(o, "decrypt")
                if not isinstance(x, bytes):
                    r = x
                    break
                r += x
            if isinstance(r, bytes):
                v = w.call(o, "verify", t2)
                if v is not None:
                    r = v
        if ok:
            if r != msg:
                return "receiver, genuine message: %r" % (r if not isinstance(r, bytes) else "wrong plaintext",)
        elif r != ("raises", "ValueError"):
            return "receiver with one %s changed: %s" % (what, "accepted" if isinstance(r, bytes) else r)
    return None


def configs(name, thorough=False):
    out = []
    lens = (0, 1, 15, 16, 17, 32, 47) if not thorough else (0, 1, 2, 15, 16, 17, 31, 32, 33, 47, 48, 64, 65)
    hlens = (0, 1, 16, 21) if not thorough else (0, 1, 15, 16, 17, 32, 40)
    for ml in lens:
        for hl in hlens:
            for how in ("one", "bytes3", "blocks"):
                if how != "one" and ml < 20 and hl < 20:
                    continue
                if name == "siv" and how != "one" and False:
                    continue
                key = pat(32 if name == "siv" else 16, 0x60 + ml)
                if name == "eax":
                    variants = [(pat(16, 1), 16), (pat(1, 7), 4), (pat(29, 3), 9)]
                elif name == "siv":
                    variants = [(pat(16, 1), 16), (None, 16), (pat(5, 9), 16)]
                elif name == "ccm":
                    variants = [(pat(11, 1), 16), (pat(7, 2), 4), (pat(13, 3), 10)]
                elif name == "ocb":
                    variants = [(pat(15, 1), 16), (pat(12, 2), 8), (pat(1, 3), 12), (bytes(11) + b"\x3f", 16)]
                elif name == "chachapoly":
                    key = pat(32, 0x60 + ml)
                    variants = [(pat(12, 1), 16), (pat(8, 2), 16), (pat(24, 3), 16)]
                else:
                    variants = [(pat(12, 1), 16), (pat(1, 2), 4), (pat(16, 3), 13), (pat(33, 4), 16)]
                if not thorough:
                    variants = [variants[(ml + hl) % len(variants)]] + ([variants[0]] if (ml, hl) in ((17, 21), (0, 0)) else [])
                for nonce, tlen in variants:
                    out.append(dict(key=key, nonce=nonce, header=pat(hl, 0x30), msg=pat(ml, 0x90), tlen=tlen, how=how))
    if name in ("eax", "gcm", "ccm"):
        nonce, tlen = {"eax": (pat(16, 1), 16), "ccm": (pat(11, 1), 16)}.get(name, (pat(12, 1), 16))
        for ml, hl in ((20, 7), (0, 16)):
            out.append(dict(key=pat(16, 0x39), nonce=nonce, header=pat(hl, 0x30), msg=pat(ml, 0x90), tlen=tlen, how="one", vparam=5))
    # associated data only, never a call of encrypt() / decrypt(): the tag of the empty message
    # (SIV is left out: digest() without encrypt() authenticates the vector without the empty plaintext component, which
    #  is not the tag of the empty message - observed, see DESIGN I.5)
    for hl in (5, 16, 33) if name != "siv" else ():
        key = pat(32 if name in ("siv", "chachapoly") else 16, 0x48 + hl)
        nonce, tlen = {"eax": (pat(16, 1), 16), "siv": (pat(16, 1), 16), "ccm": (pat(11, 1), 16), "chachapoly": (pat(12, 1), 16), "ocb": (pat(15, 1), 16)}.get(name, (pat(12, 1), 16))
        out.append(dict(key=key, nonce=nonce, header=pat(hl, 0x30), msg=b"", tlen=tlen, how="nodata"))
    if name != "ocb":
        # output= aliasing the input (a bytearray encrypted / decrypted in place): same bytes, same verdicts
        for ml, hl in ((1, 0), (16, 5), (33, 16), (47, 21)) if not thorough else ((1, 0), (15, 1), (16, 5), (17, 16), (33, 16), (47, 21), (64, 40)):
            key = pat(32 if name in ("siv", "chachapoly") else 16, 0x70 + ml)
            nonce, tlen = {"eax": (pat(16, 1), 16), "siv": (pat(16, 1), 16), "ccm": (pat(11, 1), 16), "chachapoly": (pat(12, 1), 16)}.get(name, (pat(12, 1), 16))
            out.append(dict(key=key, nonce=nonce, header=pat(hl, 0x30), msg=pat(ml, 0x90), tlen=tlen, how="inplace"))
    # (memoryview arguments are not modelled by A-PY beyond their length: not decided)
    for ml, hl, how in ((17, 5, "bytearray"), (33, 16, "bytearray")) + (((0, 21, "bytearray"), (48, 0, "bytearray")) if thorough else ()):
        key = pat(32 if name in ("siv", "chachapoly") else 16, 0x50 + ml)
        nonce, tlen = {"eax": (pat(16, 1), 16), "siv": (pat(16, 1), 16), "ccm": (pat(11, 1), 16), "chachapoly": (pat(12, 1), 16), "ocb": (pat(15, 1), 16)}.get(name, (pat(12, 1), 16))
        out.append(dict(key=key, nonce=nonce, header=pat(hl, 0x30), msg=pat(ml, 0x90), tlen=tlen, how=how))
    if name == "ccm":
        # declared lengths of zero are declarations (not "undeclared"): empty message in an explicit encrypt() call
        for hl in (0, 5):
            out.append(dict(key=pat(16, 0x44), nonce=pat(11, 1), header=pat(hl, 0x30), msg=b"", tlen=16, how="declared0"))
        # SP 800-38C A.2.2: the length of the associated data is encoded on 2 bytes below 2^16 - 2^8, on 0xFFFE + 4 bytes from there
        for hl in (65279, 65280, 65535, 65536) if thorough else (65279, 65280, 65536):
            out.append(dict(key=pat(16, 0x41), nonce=pat(12, 5), header=pat(hl, 0x30), msg=pat(5, 0x90), tlen=8, how="one"))
    return out


def compose_tables(check, ctx, modes=("eax", "siv", "ccm", "gcm", "ocb", "chachapoly"), rule="K-pw"):
    from ..par import pmap
    repo = ctx.repo
    th = ctx.tier == "thorough"
    CITE = {"eax": "EAX (Bellare, Rogaway, Wagner): N' = OMAC^0(N), H' = OMAC^1(H), C = CTR_N'(M), T = N' xor H' xor OMAC^2(C), first tau bytes",
            "siv": "RFC 5297: V = S2V(K1, AD.., [N], P), C = CTR(K2, V and not the two bits 31/63, P), output (C, V)",
            "ccm": "SP 800-38C: B0 / associated-data header / CBC-MAC, S0 = E(Ctr0), C = P xor S1.., T = MSB_tlen(T xor S0)",
            "gcm": "SP 800-38D: J0 from the IV, C = GCTR(inc32(J0), P), T = MSB_t(E(J0) xor GHASH_H(A || 0* || C || 0* || len(A) || len(C)))",
            "ocb": "RFC 7253: nonce = taglen || 0* || 1 || N, Offset_0 from Ktop / Stretch / bottom, whole blocks and the final partial block handed to the native layer, tag = MSB_taglen"}
    CITE["chachapoly"] = "RFC 8439 2.8 (and XChaCha20: subkey by HChaCha20 of the first 16 nonce bytes): one-time key = first 32 bytes of block 0, encryption from block 1, tag = Poly1305(AAD || pad16 || C || pad16 || len(AAD) || len(C))"
    SRC = {"chachapoly": "Crypto.Cipher.ChaCha20_Poly1305", "eax": "Crypto.Cipher._mode_eax", "siv": "Crypto.Cipher._mode_siv", "ccm": "Crypto.Cipher._mode_ccm", "gcm": "Crypto.Cipher._mode_gcm", "ocb": "Crypto.Cipher._mode_ocb"}
    total = 0
    for name in modes:
        if name == "openpgp":
            continue
        cfgs = configs(name, th)
        errs = pmap(lambda c, name=name: run_mode(repo, name, c), cfgs)
        wrong = []
        und = 0
        for c, e in zip(cfgs, errs):
            if e:
                if "undecided" in e:
                    und += 1
                wrong.append("%d-byte message, %d-byte header, nonce %s, tag %d, %s: %s" % (
                    len(c["msg"]), len(c["header"]), "none" if c["nonce"] is None else "%d bytes" % len(c["nonce"]), c["tlen"], c["how"], e))
        if und and und == len(wrong):
            raise AnalysisError("the %s composition could not be interpreted: %s" % (name.upper(), wrong[0]))
        total += len(cfgs)
        mod = repo.module(SRC[name])
        check.ob(rule, "%s|aead.%s" % (rule, name), not wrong, mod.path, 0,
                 extracted=("%d of %d configurations differ: " % (len(wrong), len(cfgs)) + "; ".join(wrong[:3])) if wrong else
                 "%d configurations (message / header length classes, nonce and tag lengths, one piece and awkward pieces): ciphertext and tag byte for byte; the receiver returns the plaintext and refuses a changed ciphertext, tag or header bit" % len(cfgs),
                 expected=CITE[name])
    if "openpgp" in modes:
        cfgs = [dict(key=pat(16, 0x44 + ml), nonce=pat(16, 0x71 + ml), msg=pat(ml, 0x15), how=how)
                for ml in (0, 1, 15, 16, 17, 33, 48, 50) for how in ("one", "bytes3", "blocks") if how == "one" or ml > 20]
        errs = pmap(lambda c: run_openpgp(repo, c), cfgs)
        wrong = ["%d-byte message, %s: %s" % (len(c["msg"]), c["how"], e) for c, e in zip(cfgs, errs) if e]
        mod = repo.module("Crypto.Cipher._mode_openpgp")
        check.ob(rule, "%s|openpgp.cfb" % rule, not wrong, mod.path, 0,
                 extracted=("%d of %d rows differ: " % (len(wrong), len(cfgs)) + "; ".join(wrong[:3])) if wrong else "%d rows: encrypted IV || repeated bytes || resynchronised CFB, byte for byte; the receiver recovers the IV and the message; IVs of other lengths refused" % len(cfgs),
                 expected="RFC 4880 13.9: OpenPGP CFB with the 2-byte IV check and resynchronisation")
        total += len(cfgs)
    check.count("aead_compose_rows", total)
    return total
