"""The Python point classes over a complete toy native library (C06, C19, C08).

EccPoint touches the curve only through `self._curve.rawlib.<op>(handle, ..)`.  Here the native library is replaced
by the checker's own implementation of a real (tiny) short-Weierstrass curve y^2 = x^3 - 3x + b over F_p with prime
order: a native point is a heap cell holding an affine pair (or None for the neutral element); new_point validates,
clone allocates a new cell, double/add/scalar/neg mutate the cell of their first argument, get_xy writes the caller's
buffers, cmp compares.  The real EccPoint code (constructor, set, copy, operators, observers) is interpreted on
*sequences* of operations written as small driver functions, and every value observed along the sequence is compared
with the same sequence over the textbook group law.  What this decides, and the value tables of the native code do
not: that the Python object always shows the current native value (no stale derived state), that in-place operators
change exactly their left operand, that value operators, copy() and set() give independent objects (no shared native
cell), and that each wrapper calls the native operation it is named after with its operands in the right order.
"""
import ast

from ..absint import Interp
from ..absstate import State
from ..absval import UNK, ABuiltin, AObj, Unknown
from ..core import AnalysisError

PT = "Crypto.PublicKey._point"


class Toy(object):
    """y^2 = x^3 - 3x + b over F_p."""

    def __init__(self, p, b):
        self.p, self.a, self.b = p, -3, b
        self.points = [(x, y) for x in range(p) for y in range(p) if (y * y - (x ** 3 - 3 * x + b)) % p == 0]
        self.n = len(self.points) + 1
        self.G = [P for P in self.points if P[1] != 0][0]

    def on_curve(self, P):
        return P in self.points

    def add(self, P, Q):
        p = self.p
        if P is None:
            return Q
        if Q is None:
            return P
        if P[0] == Q[0]:
            if (P[1] + Q[1]) % p == 0:
                return None
            l = (3 * P[0] * P[0] + self.a) * pow(2 * P[1], -1, p) % p
        else:
            l = (Q[1] - P[1]) * pow(Q[0] - P[0], -1, p) % p
        x = (l * l - P[0] - Q[0]) % p
        return (x, (l * (P[0] - x) - P[1]) % p)

    def neg(self, P):
        return None if P is None else (P[0], (-P[1]) % self.p)

    def mul(self, k, P):
        R = None
        while k:
            if k & 1:
                R = self.add(R, P)
            P = self.add(P, P)
            k >>= 1
        return R


def find_toy(lo=19, want_big_gap=True):
    """Smallest prime p >= lo (p = 3 mod 4) and b with a prime-order curve whose order differs from p."""
    def is_prime(n):
        return n > 1 and all(n % d for d in range(2, int(n ** 0.5) + 1))
    p = lo
    while True:
        if is_prime(p) and p % 4 == 3:
            for b in range(1, p):
                T = Toy(p, b)
                if is_prime(T.n) and T.n != p and abs(T.n - p) >= 3:
                    return T
        p += 1


def _curve_id(repo, name):
    cls = repo.cls(repo.module(PT), "CurveID")
    for n in cls.body:
        if isinstance(n, ast.Assign) and isinstance(n.targets[0], ast.Name) and n.targets[0].id == name and isinstance(n.value, ast.Constant):
            return n.value.value
    raise AnalysisError("CurveID.%s is not a constant of %s" % (name, PT))


class World(object):
    def __init__(self, repo, T, xonly=False):
        self.repo, self.T = repo, T
        self.xonly = xonly
        self.mod = repo.module(PT)
        self.calls = []
        it = Interp(repo, max_depth=10, budget=3000000,
                    extra_models={"Crypto.Util._raw_api.VoidPointer": self.m_voidptr, "Crypto.Util._raw_api.SmartPointer": self.m_smartptr,
                                  "Crypto.Random.random.getrandbits": lambda i, a, kw, st, node: 0x1234,
                                  "Crypto.Random.get_random_bytes": lambda i, a, kw, st, node: bytes(a[0]) if a and isinstance(a[0], int) else UNK},
                    method_models={"get": self.m_get, "address_of": self.m_addr, "release": lambda i, base, a, kw, st, node: None})
        OPS = ("new_point", "free_point", "clone", "cmp", "get_x", "scalar") if xonly else \
            ("new_point", "free_point", "clone", "cmp", "get_xy", "double", "add", "scalar", "neg", "normalize", "copy")
        for op in OPS:
            it.extra_models["vstat.ec." + op] = getattr(self, "f_" + op)
        self.it = it
        st = State()
        lib = it.new_obj(st, label="rawlib", attrs=dict((op, ABuiltin("vstat.ec." + op)) for op in OPS))
        ctx = it.new_obj(st, label="ctx")
        st.heap[ctx.ident].update({"kind": "ptr", "val": ("ctx", 1)})
        self.curve = it.new_obj(st, label="curve", attrs={
            "p": T.p, "b": T.b, "order": T.n, "Gx": T.G[0], "Gy": T.G[1], "modulus_bits": T.p.bit_length(), "name": "toy", "canonical": "toy",
            "openssh": None, "oid": "1.3.9999", "desc": "toy", "id": _curve_id(repo, "CURVE25519" if xonly else "P256"), "rawlib": lib, "context": ctx,
            "is_edwards": False, "is_weierstrass": not xonly, "is_montgomery": xonly})
        it.inject = {"_curves[curve]": self.curve, "null_pointer": "NULL"}
        self.state = st

    # ----------------------------------------------------------------------------------------------- pointer objects
    def m_voidptr(self, i, a, kw, st, node):
        o = i.new_obj(st, label="voidptr")
        st.heap[o.ident].update({"kind": "ptr", "val": None})
        return o

    def m_smartptr(self, i, a, kw, st, node):
        o = i.new_obj(st, label="smartptr")
        st.heap[o.ident].update({"kind": "ptr", "val": a[0] if a else None})
        return o

    def m_get(self, i, base, a, kw, st, node):
        h = st.heap.get(getattr(base, "ident", -1), {})
        return h.get("val") if h.get("kind") == "ptr" else UNK

    def m_addr(self, i, base, a, kw, st, node):
        h = st.heap.get(getattr(base, "ident", -1), {})
        return ("addr", base.ident) if h.get("kind") == "ptr" else UNK

    # ------------------------------------------------------------------------------------------------ native library
    def _cell(self, st, h):
        if isinstance(h, tuple) and len(h) == 2 and h[0] == "npt" and h[1] in st.heap:
            return st.heap[h[1]]
        return None

    def _new(self, i, st, P):
        o = i.new_obj(st, label="npoint")
        st.heap[o.ident].update({"kind": "npoint", "P": P, "freed": False})
        return ("npt", o.ident)

    def f_new_point_x(self, i, a, kw, st, node):
        addr, xb, ln, ctx = (list(a) + [None] * 4)[:4]
        if not (isinstance(addr, tuple) and isinstance(ln, int)) or not (xb == "NULL" or isinstance(xb, (bytes, bytearray))):
            return Unknown("int")
        if ctx != ("ctx", 1):
            return 1
        if xb == "NULL":
            st.heap[addr[1]]["val"] = self._new(i, st, None)
            return 0
        if ln != (self.T.p.bit_length() + 7) // 8 or len(xb) < ln:
            return 12
        x = int.from_bytes(bytes(xb[:ln]), "big") % self.T.p            # non-canonical values are reduced, as the native code does
        ys = [P for P in self.T.points if P[0] == x]
        if not ys:
            return 15
        st.heap[addr[1]]["val"] = self._new(i, st, min(ys))
        return 0

    def f_get_x(self, i, a, kw, st, node):
        xb, ln, h = (list(a) + [None] * 3)[:3]
        c = self._cell(st, h)
        if c is None or not isinstance(xb, bytearray) or not isinstance(ln, int):
            return Unknown("int")
        if len(xb) < ln or ln < (self.T.p.bit_length() + 7) // 8:
            return 12
        if c["P"] is None:
            return 19
        xb[:ln] = c["P"][0].to_bytes(ln, "big")
        return 0

    def f_new_point(self, i, a, kw, st, node):
        if self.xonly:
            return self.f_new_point_x(i, a, kw, st, node)
        addr, xb, yb, ln, ctx = (list(a) + [None] * 5)[:5]
        if not (isinstance(addr, tuple) and isinstance(xb, (bytes, bytearray)) and isinstance(yb, (bytes, bytearray)) and isinstance(ln, int)):
            return Unknown("int")
        if ctx != ("ctx", 1):
            return 1
        if ln != (self.T.p.bit_length() + 7) // 8 or len(xb) < ln or len(yb) < ln:
            return 12
        # like the real library, coordinates are reduced modulo p, not refused: the range check is the Python layer's duty
        x, y = int.from_bytes(bytes(xb[:ln]), "big") % self.T.p, int.from_bytes(bytes(yb[:ln]), "big") % self.T.p
        if (x, y) == (0, 0):
            P = None
        elif self.T.on_curve((x, y)):
            P = (x, y)
        else:
            return 15
        st.heap[addr[1]]["val"] = self._new(i, st, P)
        return 0

    def f_free_point(self, i, a, kw, st, node):
        return None

    def f_clone(self, i, a, kw, st, node):
        addr, src = (list(a) + [None] * 2)[:2]
        c = self._cell(st, src)
        if c is None or not isinstance(addr, tuple):
            return Unknown("int")
        st.heap[addr[1]]["val"] = self._new(i, st, c["P"])
        return 0

    def f_copy(self, i, a, kw, st, node):
        d, s = self._cell(st, a[0]), self._cell(st, a[1])
        if d is None or s is None:
            return Unknown("int")
        d["P"] = s["P"]
        return 0

    def f_cmp(self, i, a, kw, st, node):
        c, d = self._cell(st, a[0]), self._cell(st, a[1])
        if c is None or d is None:
            return Unknown("int")
        if self.xonly:
            return 0 if (c["P"] and c["P"][0]) == (d["P"] and d["P"][0]) and (c["P"] is None) == (d["P"] is None) else 1
        return 0 if c["P"] == d["P"] else 1

    def f_get_xy(self, i, a, kw, st, node):
        xb, yb, ln, h = (list(a) + [None] * 4)[:4]
        c = self._cell(st, h)
        if c is None or not isinstance(xb, bytearray) or not isinstance(yb, bytearray) or not isinstance(ln, int):
            return Unknown("int")
        if len(xb) < ln or len(yb) < ln or ln < (self.T.p.bit_length() + 7) // 8:
            return 12
        x, y = c["P"] or (0, 0)
        xb[:ln] = x.to_bytes(ln, "big")
        yb[:ln] = y.to_bytes(ln, "big")
        return 0

    def f_double(self, i, a, kw, st, node):
        c = self._cell(st, a[0])
        if c is None:
            return Unknown("int")
        c["P"] = self.T.add(c["P"], c["P"])
        return 0

    def f_add(self, i, a, kw, st, node):
        c, d = self._cell(st, a[0]), self._cell(st, a[1])
        if c is None or d is None:
            return Unknown("int")
        c["P"] = self.T.add(c["P"], d["P"])
        return 0

    def f_neg(self, i, a, kw, st, node):
        c = self._cell(st, a[0])
        if c is None:
            return Unknown("int")
        c["P"] = self.T.neg(c["P"])
        return 0

    def f_normalize(self, i, a, kw, st, node):
        return 0 if self._cell(st, a[0]) is not None else Unknown("int")

    def f_scalar(self, i, a, kw, st, node):
        h, sb, ln = (list(a) + [None] * 3)[:3]
        c = self._cell(st, h)
        if c is None or not isinstance(sb, (bytes, bytearray)) or not isinstance(ln, int) or ln > len(sb):
            return Unknown("int")
        c["P"] = self.T.mul(int.from_bytes(bytes(sb[:ln]), "big"), c["P"])
        return 0


def _driver(src):
    tree = ast.parse(src)
    for node in ast.walk(tree):
        for ch in ast.iter_child_nodes(node):
            ch._parent = node
    f = tree.body[0]
    f._qualname = "vstat_driver." + f.name
    return f


def _plain(v):
    """Abstract result -> comparable Python value (Integer objects of the repository are read through int())."""
    if isinstance(v, (tuple, list)):
        return tuple(_plain(x) for x in v)
    return v


# Each program observes (x, y) pairs and booleans along a sequence of operations; `ref` computes the same with the
# textbook law.  P, Q are points given as coordinates, k a scalar.
PROGRAMS = [
    ("observe", """
def prog(x1, y1, x2, y2, k):
    P = EccPoint(x1, y1, "toy")
    return [int(P.x), int(P.y), tuple(map(int, P.xy)), P.is_point_at_infinity(), P.size_in_bytes()]
""", lambda T, P, Q, k: [(P or (0, 0))[0], (P or (0, 0))[1], P or (0, 0), P is None, (T.p.bit_length() + 7) // 8]),
    ("double.inplace", """
def prog(x1, y1, x2, y2, k):
    P = EccPoint(x1, y1, "toy")
    a = tuple(map(int, P.xy))
    R = P.double()
    b = tuple(map(int, P.xy))
    P.double()
    c = tuple(map(int, P.xy))
    return [a, b, c, R is P]
""", lambda T, P, Q, k: [P or (0, 0), T.add(P, P) or (0, 0), T.mul(4, P) or (0, 0), True]),
    ("iadd.inplace", """
def prog(x1, y1, x2, y2, k):
    P = EccPoint(x1, y1, "toy")
    Q = EccPoint(x2, y2, "toy")
    a = tuple(map(int, P.xy))
    P += Q
    b = tuple(map(int, P.xy))
    c = tuple(map(int, Q.xy))
    P += P
    d = tuple(map(int, P.xy))
    return [a, b, c, d]
""", lambda T, P, Q, k: [P or (0, 0), T.add(P, Q) or (0, 0), Q or (0, 0), T.mul(2, T.add(P, Q)) or (0, 0)]),
    ("imul.inplace", """
def prog(x1, y1, x2, y2, k):
    P = EccPoint(x1, y1, "toy")
    a = tuple(map(int, P.xy))
    P *= k
    b = tuple(map(int, P.xy))
    inf = P.is_point_at_infinity()
    P *= 2
    c = tuple(map(int, P.xy))
    return [a, b, inf, c]
""", lambda T, P, Q, k: [P or (0, 0), T.mul(k, P) or (0, 0), T.mul(k, P) is None, T.mul(2 * k, P) or (0, 0)]),
    ("value.operators", """
def prog(x1, y1, x2, y2, k):
    P = EccPoint(x1, y1, "toy")
    Q = EccPoint(x2, y2, "toy")
    S = P + Q
    M = P * k
    M2 = k * P
    N = -P
    return [tuple(map(int, S.xy)), tuple(map(int, M.xy)), tuple(map(int, M2.xy)), tuple(map(int, N.xy)),
            tuple(map(int, P.xy)), tuple(map(int, Q.xy)), S is P, M is P, N is P]
""", lambda T, P, Q, k: [T.add(P, Q) or (0, 0), T.mul(k, P) or (0, 0), T.mul(k, P) or (0, 0), T.neg(P) or (0, 0), P or (0, 0), Q or (0, 0), False, False, False]),
    ("copy.independent", """
def prog(x1, y1, x2, y2, k):
    P = EccPoint(x1, y1, "toy")
    C = P.copy()
    C.double()
    a = tuple(map(int, P.xy))
    b = tuple(map(int, C.xy))
    P *= k
    c = tuple(map(int, C.xy))
    d = tuple(map(int, P.xy))
    return [a, b, c, d, C is P]
""", lambda T, P, Q, k: [P or (0, 0), T.mul(2, P) or (0, 0), T.mul(2, P) or (0, 0), T.mul(k, P) or (0, 0), False]),
    ("set.independent", """
def prog(x1, y1, x2, y2, k):
    P = EccPoint(x1, y1, "toy")
    Q = EccPoint(x2, y2, "toy")
    b0 = tuple(map(int, Q.xy))
    R = Q.set(P)
    a = tuple(map(int, Q.xy))
    Q.double()
    b = tuple(map(int, P.xy))
    c = tuple(map(int, Q.xy))
    P *= k
    d = tuple(map(int, Q.xy))
    e = tuple(map(int, P.xy))
    return [b0, a, b, c, d, e, R is Q]
""", lambda T, P, Q, k: [Q or (0, 0), P or (0, 0), P or (0, 0), T.mul(2, P) or (0, 0), T.mul(2, P) or (0, 0), T.mul(k, P) or (0, 0), True]),
    ("compare", """
def prog(x1, y1, x2, y2, k):
    P = EccPoint(x1, y1, "toy")
    Q = EccPoint(x2, y2, "toy")
    a = (P == Q)
    b = (P != Q)
    c = (P == P.copy())
    d = (P * k == Q)
    e = (-(-P) == P)
    f = ((P + Q) == (Q + P))
    return [a, b, c, d, e, f]
""", lambda T, P, Q, k: [P == Q, P != Q, True, T.mul(k, P) == Q, True, True]),
    ("infinity", """
def prog(x1, y1, x2, y2, k):
    P = EccPoint(x1, y1, "toy")
    O = P.point_at_infinity()
    a = O.is_point_at_infinity()
    S = P + O
    b = tuple(map(int, S.xy))
    D = P + (-P)
    c = D.is_point_at_infinity()
    d = tuple(map(int, P.xy))
    Z = P * 0
    return [a, b, c, d, Z.is_point_at_infinity(), tuple(map(int, (O + O).xy))]
""", lambda T, P, Q, k: [True, P or (0, 0), True, P or (0, 0), True, (0, 0)]),
]

def _x(P):
    return "inf" if P is None else P[0]


XPROGRAMS = [
    ("x.observe", """
def prog(x1, y1, x2, y2, k):
    P = EccXPoint(x1, "toy")
    return [int(P.x), P.is_point_at_infinity(), P.size_in_bytes(), P.point_at_infinity().is_point_at_infinity()]
""", lambda T, P, Q, k: [P[0], False, (T.p.bit_length() + 7) // 8, True]),
    ("x.imul.inplace", """
def prog(x1, y1, x2, y2, k):
    P = EccXPoint(x1, "toy")
    a = int(P.x)
    R = P.__imul__(k)
    inf = P.is_point_at_infinity()
    b = "inf" if inf else int(P.x)
    P *= 2
    c = "inf" if P.is_point_at_infinity() else int(P.x)
    return [a, inf, b, c, R is P]
""", lambda T, P, Q, k: [P[0], T.mul(k, P) is None, _x(T.mul(k, P)), _x(T.mul(2 * k, P)), True]),
    ("x.value.operators", """
def prog(x1, y1, x2, y2, k):
    P = EccXPoint(x1, "toy")
    M = P * k
    M2 = k * P
    a = "inf" if M.is_point_at_infinity() else int(M.x)
    b = "inf" if M2.is_point_at_infinity() else int(M2.x)
    return [a, b, int(P.x), M is P]
""", lambda T, P, Q, k: [_x(T.mul(k, P)), _x(T.mul(k, P)), P[0], False]),
    ("x.copy.independent", """
def prog(x1, y1, x2, y2, k):
    P = EccXPoint(x1, "toy")
    C = P.copy()
    C *= 2
    a = int(P.x)
    b = "inf" if C.is_point_at_infinity() else int(C.x)
    P *= k
    c = "inf" if C.is_point_at_infinity() else int(C.x)
    d = "inf" if P.is_point_at_infinity() else int(P.x)
    O = P.point_at_infinity().copy()
    return [a, b, c, d, C is P, O.is_point_at_infinity()]
""", lambda T, P, Q, k: [P[0], _x(T.mul(2, P)), _x(T.mul(2, P)), _x(T.mul(k, P)), False, True]),
    ("x.set.independent", """
def prog(x1, y1, x2, y2, k):
    P = EccXPoint(x1, "toy")
    Q = EccXPoint(x2, "toy")
    b0 = int(Q.x)
    R = Q.set(P)
    a = int(Q.x)
    Q *= 2
    b = int(P.x)
    c = "inf" if Q.is_point_at_infinity() else int(Q.x)
    P *= k
    d = "inf" if Q.is_point_at_infinity() else int(Q.x)
    e = "inf" if P.is_point_at_infinity() else int(P.x)
    return [b0, a, b, c, d, e, R is Q]
""", lambda T, P, Q, k: [Q[0], P[0], P[0], _x(T.mul(2, P)), _x(T.mul(2, P)), _x(T.mul(k, P)), True]),
    ("x.compare", """
def prog(x1, y1, x2, y2, k):
    P = EccXPoint(x1, "toy")
    Q = EccXPoint(x2, "toy")
    return [P == Q, P != Q, P == P.copy(), P * k == Q, P.point_at_infinity() == P, P.point_at_infinity() == Q.point_at_infinity()]
""", lambda T, P, Q, k: [P[0] == Q[0], P[0] != Q[0], True, T.mul(k, P) is not None and T.mul(k, P)[0] == Q[0], False, True]),
]


REFUSED = [
    ("off-curve", lambda T: next((x, y) for x in range(T.p) for y in range(1, T.p) if not T.on_curve((x, y)))),
    ("x = p", lambda T: (T.p, T.G[1])),
    ("y = p + Gy", lambda T: (T.G[0], T.G[1] + T.p)),
    ("negative x", lambda T: (-1, T.G[1])),
]


def _run(repo, T, src, args):
    w = World(repo, T, xonly="EccXPoint(" in src)
    fn = _driver(src)
    res = w.it.run(w.mod, fn, args, state=w.state)
    rets = res.returns()
    if len(rets) != 1 or res.raises():
        return ("exits", len(rets), tuple(sorted(set(res.raise_classes()))))
    v = rets[0].value
    return list(_plain(v)) if isinstance(v, (list, tuple)) else v


def _job(arg):
    repo, T, name, src, P, Q, k = arg
    (x1, y1), (x2, y2) = P or (0, 0), Q or (0, 0)
    return _run(repo, T, src, {"x1": x1, "y1": y1, "x2": x2, "y2": y2, "k": k})


def point_rows(check, ctx, rule="K-pw", programs=None, refused_too=False):
    from ..par import pmap
    repo = ctx.repo
    T = find_toy(19)
    G = T.G
    pts = [G, T.mul(2, G), T.mul(T.n - 1, G), T.mul(5, G), None]
    triples = []
    for P in pts:
        for Q in (G, T.mul(2, G), T.neg(P) if P else None, P):
            for k in (0, 1, 3, T.n - 1, T.n, T.n + 2):
                triples.append((P, Q, k))
    if ctx.tier != "thorough":
        triples = [t for j, t in enumerate(triples) if j % 4 == 0 or t[2] in (3,)]
    jobs = []
    ALL = PROGRAMS + XPROGRAMS
    for name, src, ref in ALL:
        if programs and name not in programs:
            continue
        seen = set()
        for (P, Q, k) in triples:
            if name.startswith("x.") and (P is None or Q is None):
                continue
            key = (P, Q if "x2" in src.split(":", 1)[1] else None, k if " k" in src.split(":", 1)[1] or "(k" in src.split(":", 1)[1] else None)
            if key in seen:
                continue
            seen.add(key)
            jobs.append((repo, T, name, src, P, Q, k))
    got = pmap(_job, jobs)
    per = {}
    for (repo_, T_, name, src, P, Q, k), g in zip(jobs, got):
        ref = [r for n_, s_, r in ALL if n_ == name][0]
        want = [tuple(x) if isinstance(x, tuple) else x for x in ref(T, P, Q, k)]
        d = per.setdefault(name, [0, []])
        d[0] += 1
        if g != want:
            if isinstance(g, tuple) and g and g[0] == "exits":
                why = "not decided / raises (%s)" % (g,)
            else:
                j = next((j for j in range(min(len(g), len(want))) if g[j] != want[j]), min(len(g), len(want)))
                why = "observation %d is %r, the group law gives %r" % (j + 1, g[j] if j < len(g) else None, want[j] if j < len(want) else None)
            d[1].append("P=%s Q=%s k=%d on y^2=x^3-3x+%d mod %d (n=%d): %s" % (P or "O", Q or "O", k, T.b, T.p, T.n, why))
    mod = repo.module(PT)
    total = 0
    CITE = {"observe": "x, y, xy, is_point_at_infinity() and size_in_bytes() show the native value",
            "double.inplace": "double() changes this object (and returns it); every later read shows the new value",
            "iadd.inplace": "P += Q changes P only (P += P included)",
            "imul.inplace": "P *= k changes P to k*P for every k >= 0, multiples of the order included",
            "value.operators": "P + Q, P * k, k * P, -P return new objects and leave their operands unchanged",
            "copy.independent": "copy() returns an independent point: later changes to either are not seen by the other",
            "set.independent": "Q.set(P) makes Q equal to P and independent of it",
            "compare": "== / != compare the group elements",
            "infinity": "point_at_infinity(), P + O = P, P + (-P) = O, 0 * P = O",
            "x.observe": "EccXPoint: x, is_point_at_infinity(), size_in_bytes() show the native value",
            "x.imul.inplace": "EccXPoint: P *= k changes P to k*P for every k >= 0 (the neutral element has no x)",
            "x.value.operators": "EccXPoint: P * k and k * P return new objects and leave P unchanged",
            "x.copy.independent": "EccXPoint: copy() is independent of the original, the neutral element included",
            "x.set.independent": "EccXPoint: Q.set(P) makes Q equal to P and independent of it",
            "x.compare": "EccXPoint: == / != compare the x-only group elements; the neutral element equals only itself"}
    und = [n_ for n_, d in per.items() if d[1] and all("not decided" in w for w in d[1]) and len(d[1]) == d[0]]
    if und and len(und) == len(per):
        raise AnalysisError("the point classes could not be interpreted over the toy library: %s" % per[und[0]][1][0])
    for name, (n, wrong) in sorted(per.items()):
        total += n
        check.ob(rule, "%s|point.%s" % (rule, name), not wrong, mod.path, repo.func(mod, ("EccXPoint" if name.startswith("x.") else "EccPoint") + ".__init__").lineno,
                 extracted=("%d of %d sequences differ: " % (len(wrong), n) + "; ".join(wrong[:2])) if wrong else "%d operation sequences on a complete toy curve agree with the group law at every observation" % n,
                 expected=CITE[name])
    if programs and not refused_too:
        check.count("point_sequences", total)
        return total
    # constructor refusals
    wrong = []
    for lab, mk in REFUSED:
        x, y = mk(T)
        g = _run(repo, T, "def prog(x1, y1):\n    P = EccPoint(x1, y1, 'toy')\n    return [1]\n", {"x1": x, "y1": y})
        total += 1
        if not (isinstance(g, tuple) and g[0] == "exits" and g[1] == 0 and g[2] == ("ValueError",)):
            wrong.append("EccPoint(%d, %d) [%s]: %r" % (x, y, lab, g))
    check.ob(rule, "%s|point.refused" % rule, not wrong, mod.path, repo.func(mod, "EccPoint.__init__").lineno,
             extracted="; ".join(wrong[:3]) if wrong else "%d constructions refused with ValueError" % len(REFUSED),
             expected="coordinates off the curve, negative or not below the field prime are refused with ValueError")
    check.count("point_sequences", total)
    return total
