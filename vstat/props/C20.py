"""C20 — Shamir secret sharing over GF(2^128) (structural slice)."""
import ast

from ..absint import Interp
from ..absstate import State
from ..absval import ABytes, UNK, AObj, ABuiltin, is_unk
from ..core import AnalysisError
from ..pydb import norm, walk_no_nested
from ..rules_g import (Row, run_row, ObsRow, run_obs, I, S, Pred, OBJ, B, INT,
                       LEN, INJECT, realise)
from ..spec import gf2

EXPLANATION = (
    "K: the reduction polynomial literal equals 1+x+x^2+x^7+x^128 and is "
    "irreducible over GF(2) (Rabin test in the checker). Field operations "
    "(_Element.__mul__, inverse, __pow__, __add__) are interpreted abstractly on "
    "operand pairs chosen at the region boundaries of the reduction (0, 1, x, "
    "x^127, x^127+.., all-ones, equal operands with the top bits set) and "
    "compared with the checker's own carry-less arithmetic. Structure of split(): "
    "with the random source replaced by a tape, the shares returned must be the "
    "Horner evaluations at x = 1..n of the polynomial whose k-1 higher "
    "coefficients are k-1 *distinct* 16-byte draws and whose constant term is the "
    "secret (both variants); combine(): Lagrange interpolation at zero over all k "
    "supplied shares including index products of degree >= 128, duplicate "
    "indexes refused. P4: no operator mutates an operand. Not decided: the field "
    "laws and reconstruction for all values.")

SS = "Crypto.Protocol.SecretSharing"
M127 = 1 << 127
ONES = (1 << 128) - 1
VALS = [0, 1, 2, 3, 0x87, M127, M127 | 1, (1 << 126) | 5, (1 << 125) | 0x1234, ONES, ONES - 1,
        0x0123456789ABCDEF0123456789ABCDEF, 0xFEDCBA9876543210FEDCBA9876543210, 1 << 64, (1 << 64) - 1]


def el(v):
    return OBJ((SS, "_Element"), _havoc=False, _value=v)


def run(check, ctx):
    repo = ctx.repo
    mod = repo.module(SS)
    cls = repo.cls(mod, "_Element")
    # ---- K: the field -------------------------------------------------------------------
    it = Interp(repo)
    irr = it.class_attr(mod, cls, "irr_poly", State(), None)
    check.ob("K", "K|irr_poly", irr == gf2.IRR, mod.path, cls.lineno,
             extracted="irr_poly = %s" % (hex(irr) if isinstance(irr, int) else repr(irr)),
             expected="1 + x + x^2 + x^7 + x^128 = %s" % hex(gf2.IRR))
    check.ob("K", "K|irr_poly.irreducible", isinstance(irr, int) and gf2.irreducible(irr), mod.path, cls.lineno,
             extracted="Rabin irreducibility test over GF(2): %s" % (gf2.irreducible(irr) if isinstance(irr, int) else "n/a"),
             expected="the modulus is irreducible, so that every non-zero element has an inverse")
    # ---- field operations ---------------------------------------------------------------------
    def value_of(res, it):
        r = res.returns()
        if len(r) != 1:
            return "raises " + ",".join(sorted(set(o.exc for o in res.raises()))) if res.raises() else "<%d exits>" % len(r)
        v = r[0].value
        if isinstance(v, AObj):
            return r[0].state.heap.get(v.ident, {}).get("_value")
        return v
    wrong = []
    n = 0
    pairs = [(a, b) for a in VALS for b in VALS if a <= b or (a in (M127, ONES) and b in (2, 3))]
    pairs = pairs[:80] + [(v, v) for v in VALS]
    fn = repo.func(mod, "_Element.__mul__")
    for a, b in pairs:
        itp = Interp(repo, max_depth=3, budget=2000000)
        st = State()
        memo = {}
        A = realise(el(a), itp, st, memo)
        Bv = A if a == b and (a & 1) else realise(el(b), itp, st, memo)
        res = itp.run(mod, fn, {"factor": Bv}, self_obj=A, state=st)
        got = value_of(res, itp)
        n += 1
        want = gf2.mul(a, b)
        if got != want:
            wrong.append("%s * %s = %s, field product %s" % (hex(a), hex(b), hex(got) if isinstance(got, int) else got, hex(want)))
        # operands unchanged
        for o, v in ((A, a), (Bv, b)):
            r = res.returns()
            if r and r[0].state.heap.get(o.ident, {}).get("_value") != v:
                wrong.append("operand %s mutated by __mul__" % hex(v))
    check.ob("K-pw", "K-pw|gf.mul", not wrong, mod.path, fn.lineno,
             extracted="; ".join(wrong[:3]) if wrong else "%d operand pairs (incl. equal operands with top bits set): product reduced below 2^128 and equal to the carry-less product mod irr_poly" % n,
             expected="a*b = clmul(a,b) mod (x^128+x^7+x^2+x+1), operands unchanged")
    wrong = []
    fn = repo.func(mod, "_Element.inverse")
    for a in VALS:
        itp = Interp(repo, max_depth=4, budget=3000000)
        st = State()
        A = realise(el(a), itp, st, {})
        res = itp.run(mod, fn, {}, self_obj=A, state=st)
        got = value_of(res, itp)
        if a == 0:
            if got != "raises ValueError":
                wrong.append("inverse(0): %s" % (got,))
        elif not isinstance(got, int) or gf2.mul(a, got) != 1 or got >= (1 << 128):
            wrong.append("inverse(%s) = %s (a * a^-1 = %s)" % (hex(a), hex(got) if isinstance(got, int) else got,
                                                              hex(gf2.mul(a, got)) if isinstance(got, int) else "?"))
    check.ob("K-pw", "K-pw|gf.inverse", not wrong, mod.path, fn.lineno,
             extracted="; ".join(wrong[:3]) if wrong else "%d elements: a * inverse(a) = 1, result reduced; inverse(0) raises ValueError" % len(VALS),
             expected="multiplicative inverse in GF(2^128); zero refused with ValueError")
    wrong = []
    fn = repo.func(mod, "_Element.__pow__")
    # incl. every (index, k) whose carry-less power has degree exactly 128 (x^128 and x^128 + 1 are below the modulus as
    # integers but not reduced), and powers that wrap further
    POWS = ((2, 3), (M127, 2), (ONES, 3), (3, 7), (0x87, 20), (5, 1), (256, 16), (257, 16), (16, 32), (17, 32), (4, 64), (5, 64),
            (1 << 64, 2), ((1 << 64) + 1, 2), (2, 128), (3, 128), (258, 16), (2, 127), (2, 129), (6, 64), (1 << 32, 4), (0, 3), (1, 200))
    for a, e in POWS:
        itp = Interp(repo, max_depth=4, budget=30000000)
        itp.for_limit = 400
        st = State()
        A = realise(el(a), itp, st, {})
        res = itp.run(mod, fn, {"exponent": e}, self_obj=A, state=st)
        got = value_of(res, itp)
        if got != gf2.powfield(a, e):
            wrong.append("%s ** %d = %s, expected %s" % (hex(a), e, got, hex(gf2.powfield(a, e))))
    check.ob("K-pw", "K-pw|gf.pow", not wrong, mod.path, fn.lineno,
             extracted="; ".join(wrong[:3]) if wrong else "%d cases (incl. powers of degree exactly 128 before reduction): repeated field multiplication" % len(POWS),
             expected="a ** e in GF(2^128)")
    from . import c20_extra
    c20_extra.run(check, ctx, value_of)
    check.undecided.append("field laws, inversion and reconstruction for all values; "
                           "information-theoretic secrecy (follows from full-field random coefficients)")
