"""src/keccak.c on the C evaluator with the permutation Keccak-p[1600, n_r]
replaced by an uninterpreted function and symbolic message bytes (C03, C09,
C10, C19).

The sponge code only copies, XORs and pads; with the permutation as an
uninterpreted injective function the interpreter computes, for every message
value at once, the terms that absorb/squeeze produce, and the rule compares
them with FIPS 202 section 4 (pad10*1 with the domain-separation suffix, rate
= 200 - capacity, output taken rate bytes at a time) written here over the same
terms.  Capacities, round counts, suffix bytes, message lengths around the
rate, and chunkings of both input and output are enumerated.  Also: digest()
does not consume the state, absorb after squeezing is refused, a copy taken
while absorbing or while squeezing continues exactly like the original and
neither influences the other, reset returns to the initial state.
"""
from ..ceval import CProgram, Machine, CError, Undecided, P, S, CT, Shard, run_sharded, VOID, bxor, resolve
from ..core import AnalysisError

SRC = "src/keccak.c"
PTR = CT("ptr", 8, to=VOID)


def perm(cells, rounds):
    key = tuple(cells)
    return [S(frozenset([("f%d" % rounds, key, j)])) for j in range(200)]


def m_keccak_function(mm, a):
    st, rounds = a[0], a[1]
    cells = mm.read_cells(st, 200)
    if any(c is None for c in cells):
        raise CError("uninit-read", "the permutation is applied to uninitialised state bytes", mm.line)
    mm.write_cells(st, perm(cells, rounds))
    return None


class RefSponge(object):
    def __init__(self, capacity, rounds):
        self.rate = 200 - capacity
        self.rounds = rounds
        self.state = [0] * 200
        self.pending = []
        self.out = None

    def clone(self):
        r = RefSponge(200 - self.rate, self.rounds)
        r.state = list(self.state)
        r.pending = list(self.pending)
        r.out = None if self.out is None else list(self.out)
        return r

    def absorb(self, cells):
        self.pending += list(cells)
        while len(self.pending) >= self.rate:
            blk, self.pending = self.pending[:self.rate], self.pending[self.rate:]
            self._xor(blk)

    def _xor(self, blk):
        self.state = [bxor(x, y) for x, y in zip(self.state, blk + [0] * (200 - len(blk)))]
        self.state = perm(self.state, self.rounds)

    def squeeze(self, n, suffix):
        if self.out is None:
            blk = self.pending + [0] * (self.rate - len(self.pending))
            blk[len(self.pending)] = suffix
            blk[self.rate - 1] = blk[self.rate - 1] | 0x80
            self._xor(blk)
            self.pending = []
            self.out = list(self.state[:self.rate])
        res = []
        while n > 0:
            if not self.out:
                self.state = perm(self.state, self.rounds)
                self.out = list(self.state[:self.rate])
            t = min(n, len(self.out))
            res += self.out[:t]
            self.out = self.out[t:]
            n -= t
        return res


def new_state(m, capacity, rounds):
    pp = m.alloc(8, "pstate", "heap", init=0)
    rc = m.call("keccak_init", [pp, capacity, rounds])
    return rc, m.load(pp, PTR)


def feed(m, st, cells, chunks):
    pos = 0
    for c in chunks:
        buf = m.alloc_bytes(list(cells[pos:pos + c]) or [0], "in")
        rc = m.call("keccak_absorb", [st, buf, c])
        if rc != 0:
            return rc
        pos += c
    return 0


def take(m, st, total_chunks, suffix):
    out = []
    for c in total_chunks:
        buf = m.alloc(max(c, 1), "out", "heap", init=None)
        rc = m.call("keccak_squeeze", [st, buf, c, suffix])
        if rc != 0:
            return rc, out
        out += m.read_cells(buf, c)
    return 0, out


def chunkings(n, rate):
    res = [[n]]
    if n > 1:
        res.append([1, n - 1])
        res.append([n - 1, 1])
    if n > rate:
        res.append([rate - 1, 2, n - rate - 1])
    if n >= 3:
        res.append([0, n // 3, 0, n - n // 3])
    return [c for c in res if sum(c) == n and all(x >= 0 for x in c)]


def sponge_rows(prog, sh=None):
    sh = sh or Shard()
    wrong = []
    n = 0
    for capacity, rounds, suffix in ((32, 24, 0x1F), (64, 24, 0x06), (64, 24, 0x1F), (128, 24, 0x06), (56, 24, 0x06), (96, 24, 0x06),
                                     (32, 12, 0x1F), (64, 12, 0x07), (32, 24, 0x04), (64, 12, 0x0B)):
        rate = 200 - capacity
        for mlen in (0, 1, rate - 2, rate - 1, rate, rate + 1, 2 * rate - 1, 2 * rate, 2 * rate + 3):
            for ci, ch in enumerate(chunkings(mlen, rate)):
                for oi, outs in enumerate(([capacity // 2], [1, rate - 1, 1], [rate, rate], [rate + 5, 3], [0, 7, 0, rate])):
                    if ci and oi:
                        continue        # vary one of the two chunkings at a time
                    if not sh.take():
                        continue
                    m = Machine(prog, SRC, models={"keccak_function": m_keccak_function})
                    rc, st = new_state(m, capacity, rounds)
                    if rc != 0:
                        wrong.append("keccak_init(%d, %d) returns %r" % (capacity, rounds, rc))
                        continue
                    msg = [S(frozenset([("m", i)])) for i in range(mlen)]
                    rc = feed(m, st, msg, ch)
                    n += 1
                    ref = RefSponge(capacity, rounds)
                    ref.absorb(msg)
                    # digest() first: must give the one-shot digest and leave the state alone
                    dg = m.alloc(capacity // 2, "digest", "heap", init=None)
                    rcd = m.call("keccak_digest", [st, dg, capacity // 2, suffix])
                    want_d = ref.clone().squeeze(capacity // 2, suffix)
                    if rcd != 0 or m.read_cells(dg, capacity // 2) != want_d:
                        wrong.append("capacity %d rounds %d suffix %#x, %d-byte message in pieces %s: keccak_digest differs from FIPS 202 (code %r)" % (
                            capacity, rounds, suffix, mlen, ch, rcd))
                        continue
                    rc2, got = take(m, st, outs, suffix)
                    want = ref.squeeze(sum(outs), suffix)
                    if rc or rc2 or got != want:
                        i = [j for j in range(min(len(got), len(want))) if got[j] != want[j]][:1]
                        wrong.append("capacity %d rounds %d suffix %#x, %d-byte message in pieces %s, output in pieces %s: %s" % (
                            capacity, rounds, suffix, mlen, ch, outs,
                            ("codes %r/%r" % (rc, rc2)) if (rc or rc2) else "output byte %s differs from FIPS 202 (rate %d)" % (i, rate)))
                        continue
                    # absorbing after squeezing is refused and changes nothing
                    r3 = m.call("keccak_absorb", [st, m.alloc_bytes([1, 2, 3], "late"), 3])
                    if r3 == 0:
                        wrong.append("capacity %d: keccak_absorb is accepted after squeezing started" % capacity)
                        continue
                    rc4, got2 = take(m, st, [5], suffix)
                    if rc4 or got2 != ref.squeeze(5, suffix):
                        wrong.append("capacity %d: output after a refused absorb differs" % capacity)
    return n, wrong


def copy_rows(prog, sh=None):
    sh = sh or Shard()
    wrong = []
    n = 0
    for capacity, rounds, suffix in ((32, 24, 0x1F), (64, 24, 0x06), (128, 24, 0x06), (64, 12, 0x07)):
        rate = 200 - capacity
        for mlen in (0, 5, rate - 1, rate, rate + 9):
            for pre_out in (None, 0, 1, rate - 1, rate, rate + 3):
                if not sh.take():
                    continue
                m = Machine(prog, SRC, models={"keccak_function": m_keccak_function})
                rc, a = new_state(m, capacity, rounds)
                rc, b = new_state(m, 64 if capacity != 64 else 32, 24)      # the target had another geometry before
                msg = [S(frozenset([("m", i)])) for i in range(mlen)]
                feed(m, a, msg, [mlen])
                ref = RefSponge(capacity, rounds)
                ref.absorb(msg)
                if pre_out is not None:
                    rc, got = take(m, a, [pre_out], suffix)
                    if got != ref.squeeze(pre_out, suffix):
                        wrong.append("squeeze before copy differs")
                        continue
                rc = m.call("keccak_copy", [a, b])
                n += 1
                if rc != 0:
                    wrong.append("keccak_copy returns %r" % rc)
                    continue
                refb = ref.clone()
                what = "capacity %d, %d-byte message, copy taken %s" % (
                    capacity, mlen, "while absorbing" if pre_out is None else "after squeezing %d bytes" % pre_out)
                if pre_out is None:
                    # both continue absorbing different data
                    ta = [S(frozenset([("ta", i)])) for i in range(rate + 1)]
                    tb = [S(frozenset([("tb", i)])) for i in range(3)]
                    feed(m, a, ta, [rate + 1])
                    feed(m, b, tb, [3])
                    ref.absorb(ta)
                    refb.absorb(tb)
                rca, ga = take(m, a, [7, rate], suffix)
                rcb, gb = take(m, b, [rate + 1, 6], suffix)
                if rca or ga != ref.squeeze(7 + rate, suffix):
                    wrong.append("%s: the original continues differently" % what)
                if rcb or gb != refb.squeeze(rate + 7, suffix):
                    wrong.append("%s: the copy does not continue like the original would" % what)
        if sh.take():
            m = Machine(prog, SRC, models={"keccak_function": m_keccak_function})
            rc, a = new_state(m, capacity, rounds)
            feed(m, a, [S(frozenset([("x", i)])) for i in range(9)], [9])
            take(m, a, [3], suffix)
            rc = m.call("keccak_reset", [a])
            n += 1
            msg = [S(frozenset([("m", i)])) for i in range(4)]
            r1 = feed(m, a, msg, [4])
            ref = RefSponge(capacity, rounds)
            ref.absorb(msg)
            rc2, got = take(m, a, [10], suffix)
            if rc or r1 or rc2 or got != ref.squeeze(10, suffix):
                wrong.append("capacity %d: after keccak_reset the object does not behave like a new one" % capacity)
    return n, wrong


def init_rows(prog, sh=None):
    sh = sh or Shard()
    wrong = []
    n = 0
    for capacity in (0, 1, 32, 64, 128, 199, 200, 201, 1000):
        for rounds in (0, 11, 12, 13, 23, 24, 25):
            if not sh.take():
                continue
            m = Machine(prog, SRC, models={"keccak_function": m_keccak_function})
            rc, st = new_state(m, capacity, rounds)
            n += 1
            ok = capacity < 200 and rounds in (12, 24)
            if (rc == 0) != ok:
                wrong.append("keccak_init(capacity %d, rounds %d) returns %r" % (capacity, rounds, rc))
    # digest length must be capacity / 2
    for capacity, ln in ((64, 31), (64, 33), (32, 32)):
        if not sh.take():
            continue
        m = Machine(prog, SRC, models={"keccak_function": m_keccak_function})
        rc, st = new_state(m, capacity, 24)
        r = m.call("keccak_digest", [st, m.alloc(max(ln, 1), "d", "heap", init=None), ln, 6])
        n += 1
        if r == 0:
            wrong.append("keccak_digest(capacity %d) accepts a %d-byte digest" % (capacity, ln))
    return n, wrong


def keccak_tables(check, ctx, rule="K-sym", groups=("sponge", "copy", "init")):
    prog = CProgram(ctx.cdb)
    prog.tu(SRC)
    table = {"sponge": ("sponge_rows", "absorb / squeeze / digest = FIPS 202 sponge (pad10*1 with the suffix byte, rate = 200 - capacity) for every message value; 10 (capacity, rounds, suffix) settings, message lengths around the rate, input and output chunkings; digest does not consume; absorb after squeeze refused", 16),
             "copy": ("copy_rows", "a copy taken while absorbing or while squeezing (at any offset inside the rate) continues exactly like the original, both are independent afterwards, whatever geometry the target had; reset = new object", 8),
             "init": ("init_rows", "keccak_init accepts capacity < 200 and 12 or 24 rounds only; keccak_digest only the length capacity/2", 4)}
    total = 0
    for g in groups:
        fname, what, shards = table[g]
        res = run_sharded(ctx.root, prog, __name__, [fname], shards=shards)
        n, wrong, und = res[fname]
        if und:
            raise AnalysisError("C evaluator could not decide keccak %s: %s" % (g, und))
        total += n
        check.ob(rule, "%s|c|keccak.%s" % (rule, g), not wrong, SRC, 0,
                 extracted=("%d of %d rows differ: " % (len(wrong), n) + "; ".join(wrong[:3])) if wrong else "%d rows, permutation uninterpreted, message symbolic: equal to the definition" % n,
                 expected=what)
    check.count("c_keccak_rows", total)
    return total
