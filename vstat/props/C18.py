"""C18 — random values in range and uniform given uniform entropy (structural slice)."""
import ast

from ..absint import Interp
from ..absstate import State
from ..absval import ABytes, UNK, AObj, ABuiltin, AFunc, is_unk
from ..callgraph import callees
from ..core import AnalysisError
from ..pydb import norm, params_of, walk_no_nested
from ..rules_g import (Row, run_row, ObsRow, run_obs, I, S, Pred, OBJ, B, INT,
                       LEN, INJECT, realise)

EXPLANATION = (
    "Sampler shape: Integer.random, Integer.random_range, StrongRandom.getrandbits/"
    "randrange and the legacy number.getRandom* helpers are interpreted abstractly "
    "with the entropy source replaced by a tape; for tapes chosen at the region "
    "boundaries (all-zero, all-one, bound-1, bound, bound+1, every residue of "
    "bits mod 8, stepped ranges with a remainder) the value returned must be the "
    "one a pure rejection sampler with top-byte masking returns (no modulo, no "
    "truncation, exact acceptance interval, result = candidate + minimum). "
    "Consumers: the interval each consumer asks for (EC private scalar, FIPS "
    "nonces, blinding) is read from the call to the sampler. P7: every function "
    "with a randfunc parameter forwards it to every callee that accepts one. "
    "Not decided: quality of os.urandom, termination of rejection loops.")

IB = "Crypto.Math._IntegerBase"
RR = "Crypto.Random.random"
NUM = "Crypto.Util.number"


class Tape(object):
    def __init__(self, data):
        self.data = bytes(data)
        self.pos = 0

    def read(self, n):
        out = self.data[self.pos:self.pos + n]
        self.pos += n
        if len(out) < n:
            out += bytes(n - len(out))     # the tapes are long enough; pad defensively
        return out


def tape_model(tape):
    def m(i, a, kw, st, node):
        n = a[0] if a else kw.get("n", 1)
        if not isinstance(n, int):
            return ABytes(None)
        return tape.read(n)
    return m


# ---- references -----------------------------------------------------------------------
def ref_random(tape, bits, exact):
    nbytes = (bits - 1) // 8 + 1
    sig = 8 - (nbytes * 8 - bits)
    msb = tape.read(1)[0]
    if exact:
        msb |= 1 << (sig - 1)
    msb &= (1 << sig) - 1
    return int.from_bytes(bytes([msb]) + tape.read(nbytes - 1), "big")


def ref_random_range(tape, lo, hi):
    nm = hi - lo
    bits = max(1, nm.bit_length())
    while True:
        c = ref_random(tape, bits, False)
        if 0 <= c <= nm:
            return c + lo


def ref_getrandbits(tape, k):
    return ((1 << k) - 1) & int.from_bytes(tape.read(-(-k // 8)), "big")


def ref_randrange(tape, start, stop, step):
    n = -(-(stop - start) // step)
    if n < 1:
        return "ValueError"
    while True:
        r = ref_getrandbits(tape, n.bit_length())
        if r < n:
            return start + step * r


def ref_getRandomInteger(tape, N):
    S = tape.read(N >> 3)
    odd = N % 8
    if odd:
        S = bytes([tape.read(1)[0] >> (8 - odd)]) + S
    return int.from_bytes(S, "big")


def ref_getRandomRange(tape, a, b):
    r = b - a - 1
    bits = r.bit_length()
    while True:
        v = ref_getRandomInteger(tape, bits)
        if v <= r:
            return a + v


TAPES = [bytes([0xFF] * 64), bytes(64), bytes([0x80] + [0] * 63), bytes([0x7F] + [0xFF] * 63),
         bytes((37 * i + 11) & 0xFF for i in range(64)), bytes([0x05, 0x06, 0x07, 0x00, 0x01] * 13),
         bytes([0xFF, 0xFE, 0x09, 0x08, 0x03, 0x02] * 11)]


def ret(res, it):
    r = res.returns()
    if not r and res.raises():
        return sorted(set(o.exc for o in res.raises()))[0]
    return r[0].value if len(r) == 1 else "<%d exits>" % len(r)


def run(check, ctx):
    repo = ctx.repo
    RF = ABuiltin("vstat.tape")
    # cls.from_bytes / cls(x) on the abstract base class: Integer model
    from ..models import r_integer, r_integer_from_bytes
    n = 0
    # ---- Integer.random -------------------------------------------------------------------
    mod = repo.module(IB)
    cls = repo.cls(mod, "IntegerBase")
    for bits in list(range(1, 18)) + [64, 65, 127, 128, 129]:
        for exact in (False, True):
            wrong = []
            for ti, t in enumerate(TAPES[:5]):
                tape = Tape(t)
                want = ref_random(Tape(t), bits, exact)
                it = Interp(repo, max_depth=3, extra_models={"vstat.tape": tape_model(tape)})
                st = State()
                from ..absval import AClass
                fn = repo.func(mod, "IntegerBase.random")
                kw = {"randfunc": RF}
                kw["exact_bits" if exact else "max_bits"] = bits
                res = it.run(mod, fn, {"cls": AClass(repo.module("Crypto.Math._IntegerNative"),
                                                     repo.cls("Crypto.Math._IntegerNative", "IntegerNative")),
                                       "kwargs": kw}, state=st)
                got = ret(res, it)
                n += 1
                if got != want:
                    wrong.append("tape %d: got %r, masking sampler gives %r" % (ti, got, want))
            check.ob("K-pw", "K-pw|integer.random.%s.%d" % ("exact" if exact else "max", bits), not wrong,
                     mod.path, repo.func(mod, "IntegerBase.random").lineno,
                     extracted="; ".join(wrong[:2]) if wrong else "5 tapes: value = tape bytes with the top byte masked to %d bit(s)%s" % (
                         8 - (((bits - 1) // 8 + 1) * 8 - bits), ", top bit forced" if exact else ""),
                     expected="exactly `bits` significant bits taken from the tape (top byte masked; top bit forced for exact_bits)",
                     note="bits mod 8 = %d" % (bits % 8))
    # ---- Integer.random_range ----------------------------------------------------------------
    ranges = [(10, 15), (0, 7), (0, 8), (1, 1), (1, 255), (1, 256), (5, 5 + 65535), (100, 100 + 65536), (1, (1 << 64) - 2)]
    fn = repo.func(mod, "IntegerBase.random_range")
    from ..absval import AClass
    NATIVE = AClass(repo.module("Crypto.Math._IntegerNative"), repo.cls("Crypto.Math._IntegerNative", "IntegerNative"))
    for lo, hi in ranges:
        for variant in ("max_inclusive", "max_exclusive"):
            wrong = []
            for ti, t in enumerate(TAPES):
                tape = Tape(t + bytes(64))
                want = ref_random_range(Tape(t + bytes(64)), lo, hi)
                it = Interp(repo, max_depth=4, extra_models={"vstat.tape": tape_model(tape)})
                kw = {"randfunc": RF, "min_inclusive": lo}
                kw[variant] = hi if variant == "max_inclusive" else hi + 1
                res = it.run(mod, fn, {"cls": NATIVE, "kwargs": kw})
                got = ret(res, it)
                n += 1
                if got != want:
                    wrong.append("tape %d: got %r, rejection sampler gives %r" % (ti, got, want))
            check.ob("K-pw", "K-pw|integer.random_range.%d.%d.%s" % (lo, hi, variant), not wrong, mod.path, fn.lineno,
                     extracted="; ".join(wrong[:2]) if wrong else "7 tapes: candidate of size(range) bits accepted iff 0 <= c <= max-min, result c + min",
                     expected="pure rejection sampling on the normalised range (both ends exact), no modulo",
                     note="property C18")
    # ---- StrongRandom ---------------------------------------------------------------------------
    rmod = repo.module(RR)
    sr = OBJ((RR, "StrongRandom"), _havoc=False, _randfunc=RF)
    for k in (1, 7, 8, 9, 16, 17, 33):
        wrong = []
        for ti, t in enumerate(TAPES[:5]):
            tape = Tape(t)
            want = ref_getrandbits(Tape(t), k)
            it = Interp(repo, max_depth=3, extra_models={"vstat.tape": tape_model(tape)})
            st = State()
            me = realise(sr, it, st, {})
            res = it.run(rmod, repo.func(rmod, "StrongRandom.getrandbits"), {"k": k}, self_obj=me, state=st)
            got = ret(res, it)
            n += 1
            if got != want:
                wrong.append("tape %d: got %r, expected %r" % (ti, got, want))
        check.ob("K-pw", "K-pw|getrandbits.%d" % k, not wrong, rmod.path, 0,
                 extracted="; ".join(wrong[:2]) if wrong else "5 tapes: k low bits of ceil(k/8) tape bytes",
                 expected="k-bit value from ceil(k/8) entropy bytes")
    rr = [(0, 10, 1), (0, 10, 3), (5, 6, 4), (0, 9, 3), (0, 256, 1), (0, 257, 1), (10, 0, -3), (10, 1, -3), (3, 3, 1), (0, 1, 1), (-5, 5, 2)]
    for (a, b, s) in rr:
        wrong = []
        for ti, t in enumerate(TAPES):
            tape = Tape(t + bytes(64))
            want = ref_randrange(Tape(t + bytes(64)), a, b, s)
            it = Interp(repo, max_depth=4, extra_models={"vstat.tape": tape_model(tape)})
            st = State()
            me = realise(sr, it, st, {})
            res = it.run(rmod, repo.func(rmod, "StrongRandom.randrange"), {"args": (a, b, s)}, self_obj=me, state=st)
            got = ret(res, it)
            n += 1
            if got != want:
                wrong.append("tape %d: got %r, expected %r" % (ti, got, want))
        check.ob("K-pw", "K-pw|randrange.%d.%d.%d" % (a, b, s), not wrong, rmod.path, 0,
                 extracted="; ".join(wrong[:2]) if wrong else "7 tapes: r uniform in [0, ceil((stop-start)/step)) by rejection, result start + step*r",
                 expected="every element of range(start, stop, step) reachable, nothing else; rejection sampling",
                 note="includes stepped ranges whose length is not a multiple of the step")
    # ---- legacy helpers ----------------------------------------------------------------------------
    nmod = repo.module(NUM)
    for N in (0, 1, 7, 8, 9, 15, 16, 17, 63, 64):
        wrong = []
        for ti, t in enumerate(TAPES[:5]):
            tape = Tape(t)
            want = ref_getRandomInteger(Tape(t), N)
            it = Interp(repo, max_depth=3, extra_models={"vstat.tape": tape_model(tape)})
            res = it.run(nmod, repo.func(nmod, "getRandomInteger"), {"N": N, "randfunc": RF})
            got = ret(res, it)
            n += 1
            if got != want:
                wrong.append("tape %d: got %r, expected %r" % (ti, got, want))
        check.ob("K-pw", "K-pw|getRandomInteger.%d" % N, not wrong, nmod.path, 0,
                 extracted="; ".join(wrong[:2]) if wrong else "5 tapes: N-bit value (N>>3 bytes + N%8 top bits)",
                 expected="at most N significant bits")
    for (a, b) in ((10, 16), (0, 8), (0, 9), (1, 257), (1, 258), (3, 5)):
        wrong = []
        for ti, t in enumerate(TAPES):
            tape = Tape(t + bytes(64))
            want = ref_getRandomRange(Tape(t + bytes(64)), a, b)
            it = Interp(repo, max_depth=3, extra_models={"vstat.tape": tape_model(tape)})
            res = it.run(nmod, repo.func(nmod, "getRandomRange"), {"a": a, "b": b, "randfunc": RF})
            got = ret(res, it)
            n += 1
            if got != want:
                wrong.append("tape %d: got %r, expected %r" % (ti, got, want))
        check.ob("K-pw", "K-pw|getRandomRange.%d.%d" % (a, b), not wrong, nmod.path, 0,
                 extracted="; ".join(wrong[:2]) if wrong else "7 tapes: a <= result < b by rejection",
                 expected="a <= N < b, rejection sampling")
    check.count("entropy_tapes_interpreted", n)
    from . import c18_extra
    c18_extra.run(check, ctx)
    check.undecided.append("statistical quality of os.urandom; termination of the rejection loops")
