"""C12 — key-derivation functions (structural slice)."""
import hashlib
import struct

from ..absint import Interp
from ..absstate import State
from ..absval import ABytes, UNK, ABuiltin, AObj, Unknown
from ..rules_g import (Row, run_row, ObsRow, run_obs, I, S, Mult, Pred, OBJ, B,
                       INT, LEN, INJECT)
from ..rules_v import check_verify
from ..core import AnalysisError

EXPLANATION = (
    "K/def-use: PBKDF2 (generic path), HKDF extract/expand, SP 800-108 counter "
    "mode and PBKDF1 are interpreted abstractly with the PRF / HMAC / hash "
    "replaced by an injective symbolic function of fixed output length; the "
    "derived terms (block counters from 1, 4-byte/1-byte encodings, chaining "
    "U_j = PRF(P, U_j-1), T(i) = HMAC(PRK, T(i-1) | info | i), [L]_32 suffix, "
    "label | 00 | context, concatenation, truncation and the multi-key slicing) "
    "are compared with the checker's own RFC 8018 / RFC 5869 / SP 800-108 "
    "reference over the same symbolic function, for several output lengths "
    "around block boundaries. G: every documented parameter domain (PBKDF1 "
    "dkLen/salt, HKDF 255*hLen, scrypt N power of two < 2^32 and the p*r bound, "
    "bcrypt cost/salt/password/NUL, bcrypt_check format) by region enumeration; "
    "V: bcrypt_check compares whole hashes. Not decided: the native fast paths "
    "(PBKDF2-HMAC assist, ROMix, EKSBlowfish) and the hash functions themselves.")

KDF = "Crypto.Protocol.KDF"
HL = 32


def F(tag, *parts):
    """Injective symbolic function of fixed length (checker-side SHA-256 over
    a length-prefixed encoding)."""
    h = hashlib.sha256(tag)
    for p in parts:
        h.update(struct.pack(">I", len(p)) + p)
    return h.digest()[:HL]


# ---- reference implementations over F ------------------------------------------------
def ref_pbkdf2(P, S, dkLen, c):
    out = b""
    i = 1
    while len(out) < dkLen:
        u = F(b"prf", P, S + struct.pack(">I", i))
        t = u
        for _ in range(c - 1):
            u = F(b"prf", P, u)
            t = bytes(a ^ b for a, b in zip(t, u))
        out += t
        i += 1
    return out[:dkLen]


def ref_hkdf_expand(prk, info, L):
    t = b""
    okm = b""
    n = 1
    while len(okm) < L:
        t = F(b"hmac", prk, t + info + bytes([n]))
        okm += t
        n += 1
    return okm[:L]


def ref_hkdf(master, key_len, salt, num_keys, context):
    if not salt:
        salt = bytes(HL)
    prk = F(b"hmac", salt, master)
    okm = ref_hkdf_expand(prk, context or b"", key_len * num_keys)
    if num_keys == 1:
        return okm[:key_len]
    return [okm[i:i + key_len] for i in range(0, key_len * num_keys, key_len)]


def ref_sp800108(master, key_len, num_keys, label, context):
    L = key_len * num_keys
    dk = b""
    i = 1
    while len(dk) < L:
        dk += F(b"prf", master, struct.pack(">I", i) + label + b"\x00" + context + struct.pack(">I", L * 8))
        i += 1
    if num_keys == 1:
        return dk[:key_len]
    return [dk[j:j + key_len] for j in range(0, L, key_len)]


def ref_pbkdf1(P, S, dkLen, count):
    t = F(b"hash", P + S)
    for _ in range(count - 1):
        t = F(b"hash", t)
    return t[:dkLen]


# ---- models -----------------------------------------------------------------------------
def m_prf(i, a, kw, st, node):
    if len(a) == 2 and isinstance(a[0], bytes) and isinstance(a[1], bytes):
        return F(b"prf", a[0], a[1])
    return ABytes(HL)


def m_hmac_new(i, a, kw, st, node):
    key = a[0] if a else kw.get("key")
    msg = a[1] if len(a) > 1 else kw.get("msg", b"")
    o = i.new_obj(st, label="hmac")
    st.heap[o.ident]["tok"] = F(b"hmac", key, msg) if isinstance(key, bytes) and isinstance(msg, bytes) else ABytes(HL)
    return o


def mm_digest(i, base, a, kw, st, node):
    return st.heap.get(base.ident, {}).get("tok", ABytes(HL))


def mm_hash_new(i, base, a, kw, st, node):
    data = a[0] if a else b""
    o = i.new_obj(st, label="hash")
    st.heap[o.ident]["tok"] = F(b"hash", data) if isinstance(data, bytes) else ABytes(HL)
    st.heap[o.ident]["digest_size"] = HL
    return o


def m_reduce(i, a, kw, st, node):
    f, seq = a[0], a[1]
    if not isinstance(seq, (list, tuple)) or not seq:
        return UNK
    acc = seq[0]
    for x in seq[1:]:
        acc = i.call_value(f, [acc, x], {}, st, node)
    return acc


def ret(res, it):
    r = res.returns()
    return r[0].value if len(r) == 1 else "<%d exits>" % len(r)


B64 = "./ABCDEFGHIJKLMNOPQRSTUVWXYZabcdefghijklmnopqrstuvwxyz0123456789"


def ref_b64_encode(data):
    """bcrypt's radix-64: big-endian bit stream cut into 6-bit groups, last group zero-padded on the right, no '='."""
    bits = "".join("{:08b}".format(b) for b in data)
    bits += "0" * (-len(bits) % 6)
    return "".join(B64[int(bits[i:i + 6], 2)] for i in range(0, len(bits), 6)).encode()


def ref_b64_decode(text):
    bits = "".join("{:06b}".format(B64.index(chr(c))) for c in text)
    bits = bits[:len(bits) - len(bits) % 8]
    return bytes(int(bits[i:i + 8], 2) for i in range(0, len(bits), 8))


def bcrypt_value_rows(check, repo):
    """What bcrypt() does around the native EKSBlowfish core: the radix-64 codec on every length up to 24 bytes, the
    assembly of the 60-character string ($2a$, two-digit cost, 22 characters of salt, 31 characters = 23 bytes of the
    24-byte result), the key handed to the core (password + NUL, at most 72 bytes), 64 encryptions of the constant
    'OrpheanBeholderScryDoubt', and the round trip bcrypt_check(pw, bcrypt(pw)) with the core replaced by an
    uninterpreted function of (key, cost, salt)."""
    import hashlib
    mod = repo.module(KDF)
    wrong = []
    n = 0
    pats = [bytes(L) for L in range(1, 25)] + [b"\xff" * L for L in range(1, 25)] + [bytes((37 * i + 11 * L) & 0xFF for i in range(L)) for L in range(1, 25)] + \
           [bytes([0x80] + [0] * (L - 1)) for L in (1, 2, 3, 16, 23)] + [bytes([0] * (L - 1) + [1]) for L in (1, 2, 3, 16, 23)]
    for d in pats:
        it = Interp(repo, max_depth=4)
        res = it.run(mod, repo.func(mod, "_bcrypt_encode"), {"data": d})
        r = res.returns()
        got = bytes(r[0].value) if len(r) == 1 and isinstance(r[0].value, (bytes, bytearray)) and not res.raises() else None
        n += 1
        if got != ref_b64_encode(d):
            wrong.append("_bcrypt_encode(%s) = %r, bcrypt radix-64 gives %r" % (d.hex()[:16], got, ref_b64_encode(d)))
            continue
        it = Interp(repo, max_depth=4)
        res = it.run(mod, repo.func(mod, "_bcrypt_decode"), {"data": got})
        r = res.returns()
        back = bytes(r[0].value) if len(r) == 1 and isinstance(r[0].value, (bytes, bytearray)) and not res.raises() else None
        n += 1
        if back != d:
            wrong.append("_bcrypt_decode(%r) = %r, expected %s" % (got, back, d.hex()[:16]))
    check.ob("K-pw", "K-pw|bcrypt.radix64", not wrong, mod.path, repo.func(mod, "_bcrypt_encode").lineno,
             extracted=("%d of %d rows differ: " % (len(wrong), n) + "; ".join(wrong[:3])) if wrong else "%d rows (every length 1..24, all-zero / all-one / mixed bytes, single bits at both ends): encode as bcrypt's radix-64, decode inverts it" % n,
             expected="bcrypt radix-64 (alphabet ./A-Za-z0-9, no padding characters, last group padded with zero bits); decode(encode(x)) == x")
    # ---- assembly and round trip
    wrong = []
    rows = 0
    for pw, cost, salt in ((b"password", 4, bytes(range(16))), (b"", 12, b"\xff" * 16), (b"x" * 71, 31, bytes(16)), (b"y" * 72, 5, bytes(range(100, 116))),
                           ("p\u00e4ss", 10, bytes(range(16)))):
        seen = {}

        def core(key, cst, slt):
            return hashlib.sha256(b"core" + bytes([len(key)]) + key + bytes([cst]) + slt).digest()[:24]

        class _Eks(object):
            pass

        def m_new(i, a, kw, st, node, seen=seen):
            seen.setdefault("new", []).append((bytes(a[0]) if isinstance(a[0], (bytes, bytearray)) else a[0], a[2] if len(a) > 2 else None,
                                               a[3] if len(a) > 3 else None, a[4] if len(a) > 4 else None))
            o = i.new_obj(st, label="eks")
            st.heap[o.ident].update({"key": a[0], "salt": a[2] if len(a) > 2 else None, "cost": a[3] if len(a) > 3 else None, "n": 0})
            return o

        def m_encrypt(i, base, a, kw, st, node, seen=seen):
            h = st.heap.get(getattr(base, "ident", -1), {})
            seen["enc"] = seen.get("enc", 0) + 1
            seen.setdefault("first", a[0] if a else None)
            if not all(isinstance(h.get(k), (bytes, bytearray, int)) for k in ("key", "salt", "cost")) or not isinstance(a[0], (bytes, bytearray)):
                return ABytes(24)
            # an uninterpreted injective step: chained 64 times it is a function of (key, cost, salt, constant)
            return hashlib.sha256(b"step" + bytes(a[0]) + bytes([len(h["key"])]) + bytes(h["key"]) + bytes([h["cost"]]) + bytes(h["salt"])).digest()[:24]
        it = Interp(repo, max_depth=6, extra_models={"Crypto.Cipher._EKSBlowfish.new": m_new}, method_models={"encrypt": m_encrypt})
        it.unroll_limit = 200
        res = it.run(mod, repo.func(mod, "bcrypt"), {"password": pw, "cost": cost, "salt": salt})
        r = res.returns()
        out = bytes(r[0].value) if len(r) == 1 and isinstance(r[0].value, (bytes, bytearray)) and not res.raises() else None
        rows += 1
        pwb = pw.encode("utf-8") if isinstance(pw, str) else pw
        key = pwb + b"\x00" if len(pwb) < 72 else pwb
        ct = b"OrpheanBeholderScryDoubt"
        for _ in range(64):
            ct = hashlib.sha256(b"step" + ct + bytes([len(key)]) + key + bytes([cost]) + salt).digest()[:24]
        want = b"$2a$" + ("%02d" % cost).encode() + b"$" + ref_b64_encode(salt) + ref_b64_encode(ct[:23])
        if out != want or len(want) != 60:
            wrong.append("bcrypt(%r, %d): %r, expected %r" % (pw[:8], cost, out, want))
            continue
        if seen.get("new") != [(key, salt, cost, True)] or seen.get("enc") != 64 or seen.get("first") != b"OrpheanBeholderScryDoubt":
            wrong.append("bcrypt(%r, %d): core set up with %r, %r encryptions starting from %r" % (pw[:8], cost, seen.get("new"), seen.get("enc"), seen.get("first")))
            continue
        # round trip, and a wrong password / a damaged hash
        for what, pw2, h2, ok in (("same password", pw, want, True), ("other password", b"other", want, False),
                                  ("last character changed", pw, want[:-1] + (b"." if want[-1:] != b"." else b"/"), False),
                                  ("cost field changed", pw, want[:4] + (b"06" if cost != 6 else b"07") + want[6:], False)):
            macs = []

            def m_blake(i, a, kw, st, node, macs=macs):
                o = i.new_obj(st, label="mac")
                st.heap[o.ident]["data"] = kw.get("data")
                return o

            def m_digest(i, base, a, kw, st, node):
                d = st.heap.get(getattr(base, "ident", -1), {}).get("data")
                return hashlib.sha256(b"mac" + bytes(d)).digest()[:20] if isinstance(d, (bytes, bytearray)) else ABytes(20)
            it = Interp(repo, max_depth=8, extra_models={"Crypto.Cipher._EKSBlowfish.new": m_new, "Crypto.Hash.BLAKE2s.new": m_blake,
                                                         "Crypto.Random.get_random_bytes": lambda i, a, kw, st, node: bytes(16)},
                        method_models={"encrypt": m_encrypt, "digest": m_digest})
            it.unroll_limit = 200
            res = it.run(mod, repo.func(mod, "bcrypt_check"), {"password": pw2, "bcrypt_hash": h2})
            rows += 1
            accepted = not res.rejected() and not res.raises()
            refused = res.rejected() and set(res.raise_classes()) <= {"ValueError"}
            if ok and not accepted:
                wrong.append("bcrypt_check(pw, bcrypt(pw, %d)) is refused (%s)" % (cost, res.raise_classes()))
            if not ok and not refused:
                wrong.append("bcrypt_check with %s: %s" % (what, "accepted" if accepted else "undecided / raises %s" % res.raise_classes()))
    check.ob("K-pw", "K-pw|bcrypt.assembly", not wrong, mod.path, repo.func(mod, "bcrypt").lineno,
             extracted=("%d rows differ: " % len(wrong) + "; ".join(wrong[:3])) if wrong else "%d rows: $2a$cc$ + 22 + 31 characters from (salt, first 23 bytes of the 64-fold encryption), key = password + NUL (72 bytes as they are); bcrypt_check accepts exactly the matching password and string" % rows,
             expected="the OpenBSD bcrypt string format and key preparation; bcrypt_check(pw, bcrypt(pw)) succeeds, any other password or a modified string raises ValueError")
    check.count("bcrypt_rows", n + rows)


def s2v_sequence_rows(check, repo):
    """_S2V as an object: derive() is an observer (RFC 5297 2.4 is a function of the components given so far), so
    derive() twice, and update .. derive .. update .. derive, give S2V of the respective component lists.  The real
    update / derive / _double code is interpreted with CMAC replaced by a fixed keyed stand-in (SHA-256 of key and
    message, 16 bytes) and compared with the checker's own S2V over that stand-in, for component lengths on both
    sides of the 16-byte boundary (xorend / pad branches), the empty string and the empty vector included."""
    import hashlib
    from ..absint import Interp
    from ..absstate import State

    def mac(key, msg):
        return hashlib.sha256(b"CMAC" + bytes(key) + b"|" + bytes(msg)).digest()[:16]

    def dbl(bs):
        v = int.from_bytes(bs, "big") << 1
        if bs[0] & 0x80:
            v ^= 0x87
        return (v & ((1 << 128) - 1)).to_bytes(16, "big")

    def xor(a, b):
        return bytes(x ^ y for x, y in zip(a, b))

    def ref(key, comps):
        # RFC 5297 2.4 with the library's convention that the zero block is the implicit first string
        strings = [bytes(16)] + list(comps)
        D = bytes(16)
        for sx in strings[:-1]:
            D = xor(dbl(D), mac(key, sx))
        last = strings[-1]
        T = last[:-16] + xor(last[-16:], D) if len(last) >= 16 else xor(dbl(D), (last + b"\x80" + bytes(15))[:16])
        return mac(key, T)
    mod = repo.module(KDF)
    cls = repo.cls(mod, "_S2V")

    def m_cmac_new(i, a, kw, st, node):
        key = a[0] if a else kw.get("key")
        msg = kw.get("msg", a[1] if len(a) > 1 else None)
        ok = isinstance(key, (bytes, bytearray)) and isinstance(msg, (bytes, bytearray))
        return i.new_obj(st, label="cmac", attrs={"out": mac(key, msg) if ok else None})

    def mm_digest(i, base, a, kw, st, node):
        return st.heap.get(getattr(base, "ident", -1), {}).get("out") or ABytes(16)
    key = bytes(range(0x10, 0x30))
    P = lambda n, s: bytes((s + 5 * j) & 0xFF for j in range(n))
    # a history is a list of steps: bytes = update(component), None = derive()
    histories = [
        [None, None], [P(0, 1), None, None], [P(5, 1), None, None], [P(15, 2), None, None], [P(16, 3), None, None], [P(40, 4), None, None],
        [P(5, 1), None, P(7, 2), None], [P(16, 1), None, P(3, 2), None, None], [P(3, 1), P(20, 2), None, P(0, 3), None, P(33, 4), None, None],
        [P(0x10, 0x80), P(1, 0x80), None, None, P(15, 0xFF), None],
    ]
    wrong = []
    n = 0
    for h in histories:
        it = Interp(repo, max_depth=4, extra_models={"Crypto.Hash.CMAC.new": m_cmac_new}, method_models={"digest": mm_digest})
        st = State()
        me = it.new_obj(st, mod, cls, havoc=False)
        cm = it.new_obj(st, label="ciphermod", attrs={"block_size": 16})
        res = it.run(mod, repo.func(mod, "_S2V.__init__"), {"key": key, "ciphermod": cm, "cipher_params": None}, self_obj=me, state=st)
        if len(res.returns()) != 1:
            raise AnalysisError("_S2V.__init__ could not be interpreted")
        cur = res.returns()[0].state
        comps = []
        for k, step in enumerate(h):
            cur.frames = [{}]
            if step is None:
                res = it.run(mod, repo.func(mod, "_S2V.derive"), {}, self_obj=me, state=cur)
            else:
                comps.append(step)
                res = it.run(mod, repo.func(mod, "_S2V.update"), {"item": step}, self_obj=me, state=cur)
            if len(res.returns()) != 1 or res.raises():
                wrong.append("history %s: step %d not decided (%s)" % (_hist(h), k + 1, res.raise_classes()))
                break
            cur = res.returns()[0].state
            if step is None:
                n += 1
                got, want = res.returns()[0].value, ref(key, comps)
                if not isinstance(got, (bytes, bytearray)) or bytes(got) != want:
                    wrong.append("history %s: derive() at step %d returns %s, S2V of the %d components so far is %s" % (
                        _hist(h), k + 1, bytes(got).hex()[:16] if isinstance(got, (bytes, bytearray)) else got, len(comps), want.hex()[:16]))
                    break
    fn = repo.func(mod, "_S2V.derive")
    check.ob("SEG", "SEG|s2v.histories", not wrong, mod.path, fn.lineno,
             extracted=("%d histories differ: " % len(wrong) + "; ".join(wrong[:3])) if wrong else "%d derive() results over %d update/derive histories equal S2V of the components given so far" % (n, len(histories)),
             expected="RFC 5297 2.4: derive() does not alter the accumulator D or the last string (calling it again, or continuing with update(), is well defined)")


def scrypt_composition_rows(check, repo):
    """RFC 7914 6 as a composition: B = PBKDF2(P, S, 1, p*128*r); B_i = ROMix(r, B_i, N) for each of the p blocks;
    DK = PBKDF2(P, B, 1, dkLen) - with PBKDF2 and the native ROMix replaced by fixed tagged functions, for several
    (r, p), key lengths and numbers of keys: which slice reaches which ROMix call, with which length, N and core, in
    which order the results are joined, and how DK is cut into keys."""
    import hashlib
    from ..absint import Interp
    from ..absstate import State
    mod = repo.module(KDF)
    fn = repo.func(mod, "scrypt")

    def expand(tag, n):
        out, c = b"", 0
        while len(out) < n:
            out += hashlib.sha256(tag + c.to_bytes(4, "big")).digest()
            c += 1
        return out[:n]

    def pb(pw, salt, n):
        return expand(b"PBKDF2|" + bytes(pw) + b"|" + bytes(salt) + b"|", n)

    def romix(block, ln, N):
        return expand(b"ROMIX|%d|%d|" % (ln, N) + bytes(block), ln)
    wrong = []
    rows = [(1, 1, 16, 32, 1), (8, 1, 1024, 64, 1), (1, 3, 4, 16, 1), (2, 4, 8, 16, 3), (3, 2, 2, 10, 5), (8, 16, 16, 32, 2), (1, 1, 2, 1, 1)]
    for (r, p_, N, klen, nk) in rows:
        calls = []

        def m_pbkdf2(i, a, kw, st, node):
            pw, salt, dk, cnt = (list(a) + [None] * 4)[:4]
            if not isinstance(pw, (bytes, bytearray)) or not isinstance(salt, (bytes, bytearray)) or not isinstance(dk, int):
                return ABytes(None)
            if cnt != 1 or kw.get("prf") is None and len(a) < 5:
                return b"WRONG-PBKDF2-PARAMETERS"
            return pb(pw, salt, dk)

        def f_romix(i, a, kw, st, node, calls=calls):
            din, dout, ln, n, core = (list(a) + [None] * 5)[:5]
            calls.append((len(din) if isinstance(din, (bytes, bytearray)) else None, ln, n, repr(core)))
            if not isinstance(din, (bytes, bytearray)) or not isinstance(dout, bytearray) or not isinstance(ln, int) or not isinstance(n, int) or len(dout) < ln:
                return Unknown("int")
            dout[:ln] = romix(bytes(din), ln, n)
            return 0
        it = Interp(repo, max_depth=3, extra_models={KDF + ".PBKDF2": m_pbkdf2,
                                                     "Crypto.Util._raw_api.create_string_buffer": lambda i, a, kw, st, node: bytearray(a[0]) if a and isinstance(a[0], int) else UNK,
                                                     "Crypto.Util._raw_api.get_raw_buffer": lambda i, a, kw, st, node: bytes(a[0]) if a and isinstance(a[0], (bytes, bytearray)) else UNK})
        it.ffi_models = {"scryptROMix": f_romix}
        it.for_limit = 100
        pw, salt = b"pass phrase", b"NaCl salt"
        res = it.run(mod, fn, {"password": pw, "salt": salt, "key_len": klen, "N": N, "r": r, "p": p_, "num_keys": nk})
        B = pb(pw, salt, p_ * 128 * r)
        Bp = b"".join(romix(B[j * 128 * r:(j + 1) * 128 * r], 128 * r, N) for j in range(p_))
        dk = pb(pw, Bp, klen * nk)
        want = dk if nk == 1 else [dk[j * klen:(j + 1) * klen] for j in range(nk)]
        rets = res.returns()
        got = rets[0].value if len(rets) == 1 and not res.raises() else ("exits", len(rets), res.raise_classes())
        if isinstance(got, (list, tuple)) and nk > 1 and not (got and got[0] == "exits"):
            got = [bytes(x) if isinstance(x, (bytes, bytearray)) else x for x in got]
        elif isinstance(got, bytearray):
            got = bytes(got)
        if got != want:
            wrong.append("r=%d p=%d N=%d key_len=%d num_keys=%d: %s (ROMix calls: %s)" % (r, p_, N, klen, nk, "result differs from RFC 7914 6" if not (isinstance(got, tuple) and got and got[0] == "exits") else got, calls[:3]))
    check.ob("K-pw", "K-pw|scrypt.composition", not wrong, mod.path, fn.lineno,
             extracted=("%d of %d rows differ: " % (len(wrong), len(rows)) + "; ".join(wrong[:3])) if wrong else "%d (r, p, N, key_len, num_keys) rows: block i of the first PBKDF2 output goes through ROMix with length 128 r and the caller's N, results joined in order, DK cut into num_keys keys" % len(rows),
             expected="RFC 7914 6: B = PBKDF2(P, S, 1, p*128*r), B_i = scryptROMix(r, B_i, N), DK = PBKDF2(P, B, 1, dkLen)")


def _hist(h):
    return "[" + ", ".join("derive" if x is None else "update(%d bytes)" % len(x) for x in h) + "]"


def run(check, ctx):
    repo = ctx.repo
    PRF = ABuiltin("vstat.prf")
    models = {"vstat.prf": m_prf, "Crypto.Hash.HMAC.new": m_hmac_new,
              "functools.reduce": m_reduce, "reduce": m_reduce}
    # ---- PBKDF2 generic path ------------------------------------------------------------
    for dk, c in ((1, 1), (32, 1), (33, 2), (64, 3), (65, 2), (100, 1)):
        run_obs(check, repo, ObsRow(
            "pbkdf2.%d.%d" % (dk, c), "C12", KDF, "PBKDF2", [0], lambda v: {}, ret,
            lambda v, dk=dk, c=c: ref_pbkdf2(b"pw", b"salt", dk, c),
            base={"password": b"pw", "salt": b"salt", "dkLen": dk, "count": c, "prf": PRF,
                  "hmac_hash_module": None},
            models=models, rule="K", max_depth=3,
            what="DK = T1 || T2 ... truncated; Ti = U1 xor ... xor Uc, U1 = PRF(P, S || INT(i)), "
                 "i from 1 as a 4-byte big-endian counter", cite="RFC 8018 5.2"))
    # ---- HKDF ---------------------------------------------------------------------------------
    hm = OBJ(digest_size=HL)
    for L in (1, 32, 33, 64, 65, 254 * HL + 1, 255 * HL - 1, 255 * HL):
        run_obs(check, repo, ObsRow(
            "hkdf.expand.%d" % L, "C12", KDF, "_HKDF_expand", [0], lambda v: {}, ret,
            lambda v, L=L: ref_hkdf_expand(b"PRK", b"info", L),
            base={"prk": b"PRK", "info": b"info", "L": L, "hashmod": hm},
            models=models, method_models={"digest": mm_digest}, rule="K",
            what="T(i) = HMAC(PRK, T(i-1) | info | i) with a one-byte counter from 1; OKM truncated to L",
            cite="RFC 5869 2.3"))
    for key_len, nk, salt, context in ((16, 1, b"s", None), (16, 3, b"s", b"ctx"), (40, 2, b"", b""), (32, 2, None, None)):
        run_obs(check, repo, ObsRow(
            "hkdf.%d.%d.%s" % (key_len, nk, "salt" if salt else "nosalt"), "C12", KDF, "HKDF", [0],
            lambda v: {}, ret,
            lambda v, a=(key_len, salt, nk, context): ref_hkdf(b"master", a[0], a[1], a[2], a[3]),
            base={"master": b"master", "key_len": key_len, "salt": salt, "hashmod": hm,
                  "num_keys": nk, "context": context},
            models=models, method_models={"digest": mm_digest}, rule="K",
            what="PRK = HMAC(salt or hLen zero bytes, IKM); keys are consecutive key_len-byte slices of OKM",
            cite="RFC 5869 2.2/2.3; property C12 (multi-key outputs are consecutive slices)"))
    run_row(check, repo, Row("hkdf.len", "C12", KDF, "HKDF", I(None, 255 * HL), INT("key_len"),
                             base={"master": b"m", "salt": b"s", "hashmod": hm, "num_keys": 1, "context": None},
                             models=models, method_models={"digest": mm_digest}, domain=I(1, None),
                             extra_points=(255 * HL, 255 * HL + 1), max_depth=1,
                             cite="RFC 5869 2.3: L <= 255*HashLen"))
    run_row(check, repo, Row("hkdf.len.multi", "C12", KDF, "HKDF", I(None, 255 * HL // 4), INT("key_len"),
                             base={"master": b"m", "salt": b"s", "hashmod": hm, "num_keys": 4, "context": None},
                             models=models, method_models={"digest": mm_digest}, domain=I(1, None),
                             extra_points=(255 * HL // 4, 255 * HL // 4 + 1), max_depth=1,
                             cite="RFC 5869 2.3 applied to key_len * num_keys"))
    # ---- SP 800-108 counter mode ------------------------------------------------------------------
    for key_len, nk in ((16, None), (40, 1), (20, 3)):
        run_obs(check, repo, ObsRow(
            "sp800108.%d.%s" % (key_len, nk), "C12", KDF, "SP800_108_Counter", [0], lambda v: {}, ret,
            lambda v, a=(key_len, nk): ref_sp800108(b"KI", a[0], a[1] or 1, b"label", b"ctx"),
            base={"master": b"KI", "key_len": key_len, "prf": PRF, "num_keys": nk,
                  "label": b"label", "context": b"ctx"},
            models=models, rule="K",
            what="K(i) = PRF(KI, [i]_32 || Label || 00 || Context || [L]_32), i from 1",
            cite="SP 800-108r1 4.1"))
    nul = [("no NUL", b"ctx", True), ("NUL inside", b"c\x00x", False), ("NUL at the end", b"ctx\x00", False),
           ("empty", b"", True)]
    tbl = dict((c[1], c[2]) for c in nul)
    run_row(check, repo, Row("sp800108.nul", "C12", KDF, "SP800_108_Counter",
                             Pred(lambda c: tbl[c], "context without a zero byte"),
                             lambda c: {"args": {"context": c}},
                             base={"master": b"KI", "key_len": 16, "prf": PRF, "num_keys": None, "label": b"l"},
                             models=models, cases=[(c[0], c[1]) for c in nul],
                             cite="SP 800-108: 00 separates Label and Context"))
    # ---- PBKDF1 -------------------------------------------------------------------------------------
    HM = OBJ()
    for dk, count in ((8, 1), (16, 3), (32, 2)):
        run_obs(check, repo, ObsRow(
            "pbkdf1.%d.%d" % (dk, count), "C12", KDF, "PBKDF1", [0], lambda v: {}, ret,
            lambda v, a=(dk, count): ref_pbkdf1(b"pw", b"saltsalt", a[0], a[1]),
            base={"password": b"pw", "salt": b"saltsalt", "dkLen": dk, "count": count, "hashAlgo": HM},
            method_models={"new": mm_hash_new, "digest": mm_digest}, rule="K",
            what="T1 = Hash(P || S), Ti = Hash(Ti-1), DK = Tc<0..dkLen-1>", cite="RFC 8018 5.1"))
    run_row(check, repo, Row("pbkdf1.dklen", "C12", KDF, "PBKDF1", I(None, HL), INT("dkLen"),
                             base={"password": b"pw", "salt": b"saltsalt", "count": 1, "hashAlgo": HM},
                             method_models={"new": mm_hash_new, "digest": mm_digest},
                             domain=I(0, None), extra_points=(HL, HL + 1), exc="TypeError",
                             also_ok_exc=("ValueError",), cite="RFC 8018 5.1 step 1: dkLen <= hLen"))
    run_row(check, repo, Row("pbkdf1.count", "C12", KDF, "PBKDF1", I(1, None), INT("count"),
                             base={"password": b"pw", "salt": b"saltsalt", "dkLen": 16, "hashAlgo": HM},
                             method_models={"new": mm_hash_new, "digest": mm_digest},
                             domain=I(-3, 40), extra_points=(-1, 0, 1, 2), exact=False,
                             cite="RFC 8018 5.1: the iteration count c is a positive integer (a count <= 0 must not be computed as c = 1)"))
    run_row(check, repo, Row("pbkdf1.salt", "C12", KDF, "PBKDF1", S(8), LEN("salt"),
                             base={"password": b"pw", "dkLen": 16, "count": 1, "hashAlgo": HM},
                             method_models={"new": mm_hash_new, "digest": mm_digest},
                             cite="RFC 8018 5.1: eight-octet salt"))
    # ---- scrypt parameter domain ------------------------------------------------------------------------
    pw2 = set(1 << k for k in range(1, 32))
    ncases = [0, 2, 3, 4, 5, 6, 7, 8, 1023, 1024, 1025, 1 << 31, (1 << 31) + 1, 1 << 32, 1 << 33, (1 << 32) - 1, -2, -4]
    run_row(check, repo, Row("scrypt.N", "C12", KDF, "scrypt",
                             Pred(lambda n: n in pw2, "power of two, 2 <= N < 2^32"),
                             lambda n: {"args": {"N": n}},
                             base={"password": b"pw", "salt": b"s", "key_len": 16, "r": 8, "p": 1, "num_keys": 1},
                             models={"Crypto.Protocol.KDF.PBKDF2": lambda i, a, kw, st, node: ABytes(None)},
                             cases=[(str(n), n) for n in ncases], max_depth=1,
                             cite="RFC 7914 2: N a power of two larger than 1; the native ROMix takes a 32-bit N"))
    for r in (8, 1):
        lim = ((2 ** 32 - 1) * 32) // (128 * r)
        run_row(check, repo, Row("scrypt.p.%d" % r, "C12", KDF, "scrypt", I(1, lim), INT("p"),
                                 base={"password": b"pw", "salt": b"s", "key_len": 16, "N": 1024, "r": r, "num_keys": 1},
                                 models={"Crypto.Protocol.KDF.PBKDF2": lambda i, a, kw, st, node: ABytes(None)},
                                 extra_points=(-1, 0, 1, lim, lim + 1), max_depth=1,
                                 cite="RFC 7914 2: p a positive integer <= ((2^32-1) * 32) / (128 * r) (p <= 0 would skip the memory-hard stage: the key no longer depends on the salt)"))
    run_row(check, repo, Row("scrypt.r", "C12", KDF, "scrypt", I(1, None), INT("r"),
                             base={"password": b"pw", "salt": b"s", "key_len": 16, "N": 1024, "p": 1, "num_keys": 1},
                             models={"Crypto.Protocol.KDF.PBKDF2": lambda i, a, kw, st, node: ABytes(None)},
                             domain=I(-4, 64), extra_points=(-1, 0, 1, 8), max_depth=1, exact=False,
                             cite="RFC 7914 2: the block size parameter r is a positive integer"))
    # ---- bcrypt -----------------------------------------------------------------------------------------------
    ekm = {"Crypto.Cipher._EKSBlowfish.new": lambda i, a, kw, st, node: i.new_obj(st, label="eks")}
    run_row(check, repo, Row("bcrypt.cost", "C12", KDF, "bcrypt", I(4, 31), INT("cost"),
                             base={"password": b"pw", "salt": B(16)}, models=ekm, max_depth=2,
                             cite="bcrypt: cost 4..31"))
    run_row(check, repo, Row("bcrypt.salt", "C12", KDF, "bcrypt", S(16), LEN("salt"),
                             base={"password": b"pw", "cost": 10}, models=ekm, max_depth=2,
                             cite="bcrypt: 128-bit salt"))
    pws = [("72 bytes", b"a" * 72, True), ("73 bytes", b"a" * 73, False), ("71 bytes", b"a" * 71, True),
           ("empty", b"", True), ("NUL inside", b"a\x00b", False), ("NUL at the end", b"ab\x00", False),
           ("NUL first", b"\x00ab", False)]
    tb = dict((c[1], c[2]) for c in pws)
    run_row(check, repo, Row("bcrypt.password", "C12", KDF, "bcrypt",
                             Pred(lambda c: tb[c], "at most 72 bytes, no zero byte"),
                             lambda c: {"args": {"password": c}}, base={"cost": 10, "salt": B(16)},
                             models=ekm, cases=[(c[0], c[1]) for c in pws], max_depth=2,
                             cite="bcrypt: 72-byte key limit; NUL-terminated key"))
    # the cipher under bcrypt accepts every key bcrypt can build: 1..72 bytes (password + NUL, or 72 bytes as they are)
    EKS = "Crypto.Cipher._EKSBlowfish"
    run_row(check, repo, Row("eksblowfish.keylen", "C12", EKS, "_create_base_cipher", I(1, 72),
                             lambda v: {"args": {"dict_parameters": {"key": bytes(v), "salt": bytes(16), "cost": 10, "invert": True}}},
                             domain=I(0, 80), extra_points=(0, 1, 71, 72, 73), max_depth=1,
                             cite="bcrypt keys are 1..72 bytes long (the 72-byte limit is enforced by bcrypt() itself); the key is read cyclically, so the empty key is refused as well (see the C17 guard rows)"))
    # the terminating NUL is appended only below 72 bytes
    seen = {}

    def m_eks(i, a, kw, st, node):
        seen["pw"] = a[0] if a else None
        return i.new_obj(st, label="eks")
    for n in (0, 5, 71, 72):
        def vary(v):
            seen.clear()
            return {}
        run_obs(check, repo, ObsRow(
            "bcrypt.nul.%d" % n, "C12", KDF, "bcrypt", [0], vary, lambda res, it: seen.get("pw"),
            lambda v, n=n: b"a" * n + (b"\x00" if n < 72 else b""),
            base={"password": b"a" * n, "cost": 10, "salt": B(16)},
            models={"Crypto.Cipher._EKSBlowfish.new": m_eks}, max_depth=2, rule="K-pw",
            what="key = password || 00, except that a 72-byte password is used as is",
            cite="bcrypt (OpenBSD): at most 72 key bytes including the terminating NUL"))
    run_row(check, repo, Row("bcrypt_check.len", "C12", KDF, "bcrypt_check", S(60), LEN("bcrypt_hash"),
                             base={"password": b"pw"}, extra_points=(59, 60, 61), max_depth=1,
                             cite="60-character bcrypt string"))
    info = check_verify(check, repo, KDF, "bcrypt_check", "bcrypt_hash", ("nothing",), keyprefix="V",
                        expected_locals=("bcrypt_hash2",))
    bcrypt_value_rows(check, repo)
    s2v_sequence_rows(check, repo)
    scrypt_composition_rows(check, repo)
    # a password / salt handed in as a bytearray is read, never extended or overwritten (bcrypt appends a NUL to a copy)
    from .c19_extra import argument_mutation, KDF_ENTRIES
    argument_mutation(check, repo, entries=KDF_ENTRIES)
    # HMAC key preparation is part of PBKDF2/HKDF's specification (RFC 2104)
    from .c03_extra import hmac_rows
    hmac_rows(check, repo, prop="C12")
    # the native PBKDF2 inner loops with an uninterpreted hash
    from . import c_pbkdf2
    c_pbkdf2.pbkdf2_tables(check, ctx)
    # the native scrypt ROMix and its Salsa20/8 core against RFC 7914
    from . import c_salsa
    c_salsa.salsa_tables(check, ctx, groups=("scrypt",))
    # the hashes under the KDFs (PBKDF1/2, HKDF): padding for every message value and digests on the message table
    from . import c_md, c_digest
    c_md.md_tables(check, ctx, groups=("pad",))
    c_digest.digest_tables(check, ctx, groups=("md",))
    # the native bcrypt key schedule against an independent reference (tables = digits of pi)
    from . import c_kat
    c_kat.eks_tables(check, ctx)
    check.floor("K-sym", 6)
    check.undecided.append("EKSBlowfish outside the (key length, cost, salt) rows; scrypt ROMix outside the (r, N) table; "
                           "the hash and MAC functions themselves (C03)")
