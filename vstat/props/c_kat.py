"""Block and stream cipher primitives on the C evaluator (C02): published
known-answer vectors of the standards, interpreted through the same native
entry points the Python layer uses (X_start_operation, then the BlockBase
encrypt/decrypt function pointers), plus the structural rows that depend on
the key length (CAST-128 round count, accepted key sizes).

A round function is straight-line code over tables and rotations: a single
vector exercises every operation of it, so a wrong constant, S-box entry, round
count or rotation shows on the vector.  What is decided is exactly these
vectors (both directions) - not equality with the specification for all keys.
The pinned pytest suite does not collect the library's own vector tests for
several of these ciphers, which is why the rows are kept.
"""
from ..ceval import CProgram, Machine, CError, Undecided, P, CT, Shard, run_sharded, VOID, FRef, resolve
from ..core import AnalysisError

PTR = CT("ptr", 8, to=VOID)
h = bytes.fromhex

# (cipher, src, start function, key, plaintext, ciphertext, citation)
BLOCK_VECTORS = [
    ("AES", "src/AES.c", "AES_start_operation", h("000102030405060708090a0b0c0d0e0f"), h("00112233445566778899aabbccddeeff"),
     h("69c4e0d86a7b0430d8cdb78070b4c55a"), "FIPS 197 C.1"),
    ("AES", "src/AES.c", "AES_start_operation", h("000102030405060708090a0b0c0d0e0f1011121314151617"), h("00112233445566778899aabbccddeeff"),
     h("dda97ca4864cdfe06eaf70a0ec0d7191"), "FIPS 197 C.2"),
    ("AES", "src/AES.c", "AES_start_operation", h("000102030405060708090a0b0c0d0e0f101112131415161718191a1b1c1d1e1f"),
     h("00112233445566778899aabbccddeeff"), h("8ea2b7ca516745bfeafc49904b496089"), "FIPS 197 C.3"),
    ("AES", "src/AES.c", "AES_start_operation", h("2b7e151628aed2a6abf7158809cf4f3c"), h("6bc1bee22e409f96e93d7e117393172a"),
     h("3ad77bb40d7a3660a89ecaf32466ef97"), "SP 800-38A F.1.1"),
    ("DES", "src/DES.c", "DES_start_operation", h("133457799bbcdff1"), h("0123456789abcdef"), h("85e813540f0ab405"), "the classic worked example"),
    ("DES", "src/DES.c", "DES_start_operation", h("0101010101010101"), h("8000000000000000"), h("95f8a5e5dd31d900"), "NBS SP 500-20 IP/E test"),
    ("DES3", "src/DES3.c", "DES3_start_operation", h("133457799bbcdff1") * 3, h("0123456789abcdef"), h("85e813540f0ab405"), "EDE with K1=K2=K3 is single DES"),
    ("DES3", "src/DES3.c", "DES3_start_operation", h("133457799bbcdff1") * 2, h("0123456789abcdef"), h("85e813540f0ab405"), "two-key EDE with K1=K2 is single DES"),
    ("CAST", "src/CAST.c", "CAST_start_operation", h("0123456712345678234567893456789a"), h("0123456789abcdef"), h("238b4fe5847e44b2"), "RFC 2144 B.1 (128 bits)"),
    ("CAST", "src/CAST.c", "CAST_start_operation", h("01234567123456782345"), h("0123456789abcdef"), h("eb6a711a2c02271b"), "RFC 2144 B.1 (80 bits)"),
    ("CAST", "src/CAST.c", "CAST_start_operation", h("0123456712"), h("0123456789abcdef"), h("7ac816d16e9b302e"), "RFC 2144 B.1 (40 bits)"),
    ("Blowfish", "src/blowfish.c", "Blowfish_start_operation", h("0000000000000000"), h("0000000000000000"), h("4ef997456198dd78"), "Schneier's vectors"),
    ("Blowfish", "src/blowfish.c", "Blowfish_start_operation", h("ffffffffffffffff"), h("ffffffffffffffff"), h("51866fd5b85ecb8a"), "Schneier's vectors"),
    ("Blowfish", "src/blowfish.c", "Blowfish_start_operation", h("0123456789abcdef"), h("1111111111111111"), h("61f9c3802281b096"), "Schneier's vectors"),
]

ARC2_VECTORS = [  # key, effective bits, pt, ct  (RFC 2268 section 5)
    (h("0000000000000000"), 63, h("0000000000000000"), h("ebb773f993278eff")),
    (h("ffffffffffffffff"), 64, h("ffffffffffffffff"), h("278b27e42e2f0d49")),
    (h("3000000000000000"), 64, h("1000000000000001"), h("30649edf9be7d2c2")),
    (h("88bca90e90875a"), 64, h("0000000000000000"), h("6ccf4308974c267f")),
    (h("88bca90e90875a7f0f79c384627bafb2"), 64, h("0000000000000000"), h("1a807d272bbe5db1")),
    (h("88bca90e90875a7f0f79c384627bafb2"), 128, h("0000000000000000"), h("2269552ab0f85ca6")),
]

ARC4_VECTORS = [
    (b"Key", b"Plaintext", h("bbf316e8d940af0ad3")),
    (b"Wiki", b"pedia", h("1021bf0420")),
    (b"Secret", b"Attack at dawn", h("45a01f645fc35b383552544b9bf5")),
]


def _start(m, fn, args):
    pp = m.alloc(8, "pResult", "heap", init=0)
    rc = m.call(fn, list(args) + [pp])
    return rc, m.load(pp, PTR)


def _blockbase_call(m, st, field, data):
    bb = resolve(m.tu.parse("BlockBase"))
    off, ft = bb.fields[field]
    f = m.load(P(st.obj, st.off + off), ft)
    if not isinstance(f, FRef):
        raise CError("contract", "BlockBase.%s is not a function pointer (%r)" % (field, f))
    src = m.alloc_bytes(list(data), "in")
    dst = m.alloc(len(data), "out", "heap", init=None)
    rc = m.call(f.name, [st, src, dst, len(data)])
    return rc, (m.concrete_bytes(dst, len(data)) if rc == 0 else None)


def _stop(m, st):
    bb = resolve(m.tu.parse("BlockBase"))
    off, ft = bb.fields["destructor"]
    f = m.load(P(st.obj, st.off + off), ft)
    m.call(f.name, [st])
    live = [o for o in m.objs.values() if o.kind == "heap" and not o.freed and o.name.startswith(("calloc", "malloc", "posix"))]
    return live


def block_rows(prog, sh=None):
    sh = sh or Shard()
    wrong = []
    n = 0
    for (name, src, start, key, pt, ct, cite) in BLOCK_VECTORS:
        if not sh.take():
            continue
        m = Machine(prog, src, budget=80000000)
        if name == "Blowfish":
            rc, st = _start(m, start, [m.alloc_bytes(list(key), "key"), len(key)])
        else:
            rc, st = _start(m, start, [m.alloc_bytes(list(key), "key"), len(key)])
        n += 1
        if rc != 0:
            wrong.append("%s (%s): start_operation refuses a %d-byte key with code %r" % (name, cite, len(key), rc))
            continue
        rc, got = _blockbase_call(m, st, "encrypt", pt + pt)
        if rc or got != ct + ct:
            wrong.append("%s (%s): E(%s) = %s, the standard gives %s" % (name, cite, pt.hex(), got.hex() if got else rc, ct.hex()))
        rc, got = _blockbase_call(m, st, "decrypt", ct)
        if rc or got != pt:
            wrong.append("%s (%s): D(%s) = %s, the standard gives %s" % (name, cite, ct.hex(), got.hex() if got else rc, pt.hex()))
        live = _stop(m, st)
        if live:
            wrong.append("%s: stop_operation leaves %s allocated" % (name, live[0].name))
        bad = [x for x in m.events if x[0] in ("bad-shift", "signed-overflow", "uninit-read", "overlap")]
        if bad:
            wrong.append("%s (%s): %s (line %s)" % (name, cite, bad[0][1], bad[0][2]))
    for (key, eff, pt, ct) in ARC2_VECTORS:
        if not sh.take():
            continue
        m = Machine(prog, "src/ARC2.c", budget=20000000)
        rc, st = _start(m, "ARC2_start_operation", [m.alloc_bytes(list(key), "key"), len(key), eff])
        n += 1
        if rc != 0:
            wrong.append("ARC2 (RFC 2268): start_operation refuses key %s / %d effective bits with code %r" % (key.hex(), eff, rc))
            continue
        rc, got = _blockbase_call(m, st, "encrypt", pt)
        rc2, back = _blockbase_call(m, st, "decrypt", ct)
        if rc or rc2 or got != ct or back != pt:
            wrong.append("ARC2 key %s, %d effective bits: E = %s / D = %s, RFC 2268 gives %s / %s" % (
                key.hex(), eff, got.hex() if got else rc, back.hex() if back else rc2, ct.hex(), pt.hex()))
    for (key, pt, ct) in ARC4_VECTORS:
        if not sh.take():
            continue
        m = Machine(prog, "src/ARC4.c", budget=20000000)
        pp = m.alloc(8, "pState", "heap", init=0)
        rc = m.call("ARC4_stream_init", [m.alloc_bytes(list(key), "key"), len(key), pp])
        st = m.load(pp, PTR)
        n += 1
        out = m.alloc(len(pt), "out", "heap", init=None)
        # in two pieces: the stream position must carry over
        k = len(pt) // 2
        src = m.alloc_bytes(list(pt), "in")
        rc1 = m.call("ARC4_stream_encrypt", [st, src, out, k])
        rc2 = m.call("ARC4_stream_encrypt", [st, P(src.obj, k), P(out.obj, k), len(pt) - k])
        got = m.concrete_bytes(out, len(pt)) if not (rc or rc1 or rc2) else None
        if got != ct:
            wrong.append("ARC4 key %r: %s, expected %s" % (key, got.hex() if got else (rc, rc1, rc2), ct.hex()))
    return n, wrong


def keysize_rows(prog, sh=None):
    """Key-length dependent structure: accepted sizes, CAST-128 rounds (RFC 2144 2.5: 12 rounds up to 80 bits)."""
    sh = sh or Shard()
    wrong = []
    n = 0
    accept = {"AES": (lambda k: k in (16, 24, 32), "src/AES.c", "AES_start_operation"),
              "DES": (lambda k: k == 8, "src/DES.c", "DES_start_operation"),
              "DES3": (lambda k: k in (16, 24), "src/DES3.c", "DES3_start_operation"),
              "CAST": (lambda k: 5 <= k <= 16, "src/CAST.c", "CAST_start_operation"),
              "Blowfish": (lambda k: 4 <= k <= 56, "src/blowfish.c", "Blowfish_start_operation")}
    for name, (ok, src, start) in sorted(accept.items()):
        for klen in (0, 1, 3, 4, 5, 7, 8, 9, 10, 11, 12, 15, 16, 17, 23, 24, 25, 31, 32, 33, 56, 57, 64):
            if name == "Blowfish" and klen > 16 and klen not in (56, 57):
                continue
            if not sh.take():
                continue
            m = Machine(prog, src, budget=80000000)
            rc, st = _start(m, start, [m.alloc_bytes([((i * 29 + 7) & 0xFE) | 1 for i in range(max(klen, 1))], "key"), klen])
            n += 1
            if (rc == 0) != ok(klen):
                wrong.append("%s: a %d-byte key is %s (code %r)" % (name, klen, "accepted" if rc == 0 else "refused", rc))
                continue
            if rc == 0 and name == "CAST":
                t = resolve(m.tu.parse("CAST_State"))
                off, at = t.fields["algo_state"]
                at = resolve(at)
                if "rounds" in at.fields:
                    roff, rt = at.fields["rounds"]
                    rounds = m.load(P(st.obj, st.off + off + roff), rt)
                    want = 12 if klen <= 10 else 16
                    if rounds != want:
                        wrong.append("CAST-128 with a %d-bit key uses %r rounds, RFC 2144 2.5 prescribes %d" % (8 * klen, rounds, want))
                else:
                    raise Undecided("CAST state has no 'rounds' field any more")
            if rc != 0:
                live = [o for o in m.objs.values() if o.kind == "heap" and not o.freed and o.name.startswith(("calloc", "malloc"))]
                if live:
                    wrong.append("%s: a refused %d-byte key leaves %s allocated" % (name, klen, live[0].name))
    return n, wrong


def kat_tables(check, ctx, rule="K-kat"):
    prog = CProgram(ctx.cdb)
    groups = (("vectors", "block_rows", "AES (FIPS 197 C.1-3, SP 800-38A), DES, two- and three-key TDES, CAST-128 (RFC 2144 B.1, all three key sizes), Blowfish, ARC2 (RFC 2268 5), ARC4: published vectors, both directions, through the native entry points", 16),
              ("key_sizes", "keysize_rows", "accepted key sizes of AES/DES/TDES/CAST/Blowfish; CAST-128 runs 12 rounds for keys up to 80 bits and 16 above (RFC 2144 2.5); a refused key leaks nothing", 16))
    total = 0
    for key, fname, what, shards in groups:
        res = run_sharded(ctx.root, prog, __name__, [fname], shards=shards)
        n, wrong, und = res[fname]
        if und:
            raise AnalysisError("C evaluator could not decide cipher %s rows: %s" % (key, und))
        total += n
        check.ob(rule, "%s|c|ciphers.%s" % (rule, key), not wrong, "src/", 0,
                 extracted=("%d of %d rows differ: " % (len(wrong), n) + "; ".join(wrong[:3])) if wrong else "%d rows equal to the published values" % n,
                 expected=what)
    check.count("c_kat_rows", total)
    return total


def _eks_cases(thorough=False):
    """(key, salt, cost, invert): key lengths at the ends of the range, at and off the word boundary and longer than the
    18-word P-array's first wrap; costs 0..2 (the loop count is 1 << cost, so 2 shows the shift, not a multiplication)."""
    salt = bytes((i * 37 + 11) & 255 for i in range(16))
    def key(n):
        return bytes(((i * 29 + 7) & 0xFE) | 1 for i in range(n))
    cases = []
    for klen in (1, 3, 4, 5, 18, 55, 71, 72):
        cases.append((key(klen), salt, 0, 1))
    cases.append((key(9), salt, 0, 0))
    cases.append((key(9), salt, 1, 0))
    cases.append((key(9), salt, 1, 1))
    if thorough:
        cases.append((key(72), salt, 2, 1))
        cases.append((key(17), salt, 3, 0))
    cases.append((b"U*U\x00", bytes(range(0x80, 0x90)), 1, 1))
    cases.append((key(6), bytes([0xFF] * 16), 0, 1))          # every salt word has the top bit set
    cases.append((key(6), salt[:8], 0, 1))                    # a salt shorter than one pass: read cyclically
    return cases


def eks_rows_thorough(prog, sh=None):
    return eks_rows(prog, sh, thorough=True)


def eks_rows(prog, sh=None, thorough=False):
    """The native bcrypt key schedule (blowfish.c compiled with EKS) against spec/blowfish_ref.py: the whole state after
    EksBlowfishSetup (P-array and S-boxes), ECB encryption and decryption under it, refusal of a 73-byte key."""
    from ..spec import blowfish_ref as ref
    sh = sh or Shard()
    wrong = []
    n = 0
    try:
        ref.self_check()
    except AssertionError as e:
        raise Undecided("the Blowfish reference fails its own published vectors: %s" % e)
    src = "src/blowfish_eks.c"
    for (key, salt, cost, invert) in _eks_cases(thorough):
        if not sh.take():
            continue
        m = Machine(prog, src, budget=400000000)
        rc, st = _start(m, "EKSBlowfish_start_operation",
                        [m.alloc_bytes(list(key), "key"), len(key), m.alloc_bytes(list(salt), "salt"), len(salt), cost, invert])
        n += 1
        tag = "EksBlowfishSetup(cost %d, %d-byte key, %d-byte salt, invert=%d)" % (cost, len(key), len(salt), invert)
        if rc != 0:
            wrong.append("%s refused with code %r" % (tag, rc))
            continue
        P, S = ref.eks_setup(key, salt, cost, bool(invert))
        t = resolve(m.tu.parse("EKSBlowfish_State"))
        off, at = t.fields["algo_state"]
        at = resolve(at)
        got = {}
        for fld, cnt in (("S", 1024), ("P", 18)):
            foff, ft = at.fields[fld]
            raw = m.concrete_bytes(P_(st, off + foff), 4 * cnt)
            got[fld] = [int.from_bytes(raw[4 * i:4 * i + 4], "little") for i in range(cnt)]
        if got["P"] != P:
            i = [a != b for a, b in zip(got["P"], P)].index(True)
            wrong.append("%s: P[%d] = %08x, the specification gives %08x" % (tag, i, got["P"][i], P[i]))
            continue
        flatS = [w for box in S for w in box]
        if got["S"] != flatS:
            i = [a != b for a, b in zip(got["S"], flatS)].index(True)
            wrong.append("%s: S[%d][%d] = %08x, the specification gives %08x" % (tag, i // 256, i % 256, got["S"][i], flatS[i]))
            continue
        pt = b"OrpheanBeholderScryDoubt"
        want = ref.ecb(P, S, pt)
        rc, ct = _blockbase_call(m, st, "encrypt", pt)
        if rc or ct != want:
            wrong.append("%s: E(%r) = %s, the specification gives %s" % (tag, pt, ct.hex() if ct else rc, want.hex()))
        rc, back = _blockbase_call(m, st, "decrypt", want)
        if rc or back != pt:
            wrong.append("%s: D(E(x)) = %s, not x" % (tag, back.hex() if back else rc))
        live = _stop(m, st)
        if live:
            wrong.append("%s: stop_operation leaves %s allocated" % (tag, live[0].name))
        bad = [x for x in m.events if x[0] in ("bad-shift", "signed-overflow", "uninit-read", "overlap")]
        if bad:
            wrong.append("%s: %s (line %s)" % (tag, bad[0][1], bad[0][2]))
    if sh.take():
        m = Machine(prog, src, budget=20000000)
        rc, st = _start(m, "EKSBlowfish_start_operation",
                        [m.alloc_bytes([1] * 73, "key"), 73, m.alloc_bytes([2] * 16, "salt"), 16, 0, 1])
        n += 1
        if rc == 0:
            wrong.append("a 73-byte key is accepted (bcrypt uses at most 72 bytes; xorP would read only a prefix silently)")
    return n, wrong


def P_(st, off):
    return P(st.obj, st.off + off)


def eks_tables(check, ctx, rule="K-pw"):
    prog = CProgram(ctx.cdb)
    fname = "eks_rows_thorough" if ctx.tier == "thorough" else "eks_rows"
    res = run_sharded(ctx.root, prog, __name__, [fname], shards=16)
    n, wrong, und = res[fname]
    if und:
        raise AnalysisError("C evaluator could not decide the EKSBlowfish rows: %s" % (und,))
    check.ob(rule, "%s|c|eksblowfish.setup" % rule, not wrong, "src/blowfish.c", 0,
             extracted=("%d of %d rows differ: " % (len(wrong), n) + "; ".join(wrong[:3])) if wrong else
             "%d rows: whole key-schedule state and ECB output equal to the reference" % n,
             expected="EksBlowfishSetup (Provos-Mazieres 1999, OpenBSD order when invert) through EKSBlowfish_start_operation: "
                      "P-array and S-boxes equal to an independent reference whose initial tables are computed as the digits "
                      "of pi and which reproduces Schneier's vector and the OpenBSD bcrypt vector for 'U*U'; key lengths 1..72 "
                      "around the word and P-array boundaries, costs 0..1 (0..3 in the thorough tier), both loop orders, a short salt; 73 bytes refused")
    check.count("c_eks_rows", n)
    return n


def eks_guard_rows(prog, sh=None):
    """Lengths the bcrypt key schedule cannot take (key and salt are read cyclically, xorP copies min(len, rest) bytes
    until the P-array is full): 0-byte key, 0-byte salt, 73-byte key.  Each must be refused before any access; an
    out-of-bounds read or a loop that makes no progress (step budget) is the violation."""
    sh = sh or Shard()
    wrong = []
    n = 0
    for klen, slen in ((0, 16), (1, 0), (0, 0), (73, 16), (72, 1), (1, 16)):
        if not sh.take():
            continue
        ok_expected = 1 <= klen <= 72 and slen >= 1
        m = Machine(prog, "src/blowfish_eks.c", budget=60000000)
        n += 1
        tag = "EKSBlowfish_start_operation with a %d-byte key and a %d-byte salt" % (klen, slen)
        try:
            rc, st = _start(m, "EKSBlowfish_start_operation",
                            [m.alloc_bytes([0x41] * klen, "key"), klen, m.alloc_bytes([0x42] * slen, "salt"), slen, 0, 1])
        except Undecided as e:
            if "budget" in str(e) and not ok_expected:
                wrong.append("%s makes no progress (no refusal within the step budget: the cyclic copy never advances)" % tag)
                continue
            raise
        except CError as e:
            wrong.append("%s: %s" % (tag, e))
            continue
        if (rc == 0) != ok_expected:
            wrong.append("%s is %s (code %r)" % (tag, "accepted" if rc == 0 else "refused", rc))
    return n, wrong


def eks_guard_tables(check, ctx, rule="G-c"):
    prog = CProgram(ctx.cdb)
    res = run_sharded(ctx.root, prog, __name__, ["eks_guard_rows"], shards=6)
    n, wrong, und = res["eks_guard_rows"]
    if und:
        raise AnalysisError("C evaluator could not decide the EKSBlowfish guard rows: %s" % (und,))
    check.ob(rule, "%s|c|eksblowfish.lengths" % rule, not wrong, "src/blowfish.c", 0,
             extracted=("%d of %d rows differ: " % (len(wrong), n) + "; ".join(wrong[:3])) if wrong else
             "%d rows: empty key, empty salt and 73-byte key refused before any access; 1..72 / >= 1 accepted" % n,
             expected="key length 1..72 and a non-empty salt, anything else refused with an error code (the Python layer turns it into ValueError)")
    check.count("c_eks_guard_rows", n)
    return n
