"""src/raw_ocb.c on the C evaluator (C01, C02, C09): OCB3 as RFC 7253 defines it.

OCB doubles blocks in GF(2^128) (a shift with a conditional constant), so the
block cipher cannot stay symbolic as in the SP 800-38A modes: it is replaced by
a *concrete* bijection of the checker (a 4-round Feistel network over SHA-256,
inverse included).  The native code is then interpreted on messages and
associated data of every length class (empty, partial block, whole blocks,
whole blocks + partial), fed in one piece or in block-aligned pieces as the
Python layer does, from several block counters (so that ntz() is exercised up
to bit 40 without processing 2^40 blocks: the counter field of the state is
set directly), in both directions, and ciphertext and tag are compared with
RFC 7253 section 4 written with Python ints over the same bijection.  The
initial offset comes from the Python layer (decided by K-pw|ocb.offset0).
"""
import hashlib

from ..ceval import CProgram, Machine, CError, Undecided, P, CT, Shard, run_sharded, VOID, resolve
from ..core import AnalysisError
from .. import cmodes

SRC = "src/raw_ocb.c"
PTR = CT("ptr", 8, to=VOID)


def toy_E(block, inv=False):
    L, R = bytes(block[:8]), bytes(block[8:])
    if inv:
        for r in (3, 2, 1, 0):
            L, R = bytes(x ^ y for x, y in zip(R, hashlib.sha256(b"O%d" % r + L).digest()[:8])), L
        return L + R
    for r in range(4):
        L, R = R, bytes(x ^ y for x, y in zip(L, hashlib.sha256(b"O%d" % r + R).digest()[:8]))
    return L + R


class ToyCipher(cmodes.Cipher):
    def E(self, block):
        if not all(isinstance(c, int) for c in block):
            raise Undecided("block cipher input is not concrete")
        return list(toy_E(bytes(block)))

    def D(self, block):
        if not all(isinstance(c, int) for c in block):
            raise Undecided("block cipher input is not concrete")
        return list(toy_E(bytes(block), inv=True))


# ---------------------------------------------------------------------------------------------- RFC 7253 section 4
def _double(b):
    v = int.from_bytes(b, "big") << 1
    if v >> 128:
        v = (v & ((1 << 128) - 1)) ^ 0x87
    return v.to_bytes(16, "big")


def _xor(a, b):
    return bytes(x ^ y for x, y in zip(a, b))


def _ntz(i):
    n = 0
    while not i & 1:
        i >>= 1
        n += 1
    return n


class RefOcb(object):
    def __init__(self, offset0, start_p=1, start_a=1):
        self.Lstar = toy_E(bytes(16))
        self.Ldollar = _double(self.Lstar)
        self.L = [_double(self.Ldollar)]
        for _ in range(64):
            self.L.append(_double(self.L[-1]))
        self.offset = offset0
        self.start_p, self.start_a = start_p, start_a

    def hash(self, A):
        s, off = bytes(16), bytes(16)
        i = self.start_a
        while len(A) >= 16:
            off = _xor(off, self.L[_ntz(i)])
            s = _xor(s, toy_E(_xor(A[:16], off)))
            A = A[16:]
            i += 1
        if A:
            off = _xor(off, self.Lstar)
            s = _xor(s, toy_E(_xor(A + b"\x80" + bytes(15 - len(A)), off)))
        return s

    def crypt(self, data, A, decrypt):
        off, chk = self.offset, bytes(16)
        out = b""
        i = self.start_p
        while len(data) >= 16:
            off = _xor(off, self.L[_ntz(i)])
            blk = data[:16]
            o = _xor(off, toy_E(_xor(blk, off), inv=decrypt))
            chk = _xor(chk, o if decrypt else blk)
            out += o
            data = data[16:]
            i += 1
        if data:
            off = _xor(off, self.Lstar)
            pad = toy_E(off)
            o = _xor(data, pad[:len(data)])
            pt = o if decrypt else data
            chk = _xor(chk, pt + b"\x80" + bytes(15 - len(pt)))
            out += o
        tag = _xor(toy_E(_xor(_xor(chk, off), self.Ldollar)), self.hash(A))
        return out, tag


def _field(m, name):
    st = resolve(m.tu.parse("OcbModeState"))
    return st.fields[name]


def _pat(n, s):
    return bytes((s + 13 * i) & 0xFF for i in range(n))


LENGTHS = (0, 1, 15, 16, 17, 31, 32, 33, 48, 64, 69, 128, 133)
AAD = (0, 1, 16, 17, 40, 64)
# every value of ntz() is reached: a row starting at block counter 2^k - 1 processes the blocks 2^k - 1, 2^k, 2^k + 1
STARTS = (1, 2, 7, (1 << 16) - 2) + tuple((1 << k) - 1 for k in range(3, 64))


def _pieces(n, how):
    """Block-aligned pieces followed by the last partial piece (what _mode_ocb.py hands down)."""
    whole = n - n % 16
    if how == "one":
        return [n] if n else [0]
    if how == "blocks":
        return [16] * (whole // 16) + ([n - whole] if n - whole else [])
    if how == "split":
        a = (whole // 32) * 16
        return [x for x in (a, whole - a, n - whole) if x]
    return [n]


def crypt_rows(prog, sh=None):
    sh = sh or Shard()
    wrong = []
    n = 0
    for ln in LENGTHS:
        for al in AAD:
            for how in ("one", "blocks", "split"):
                for decrypt in (False, True):
                    for start in (STARTS if (ln in (33, 48) and al == 17 and how == "one") else (1,)):
                        if not sh.take():
                            continue
                        n += 1
                        err = _one(prog, ln, al, how, decrypt, start)
                        if err:
                            wrong.append("%s %d bytes with %d bytes of associated data (%s, block counters from %#x): %s" % (
                                "decrypt" if decrypt else "encrypt", ln, al, how, start, err))
    return n, wrong


def _one(prog, ln, al, how, decrypt, start):
    m = Machine(prog, SRC, budget=40000000)
    ci = ToyCipher(m, 16)
    off0 = _pat(16, 0x51)
    rc, st = cmodes.start(m, "OCB_start_operation", [ci.p, m.alloc_bytes(list(off0), "offset0"), 16])
    if rc != 0:
        return "OCB_start_operation returns %#x" % rc
    if start != 1:
        for f in ("counter_P", "counter_A"):
            off, ft = _field(m, f)
            m.store(P(st.obj, st.off + off), ft, start)
    ref = RefOcb(off0, start, start)
    A = _pat(al, 0x21)
    data = _pat(ln, 0x77)
    if decrypt:
        data, _ = ref.crypt(data, A, False)          # a genuine ciphertext
    # associated data: aligned pieces, then the rest
    for k in _pieces(al, "blocks" if how != "one" else "one"):
        if k == 0:
            continue
        piece, A_rest = A[:k], A[k:]
        rc = m.call("OCB_update", [st, m.alloc_bytes(list(piece), "aad"), k])
        if rc != 0:
            return "OCB_update returns %#x" % rc
        A = A_rest
    A = _pat(al, 0x21)
    out = b""
    pos = 0
    for k in _pieces(ln, how):
        piece = data[pos:pos + k]
        pos += k
        src = m.alloc_bytes(list(piece) if k else [0], "in")
        dst = m.alloc(max(k, 1), "out", "heap", init=None)
        rc = m.call("OCB_decrypt" if decrypt else "OCB_encrypt", [st, src, dst, k])
        if rc != 0:
            return "returns %#x" % rc
        if k:
            out += m.concrete_bytes(dst, k)
    tagp = m.alloc(16, "tag", "heap", init=None)
    rc = m.call("OCB_digest", [st, tagp, 16])
    if rc != 0:
        return "OCB_digest returns %#x" % rc
    tag = m.concrete_bytes(tagp, 16)
    want, wtag = ref.crypt(data, A, decrypt)
    if out != want:
        i = [j for j in range(len(want)) if j >= len(out) or out[j] != want[j]][0]
        return "output byte %d (block %d) differs from RFC 7253 4.2/4.3" % (i, i // 16)
    if tag != wtag:
        return "the tag differs from RFC 7253 (output is right)"
    m.call("OCB_stop_operation", [st])
    live = [o for o in m.objs.values() if o.kind == "heap" and not o.freed and o.name.startswith(("calloc", "malloc"))]
    if live:
        return "after OCB_stop_operation %s is still allocated" % live[0].name
    bad = [e for e in m.events if e[0] in ("signed-overflow", "bad-shift", "overlap", "uninit-read")]
    if bad:
        return "%s: %s (line %s)" % bad[0]
    return None


def guard_rows(prog, sh=None):
    sh = sh or Shard()
    wrong = []
    n = 0
    for bl in (8, 16, 32):
        for ol in (0, 8, 15, 16, 17):
            if not sh.take():
                continue
            m = Machine(prog, SRC)
            ci = ToyCipher(m, bl)
            rc, st = cmodes.start(m, "OCB_start_operation", [ci.p, m.alloc_bytes([3] * max(ol, 1), "offset0"), ol])
            n += 1
            ok = bl == 16 and ol == 16
            if (rc == 0) != ok:
                wrong.append("OCB_start_operation(block %d, offset of %d bytes) returns %#x" % (bl, ol, rc))
            if rc != 0:
                live = [o for o in m.objs.values() if o.kind == "heap" and not o.freed and o.name.startswith(("calloc", "malloc"))]
                if live:
                    wrong.append("refused (block %d, offset %d) but %s stays allocated" % (bl, ol, live[0].name))
    for tl in (0, 8, 15, 17):
        if not sh.take():
            continue
        m = Machine(prog, SRC)
        ci = ToyCipher(m, 16)
        rc, st = cmodes.start(m, "OCB_start_operation", [ci.p, m.alloc_bytes([3] * 16, "offset0"), 16])
        r2 = m.call("OCB_digest", [st, m.alloc(32, "tag", "heap", init=None), tl])
        n += 1
        if r2 == 0:
            wrong.append("OCB_digest with a tag buffer of %d bytes is accepted" % tl)
    return n, wrong


def ocb_tables(check, ctx, rule="K-pw", groups=("crypt", "guards")):
    prog = CProgram(ctx.cdb)
    prog.tu(SRC)
    table = (("crypt", "crypt_rows", "ciphertext / plaintext and tag of src/raw_ocb.c = RFC 7253 4.2-4.3 (offsets by ntz of the block counter up to bit 62, L_* / L_$ doubling, partial final block, HASH of the associated data) for every length class, in one piece or block-aligned pieces, both directions", 16),
             ("guards", "guard_rows", "OCB_start_operation accepts exactly 128-bit blocks with a 16-byte initial offset (and frees what it allocated otherwise); OCB_digest writes exactly 16 bytes", 4))
    total = 0
    for key, fname, what, shards in table:
        if key not in groups:
            continue
        res = run_sharded(ctx.root, prog, __name__, [fname], shards=shards)
        n, wrong, und = res[fname]
        if und:
            raise AnalysisError("C evaluator could not decide OCB %s rows: %s" % (key, und))
        total += n
        check.ob(rule, "%s|c|ocb.%s" % (rule, key), not wrong, SRC, 0,
                 extracted=("%d of %d rows differ: " % (len(wrong), n) + "; ".join(wrong[:3])) if wrong else "%d rows as RFC 7253 over the checker's bijection; no out-of-bounds access, leak or uninitialised read" % n,
                 expected=what)
    check.count("c_ocb_rows", total)
    return total
